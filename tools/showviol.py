#!/usr/bin/env python3
import json,glob,os,sys
prop=sys.argv[1]; n=int(sys.argv[2]) if len(sys.argv)>2 else 12
seen={}
for f in sorted(glob.glob('/verif/replays/%s/*.json'%prop), key=os.path.getmtime):
    v=json.load(open(f)); d=v.get('detail',{})
    if 'stmt' not in v:
        print(json.dumps(v)[:600]); continue
    k=(v['stmt'].get('tag'), v['status'], (d.get('reason') or '')[:50], v['config']['name'], v.get('db',{}).get('tables',[{}])[0].get('storage'))
    if k in seen: continue
    seen[k]=1
    if len(seen)>n: break
    print(k)
    print('   ', v['stmt']['sql'][:200])
    print('    eng', d.get('engine_rows'), '| ref', d.get('ref_rows'), '|', d.get('reason'))
    print('    db', {t['name']:(t['rows'], {kk:t[kk] for kk in t if kk not in ('name','cols','rows')}) for t in v['db']['tables']}, v['db'].get('ctx'))
