#!/usr/bin/env python3
"""ad-hoc probe: tools/probe.py '<json db tables>' sql..."""
import sys, json
sys.path.insert(0,'/verif')
from vlib.driver import Driver
from vlib import sqldiff
import os
env={k[3:]:v for k,v in os.environ.items() if k.startswith('QE_') or k=='RAYON_NUM_THREADS'}
d=Driver(env={k:v for k,v in os.environ.items() if k.startswith('QE_') or k=='RAYON_NUM_THREADS'})
db=json.loads(sys.argv[1])
sqldiff.reg_db(d, db)
for q in sys.argv[2:]:
    mode='prod'
    if q.startswith('noopt:'): mode='noopt'; q=q[6:]
    r=d.call({'op':'sql','db':'d','sql':q,'plan':True,'mode':mode})
    print(q, '->', json.dumps(r)[:600])
d.close()
