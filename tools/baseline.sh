#!/bin/bash
# Run the repository's pinned test suite (guard OFF) in DIR (default /repo) and compare with BASELINE.json's stable_pass list.
# exit 0 iff every stable-pass test passes.
DIR=${1:-/repo}
cd "$DIR" || exit 2
export CARGO_NET_OFFLINE=true
rm -f target/nextest/pb/junit.xml
cargo nextest run --workspace --no-fail-fast --tool-config-file pb:/w/lib/nextest.toml --profile pb --test-threads 8 --offline >/tmp/baseline.$$.log 2>&1
python3 - "$DIR" <<'PY'
import json, sys, xml.etree.ElementTree as ET
d = sys.argv[1]
b = json.load(open('/root/.vp/BASELINE.json'))
want = set(b['stable_pass'])
try:
    root = ET.parse(d + '/target/nextest/pb/junit.xml').getroot()
except Exception as e:
    print('no junit output:', e); sys.exit(2)
passed, failed = set(), set()
for tc in root.iter('testcase'):
    tid = (tc.get('classname') or '') + '::' + (tc.get('name') or '')
    if tc.find('failure') is not None or tc.find('error') is not None or tc.find('flakyFailure') is not None or tc.find('rerunFailure') is not None:
        failed.add(tid)
    elif tc.find('skipped') is None:
        passed.add(tid)
passed -= failed
missing = sorted(want - passed)
print('baseline stable-pass tests: %d, passing now: %d, missing: %d' % (len(want), len(want & passed), len(missing)))
for m in missing[:40]:
    print('  NOT PASSING:', m)
sys.exit(1 if missing else 0)
PY
rc=$?
rm -f /tmp/baseline.$$.log
exit $rc
