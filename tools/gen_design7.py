import json,glob,os,sys
sys.path.insert(0,'/verif')
from checks import registry
d=json.load(open('/verif/known_findings.json'))
man=json.load(open('/verif/MANIFEST.json'))
out=[]
w=out.append
w("## 7. As built\n")
w("Sections 0-6 are the plan written before any code existed. This section records what the build rounds actually produced, where they departed from the plan, what the checks found, and how detection was demonstrated. Where this section and the plan disagree, this section describes the code in `/verif`.\n")
w("### 7.1 Departures from the plan\n")
w("""* **Oracle for SQL semantics.** The planned Python reference interpreter was not written. E1 compares the engine with **SQLite 3.40** (`vlib/sqlref.py`, through Python's `sqlite3`), restricted to the SQL both sides define identically (no integer division, no NaN ordering, `case_sensitive_like` on, dates as ISO text), with per-statement comparison rules (`vlib/compare.py`: multiset; sequence up to ties under ORDER BY; LIMIT/OFFSET slices up to ties at the boundary). Where SQLite cannot express a feature (GROUPING SETS, windows with RANGE frames, vector functions) the statement carries its own `ref` SQL, explicit `expect_rows`, or the oracle is differential against another execution of the engine (unoptimized, single batch, memory layout, unlimited memory). A reference disagreeing with a second opinion is a machinery error (exit 2), never a verdict.
* **One entry point.** `./check <ID> --tier quick|thorough [--no-build] [--replay file]` builds the harness crates from `/repo`'s working tree (feature `verif`), imports `checks/<id>.py`, and writes `evidence/<ID>.json` from the run itself. Exit 0 / 1 / 2 = held / violation / machinery error or vacuous run.
* **Engines as built** (`checks/registry.py` has one line per property):
  E1 `vlib/sqldiff.py` + `qe-driver` (JSON-lines engine process; ops newdb, reg, reg_path, pq_write, sql, sql_many, optplan, hooks, dist, sched, contract);
  E2 `qe-native <id>` (one Rust module per property on the real functions: c05, c06, c11-c18, c20, c34, c35, c37-c42);
  E4 `harness-loom` (real `execution/memory.rs` under `--cfg qe_verif_loom`, 41 bodies, brute-force linearizability oracle);
  E5 `dist` op (real coordinator over an in-process `FragmentTransport` with fault injection);
  E6 `vlib/optdiff.py` (unoptimized vs each rule alone vs the production pipeline);
  **poll-order explorer** (`qe-driver/src/sched.rs`, C07): drives the partition streams of a fresh physical plan by hand on a current-thread runtime, one `poll` per step, depth-first over all choice sequences up to a preemption bound;
  **sidecar scheduler** (`qe-native/src/c20.rs`, C20): virtual processes as threads parked at hook points H4, one mover at a time, depth-first up to a preemption bound, fresh directory per schedule;
  **history explorers**: C15 (BFS over Membership operation histories on the real object), C17 (BFS over Iceberg table histories through a writer the harness implements), C19 (all write/query/rewrite/query histories across three long-lived engine processes);
  **nodes** (`qe-native/src/nodes.rs`, C34/C35): real `serve` nodes spawned in-process on ephemeral ports.
* **Bounds.** Quick tiers were cut to stay under about a minute on a loaded 16-core box; every evidence file states the bound actually run in `coverage.rule`, whether it was exhaustive within it, and any cap hit (`caps_hit`). Thorough tiers raise row counts, depth, preemption bounds and graph sizes; they are not sampled either, with two stated exceptions: C19 depth-3 histories (complete for same-actor reuse chains, every 50th otherwise) and C32 n=7 (identity and reversed FROM order only).
* **Not built from the plan:** real multi-process sidecar races (sampling; replaced by the virtual-process explorer), pyarrow as a second Flight client family (not installed), files above 400 MB (gates opened through hooks H1/H2 instead), a Lance/indexed vector provider (the default build has none; C43 checks only that Indexed mode falls back).
""")
w("### 7.2 Status per property\n")
w("| id | level | engine | what the quick tier enumerates | findings |\n|---|---|---|---|---|")
known={}
for k in d['known']: known.setdefault(k['property'],[]).append(k['id'])
fixed={}
for f in d['fixed']:
    p=f.split('property=')[1].split()[0]; fixed[p]=fixed.get(p,0)+1
for c in man['checks'] if 'checks' in man else []:
    pass
props=sorted(registry.CHECKS)
for pid in props:
    r=registry.CHECKS[pid]
    kn=known.get(pid,[])
    ks=('known: '+', '.join(kn[:3])+(' (+%d more)'%(len(kn)-3) if len(kn)>3 else '')) if kn else ''
    fx=('%d repaired'%fixed[pid]) if pid in fixed else ''
    w("| %s | %s | %s | %s | %s |" % (pid, r['category'], r['engine'].split(' (')[0], r['text'].replace('|','/')[:260], '; '.join(x for x in (fx,ks) if x) or 'none'))
w("")
w("### 7.3 Defects found\n")
w("**Repaired** (one unguarded `fix:` commit each in `/repo`; the unedited 744-test baseline, `tools/baseline.sh`, passed on the tree after every one; twice several independent one-file repairs were baselined together and then committed one by one: a1e529e/04689a9/c79f71e/3448c32 and 1ffa713/179e35f). A repaired entry suppresses nothing: the check passes on the repaired tree and reports the violation again if it returns.\n")
for f in d['fixed']:
    w("* "+f.replace('fixed: ','')[:420])
w("")
w("**Recorded, not repaired** (`known_findings.json`, each matched by a deviant model or predicate specific to the finding, so a different violation of the same property is still reported):\n")
for k in d['known']:
    if k['property']=='C36': continue
    w("* %s `%s` - %s" % (k['property'],k['id'],k['what'][:600]))
n36=[k for k in d['known'] if k['property']=='C36']
w("* C36: %d divergences of scalar functions from the documented Trino semantics, one id and one predicate each (`checks/c36.py` `CANDIDATE_FINDINGS`, details with source lines in `checks/c36_notes.md`): %s. They are cross-cutting conventions of `evaluate_scalar_func` (NULL arguments read as 0/'' by `get_int_value`, parameter columns read from row 0, invalid arguments mapped to NULL, byte offsets instead of characters) or per-function formulas; repairing them is a rewrite of large parts of a 6,000-line evaluator and some are pinned by the repository's own tests, so only the five panics were repaired." % (len(n36), ', '.join('`%s`'%k['id'] for k in n36)))
w("")
w("Why the others were not repaired: `uniqueness_inferred_from_min_max_range` - footer statistics cannot prove uniqueness, so the repair is dropping the rewrite or adding a verified uniqueness source; the C24 pair - INTERSECT/EXCEPT need a null-safe multiset operator the engine does not have; `cte_scope_global`, `in_subquery_outer_ref_captured...`, `unoptimized_in_subquery_same_name_capture` - binder scoping redesign; `range_offset_frame_excludes_null_keys` - window frame evaluator; the C10 pair - Arrow IPC has no checksum and a flatbuffer verifier pass or payload checksum changes the wire format; `same_file_name_in_two_dirs` - split identity would have to become the full path, which changes every digest peers exchange; `double_statistics_ignore_nan_rows` - Parquet statistics do not record NaN presence, so pruning on DOUBLE columns would have to be disabled or the comparison semantics changed; `orders_custkey...` - deliberate, and the repository's fixtures depend on the generated bytes; `string_function_result_size_unbounded` - needs an engine-wide result-size budget.\n")
w("### 7.4 False alarms corrected in the machinery\n")
w("""Each of these was a check reporting a violation on code that satisfies the property; the check was corrected, never the property and never by loosening a right oracle:
* C09: a double-escaped regular expression failed to strip LIMIT before computing the full reference answer.
* C45: column-suffix substitution clobbered itself; the plan-shape oracle was applied to statements that do not take the gather path.
* C21: driver processes shared one spill directory (spill ids are per process); each driver now has its own.
* C07: the partition contract executed each root partition on a different fresh plan (outer joins emit unmatched rows from shared state); now one plan per operator.
* C08: the expected NULL placement of `ORDER BY x DESC` was assumed NULLS FIRST; the engine's documented default is NULLS LAST in both directions (C22/C25 decide that question).
* C17: the refusal variants were applied to the first manifest even when its only entry was DELETED (nothing poisoned).
* C20: statements affected by the C04 uniqueness finding were attributed to sidecars; they are now compared with the sidecar-off answer first.
* C35: expected an error for statements over the empty table (no shard reaches the peer), for forced distribution after discovery had already dropped the dead peer, and for a peer whose files differ only in content (the splits digest covers layout, which is what C14 states); the fault peer now differs in row counts.
* C36/C43: an explicit type refusal (DISTINCT on a vector column, bare NULL literal) is a refusal, not a wrong value.
* C10 (thorough tier): twelve single-byte flips covered by the listed finding (payload corruption is undetectable without a checksum) were printed as new violations because the FINAL row count changed after the merge stage; the matcher now requires an unchanged row count only for concatenated answers, where the coordinator's row-count check pins it.
* C11 / C19 (thorough tier): bounds that did not finish inside the time cap were cut (C11: length-3 inventories over a reduced kind set and 16 node counts; C19: depth-3 histories for same-actor reuse chains plus every 50th other) and the cut is stated in the evidence.
* Stale harness binaries after reverting a seeded change produced spurious violations with `--no-build`; the procedure is now rebuild-after-revert.
* C29: wall-clock time inside the 12-process pool on a loaded machine was read as a hang (a 77-way join that takes 0.5 s alone 'took 38 s'); statements slower than the limit or timed out in the pool are now re-timed alone with a load-scaled limit, and only a crash, a panic or a statement that is still slow alone is a violation. The depth families are spread over balanced tasks (every n up to 400, then every 25th).
* C22: the new subquery-above-join statements were first run in strict mode, so the explicit `NotImplemented` refusal of a dictionary-typed outer value counted as a violation; an explicit error is accepted there as the property says (the refusal itself was then repaired in the engine).
* C23: the new inner-name IN shapes reproduced the listed finding `in_subquery_outer_ref_captured_by_same_named_inner_column` through a different statement; the finding's deviant model (outer reference bound to the inner column) is now attached to those shapes too, so exactly that behaviour is matched and anything else is reported.
* C03 / C25 / C22 quick tiers exceeded a minute only while several 744-test baselines ran on the same machine; walls in the evidence are from the final, unloaded pass.
""")
w("### 7.5 Detection demonstrated\n")
w("Fresh sub-agents, given only one property's text and a private worktree (second-round agents also a one-line note of which function the first seed had changed, so that they pick another mechanism), produced a realistic property-breaking change each that compiles and passes the 744-test baseline, with a demonstration test. Every one was re-verified independently (`seeded/<id>/verify.json`: demo fails with the patch, passes without, baseline passes with it), then applied to `/repo`'s working tree, checked, and reverted. Checks that missed a change were strengthened until they caught it; the strengthening is general (new statement families, layouts, states), never the seeded input itself.\n")
w("| seed | change | caught by | missed at first / strengthening |\n|---|---|---|---|")
for s in sorted(glob.glob('/verif/seeded/*') + glob.glob('/verif/seeded/*/round2')):
    m=json.load(open(s+'/meta.json')); v=json.load(open(s+'/verify.json'))
    w("| %s | %s | %s | %s |" % (os.path.basename(s) if not s.endswith('round2') else os.path.basename(os.path.dirname(s)) + ' (2nd)', m.get('summary','').replace('\n',' ').replace('|','/')[:300], '; '.join(v.get('detected_by') or []), ('; '.join(v.get('missed_at_first_by') or []) + (' -> ' + v['strengthening'] if v.get('strengthening') else '')) or '-'))
w("")
w("### 7.6 Limits that remain\n")
w("""* Interleavings of OS threads inside rayon / tokio pools are not enumerated anywhere (loom cannot host the engine's data-parallel kernels: `loom::sync::Arc` lacks `make_mut`, shuttle's `Arc` is std's). C07 enumerates poll orders at await-point granularity and thread-count / batch-layout configurations; C33 enumerates real interleavings of the memory pool only.
* C20's scheduler treats `remove_dir_all` and the private staging build as single steps, and detects a thread blocked on the in-process build mutex by a 300 ms quiet period; schedule counts in that one configuration vary by a few between runs (counted as `diverged_replays`, never as verdicts).
* C35's peer-loss scenario does not control when discovery notices the loss; both documented outcomes are accepted and counted separately.
* C36 covers 170 of the binder's 250 scalar function names; the other 84 are listed in the evidence as uncovered with reasons (array/vector/JSON-typed results, clock- or time-zone-dependent functions, distributions without a stdlib reference).
* C01 is the composition check over a generated corpus; feature depth lives in the per-feature properties.
* Everything above the stated row / depth / length / preemption bounds.
""")
open('/verif/work/design7.md','w').write('\n'.join(out)+'\n')
print(len(out))
