#!/usr/bin/env python3
import json, os, sys
ROOT = os.path.dirname(os.path.dirname(os.path.abspath(__file__)))
sys.path.insert(0, ROOT)
from checks import registry

props = [json.loads(l) for l in open(os.path.join(ROOT, 'properties.jsonl'))]
checks, na = [], []
for p in props:
    pid = p['id']
    c = registry.CHECKS.get(pid)
    if c is None:
        na.append({'property_id': pid, 'reason': registry.NOT_APPLICABLE.get(pid, registry.PENDING_REASON) if hasattr(registry, 'NOT_APPLICABLE') else registry.PENDING_REASON})
        continue
    e = {
        'property_id': pid,
        'quick_cmd': './check %s --tier quick' % pid,
        'thorough_cmd': './check %s --tier thorough' % pid,
        'evidence_file': 'evidence/%s.json' % pid,
        'replay_cmd_template': './check %s --replay {path}' % pid,
        'engine': c['engine'],
        'level_claimed': {'category': c['category'], 'text': c['text'], 'design_ref': 'DESIGN.md section ' + c['design']},
        'level_note': c['note'],
        'technique': c['technique'],
    }
    checks.append(e)
hooks_commits = []
hc = os.path.join(ROOT, 'hooks_commits.txt')
if os.path.exists(hc):
    hooks_commits = [l.split()[0] for l in open(hc) if l.strip() and not l.startswith('#')]
m = {
    'version': 1,
    'setup_cmd': 'cd harness && CARGO_NET_OFFLINE=true cargo build --offline -q -p qe-driver -p qe-native && cd ../harness-loom && CARGO_NET_OFFLINE=true cargo build --offline -q',
    'hooks': {
        'guard': 'cargo feature `verif` (plus cfg `qe_verif_loom` for src/execution/memory.rs only)',
        'enable': 'the harness crates depend on query_engine with features=["verif"]; every check runs `cargo build --offline` in /verif/harness first, which rebuilds /repo\'s working tree with the feature on',
        'baseline_off_cmd': 'tools/baseline.sh /repo',
        'source_commits': hooks_commits,
        'add_only': True,
    },
    'engines': [
        {'name': 'optdiff', 'path': 'vlib/optdiff.py', 'serves_properties': ['C03', 'C31'], 'kind_free_text': 'per-rule / pipeline executions against the unoptimized plan through the driver'},
        {'name': 'distdiff', 'path': 'checks/c09.py, c10.py, c45.py + harness/qe-driver/src/dist.rs', 'serves_properties': ['C09', 'C10', 'C45'],
         'kind_free_text': 'real coordinator driven through an in-process (optionally fault-injecting) FragmentTransport'},
        {'name': 'loom', 'path': 'harness-loom', 'serves_properties': ['C33'], 'kind_free_text': 'loom model of the real memory pool source file'},
        {'name': 'native', 'path': 'harness/qe-native + vlib/native.py', 'serves_properties': sorted(k for k, v in registry.CHECKS.items() if v['engine'] == registry.E2),
         'kind_free_text': 'rust-native exhaustive enumerators calling the real functions/objects, one subcommand per property'},
        {'name': 'sqldiff', 'path': 'vlib/sqldiff.py + harness/qe-driver', 'serves_properties': sorted(k for k, v in registry.CHECKS.items() if v['engine'] == registry.E1),
         'kind_free_text': 'bounded-exhaustive statement x database enumeration executed on the real engine in a subprocess, compared with SQLite / python reference'},
    ],
    'checks': checks,
    'not_applicable': na,
    'notes': 'All checks enumerate their stated space exhaustively; VERIF_SEED only rotates enumeration order and samples. Known findings: known_findings.json.',
}
json.dump(m, open(os.path.join(ROOT, 'MANIFEST.json'), 'w'), indent=1)
print('claimed', len(checks), 'not_applicable', len(na))
