"""E1: bounded-exhaustive SQL differential engine.

unit  = {'db': dbspec, 'stmts': [stmt, ...], 'config': name (optional)}
dbspec = {'tables': [{'name','cols':[[n,t]],'rows':[[..]],'batches':[..]?, 'storage':'mem'|'parquet','rg':n?, 'replicate':m?}],
          'ctx': {'mem_limit':..,'partitions':..}?}
stmt  = {'sql': engine SQL, 'ref': reference SQL without LIMIT/OFFSET (default sql), 'order': [(ci,desc,nulls_first)]|None,
         'limit','offset','approx':bool,'tag':str,'mode':'prod'|'noopt'|'rules','rules':[..],
         'strict': bool (Execution/Internal error is a violation), 'nontrivial': bool|None,
         'alts': {finding_id: deviant reference SQL}, 'expect_rows': explicit reference rows (instead of sqlite)}
config = {'name': str, 'env': {..}}
"""
import hashlib, json, os, sys, time, traceback
import multiprocessing as mp
from . import driver as drv
from .sqlref import Ref, RefError
from .compare import norm_rows, compare_result

REFUSAL = {'Parse', 'Bind', 'Type', 'NotImplemented', 'Plan', 'TableNotFound', 'ColumnNotFound', 'InvalidArgument'}

_drivers = {}


def get_driver(cfg):
    key = json.dumps(cfg.get('env', {}), sort_keys=True)
    d = _drivers.get(key)
    if d is None:
        d = drv.Driver(env=cfg.get('env', {}))
        _drivers[key] = d
    return d


def close_drivers():
    for d in _drivers.values():
        d.close()
    _drivers.clear()


def reg_db(d, dbspec, dbname='d'):
    req = {'op': 'newdb', 'db': dbname}
    req.update(dbspec.get('ctx', {}))
    r = d.call(req)
    if not r.get('ok'):
        raise RuntimeError('newdb: %r' % r)
    for t in dbspec['tables']:
        rows = t['rows'] * int(t.get('replicate', 1))
        q = {'op': 'reg', 'db': dbname, 'table': t['name'], 'cols': t['cols'], 'rows': rows,
             'storage': t.get('storage', 'mem')}
        if 'batches' in t and int(t.get('replicate', 1)) == 1:
            q['batches'] = t['batches']
        elif 'nbatches' in t:
            n, k = len(rows), t['nbatches']
            base = [n // k + (1 if i < n % k else 0) for i in range(k)]
            q['batches'] = [b for b in base if b > 0] or [0]
        if 'rg' in t:
            q['rg'] = t['rg']
        r = d.call(q)
        if not r.get('ok'):
            raise RuntimeError('reg: %r' % r)


def eval_stmt(d, ref, ref_cache, stmt, dbname='d', timeout=30):
    """returns (status, detail). status in agree|refused|exec_error|crash|timeout|known:<id>|violation|ref_error"""
    req = {'op': 'sql', 'db': dbname, 'sql': stmt['sql'], 'mode': stmt.get('mode', 'prod')}
    if stmt.get('rules') is not None:
        req['rules'] = stmt['rules']
    if stmt.get('want_plan'):
        req['plan'] = True
    if 'stats' in stmt:
        req['stats'] = stmt['stats']
    try:
        r = d.call(req, timeout=timeout)
    except drv.DriverTimeout:
        return 'timeout', {'reason': 'no reply within %ss' % timeout}
    except drv.DriverDied as e:
        return 'crash', {'reason': 'driver process died: %s' % (e,)}
    if not r.get('ok'):
        cls = r.get('err')
        if cls == 'Driver':
            raise RuntimeError('driver protocol error: %r' % r)
        if cls == 'Panic':
            return 'panic', {'reason': 'panic: ' + r.get('msg', '')[:300], 'reply': r}
        if cls in REFUSAL:
            return 'refused', {'reply': r}
        return 'exec_error', {'reason': '%s: %s' % (cls, r.get('msg', '')[:300]), 'reply': r}
    approx = stmt.get('approx', False)
    eng = norm_rows(r['rows'], approx)
    detail = {'engine_rows': r['rows'], 'cols': r.get('cols'), 'plan': r.get('plan'), 'batch_schemas': r.get('batch_schemas'), 'spilled': r.get('spilled', 0)}
    if stmt.get('textual'):
        # value-preserving up to the spelling of the type: 1 may come back as '1'
        eng = [tuple(None if c is None else str(c) for c in row) for row in eng]
    if 'expect_rows' in stmt:
        ref_rows = norm_rows(stmt['expect_rows'], approx)
        if stmt.get('textual'):
            ref_rows = [tuple(None if c is None else str(c) for c in row) for row in ref_rows]
        if stmt.get('xref'):
            try:
                if stmt['xref'] not in ref_cache:
                    ref_cache[stmt['xref']] = ref.run(stmt['xref'])
                xr = norm_rows(ref_cache[stmt['xref']], approx)
                if compare_result(xr, ref_rows, None, None, None) is not None:
                    return 'oracle_disagree', {'reason': 'python reference %r != sqlite %r for %s' % (ref_rows, xr, stmt['xref'])}
            except RefError as e:
                return 'oracle_disagree', {'reason': 'sqlite cross-check failed: %s' % e}
    else:
        rsql = stmt.get('ref', stmt['sql'])
        try:
            if rsql not in ref_cache:
                ref_cache[rsql] = ref.run(rsql)
            ref_rows = norm_rows(ref_cache[rsql], approx)
        except RefError as e:
            return 'ref_error', {'reason': 'reference: %s' % e}
    detail['ref_rows'] = ref_rows
    reason = compare_result(eng, ref_rows, stmt.get('order'), stmt.get('limit'), stmt.get('offset'))
    if reason is None:
        return 'agree', detail
    detail['reason'] = reason
    for kid, arows in (stmt.get('alt_rows') or {}).items():
        if compare_result(eng, norm_rows(arows, approx), stmt.get('order'), stmt.get('limit'), stmt.get('offset')) is None:
            detail['known'] = kid.split('#')[0]
            return 'known:' + kid.split('#')[0], detail
    for kid, spec in (stmt.get('alt_fns') or {}).items():
        arows = apply_alt_fn(spec, ref_rows)
        if arows is not None and compare_result(eng, arows, stmt.get('order'), stmt.get('limit'), stmt.get('offset')) is None:
            detail['known'] = kid.split('#')[0]
            return 'known:' + kid.split('#')[0], detail
    for kid, asql in (stmt.get('alts') or {}).items():
        try:
            if asql not in ref_cache:
                ref_cache[asql] = ref.run(asql)
            arows = norm_rows(ref_cache[asql], approx)
        except RefError:
            continue
        if compare_result(eng, arows, stmt.get('order'), stmt.get('limit'), stmt.get('offset')) is None:
            detail['known'] = kid.split('#')[0]
            return 'known:' + kid.split('#')[0], detail
    return 'violation', detail


def apply_alt_fn(spec, ref_rows):
    """named deviations of the reference answer (known findings), applied to the normalized reference rows."""
    name = spec[0]
    if name == 'drop_empty_null_group':
        # the group whose key is NULL in every group column is lost when every aggregate of it is 0 / NULL
        ng = spec[1]
        return [r for r in ref_rows if not (all(v is None for v in r[:ng]) and all(v in (None, 0) for v in r[ng:]))]
    return None


def _work(args):
    prop, cfg, units, known_ids, timeout = args
    out = {'counts': {}, 'violations': [], 'known': {}, 'nontrivial': set(), 'samples': [], 'evaluations': 0, 'errors': []}

    def cnt(k):
        out['counts'][k] = out['counts'].get(k, 0) + 1
    try:
        d = get_driver(cfg)
        for u in units:
            ref = Ref()
            try:
                ref.load(u['db'])
                try:
                    reg_db(d, u['db'])
                except (drv.DriverDied, drv.DriverTimeout) as e:
                    out['errors'].append('register failed: %r' % (e,))
                    continue
                cache = {}
                dbh = hashlib.sha1(json.dumps(u['db'], sort_keys=True).encode()).digest()[:6]
                reload_needed = False
                for s in u['stmts']:
                    if reload_needed:
                        reg_db(d, u['db'])
                        reload_needed = False
                    st, detail = eval_stmt(d, ref, cache, s, timeout=timeout)
                    out['evaluations'] += 1
                    if st in ('timeout', 'crash'):
                        reload_needed = True
                    if st == 'oracle_disagree':
                        out['errors'].append(detail['reason'])
                        continue
                    strict = s.get('strict', False)
                    bad = st == 'violation' or (st in ('exec_error', 'panic', 'timeout', 'crash') and strict) \
                        or (st in ('panic', 'timeout', 'crash') and s.get('crash_is_violation', True))
                    if st.startswith('known:'):
                        kid = st[6:]
                        if kid in known_ids:
                            cnt('known')
                            out['known'].setdefault(kid, {'sql': s['sql'], 'db': _small(u['db'])})
                            continue
                        bad = True
                    if bad:
                        cnt('violation')
                        out.setdefault('viol_tags', {})
                        vt = '%s [%s]' % (s.get('tag'), st)
                        out['viol_tags'][vt] = out['viol_tags'].get(vt, 0) + 1
                        tagc = out.setdefault('_tagc', {})
                        tagc[s.get('tag')] = tagc.get(s.get('tag'), 0) + 1
                        if len(out['violations']) < 40 and tagc[s.get('tag')] <= 2:
                            out['violations'].append({'property': prop, 'kind': 'sqldiff', 'config': cfg, 'db': u['db'],
                                                      'stmt': s, 'status': st, 'detail': detail})
                        continue
                    cnt(st)
                    if st == 'exec_error':
                        ee = out.setdefault('exec_errors', {})
                        k = '%s | %s' % (s.get('tag'), (detail.get('reason') or '')[:90])
                        ee[k] = ee.get(k, 0) + 1
                    if detail.get('plan'):
                        pk = '>'.join(detail['plan'])
                        out.setdefault('plans', {})
                        out['plans'][pk] = out['plans'].get(pk, 0) + 1
                    if detail.get('spilled'):
                        cnt('spilled_runs')
                    if st == 'agree':
                        nt = s.get('nontrivial')
                        if nt is None:
                            nt = len(detail['ref_rows']) > 0
                        if nt:
                            out['nontrivial'].add(hashlib.sha1(dbh + s['sql'].encode() + cfg['name'].encode()).digest()[:8])
                        if len(out['samples']) < 2:
                            out['samples'].append({'config': cfg['name'], 'sql': s['sql'], 'tables': _small(u['db']),
                                                   'answer': detail['engine_rows'][:6]})
            finally:
                ref.close()
    except Exception:
        out['errors'].append(traceback.format_exc())
    return out


def _small(db):
    return {t['name']: {'rows': t['rows'][:8], 'layout': {k: t[k] for k in ('storage', 'batches', 'rg', 'replicate', 'nbatches') if k in t}}
            for t in db['tables']}


def _init():
    import atexit
    atexit.register(close_drivers)


def run(report, units, configs=None, workers=None, timeout=30, chunk=None):
    """Run all units under all configs; accumulate into report."""
    configs = configs or [{'name': 'default', 'env': {}}]
    workers = workers or min(12, os.cpu_count() or 4)
    units = list(units)
    if not units:
        return
    tasks = []
    known_ids = set(report.known.keys())
    for cfg in configs:
        us = [u for u in units if u.get('config') in (None, cfg['name'])]
        if not us:
            continue
        n = chunk or max(1, min(40, len(us) // (workers * 3) + 1))
        for i in range(0, len(us), n):
            tasks.append((report.prop, cfg, us[i:i + n], known_ids, timeout))
    with mp.Pool(workers, initializer=_init) as pool:
        for out in pool.imap_unordered(_work, tasks):
            report.evaluations += out['evaluations']
            report.merge_counts(out['counts'])
            report.nontrivial |= out['nontrivial']
            for v in out['violations']:
                report.violation(v)
            for k, ex in out['known'].items():
                report.known_hit(k, ex)
            for s in out['samples']:
                report.add_sample(s)
            for e in out['errors']:
                report.machinery(e)
            for vt, n in out.get('viol_tags', {}).items():
                d = report.extra.setdefault('violations_by_tag', {})
                d[vt] = d.get(vt, 0) + n
            for k, n in out.get('exec_errors', {}).items():
                d = report.extra.setdefault('exec_errors_by_tag', {})
                if k in d or len(d) < 40:
                    d[k] = d.get(k, 0) + n
            for pk, n in out.get('plans', {}).items():
                pl = report.extra.setdefault('plans_observed', {})
                pl[pk] = pl.get(pk, 0) + n
        pool.close()
        pool.join()


def replay(payload):
    cfg = payload['config']
    d = drv.Driver(env=cfg.get('env', {}))
    ref = Ref()
    try:
        ref.load(payload['db'])
        reg_db(d, payload['db'])
        st, detail = eval_stmt(d, ref, {}, payload['stmt'])
        print('status:', st)
        print('sql:', payload['stmt']['sql'])
        print('engine:', detail.get('engine_rows'))
        print('reference:', detail.get('ref_rows'))
        print('reason:', detail.get('reason'))
        return 0 if st in ('agree', 'refused') else 1
    finally:
        d.close()
        ref.close()
