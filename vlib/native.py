"""Run a qe-native subcommand and merge its JSON summary into a Report."""
import json, os, subprocess
from . import driver as drv

NATIVE_BIN = os.path.join(drv.TARGET_DIR, 'debug', 'qe-native')


def run(report, sub, extra_args=(), timeout=3600, env=None):
    work = os.path.join(drv.WORK, 'native-%d' % os.getpid())
    os.makedirs(work, exist_ok=True)
    e = dict(os.environ)
    e.update(env or {})
    try:
        p = subprocess.run([NATIVE_BIN, sub, report.tier, str(report.seed), work] + list(extra_args),
                           stdout=subprocess.PIPE, stderr=subprocess.PIPE, timeout=timeout, env=e)
    except subprocess.TimeoutExpired:
        report.machinery('qe-native %s timed out after %ss' % (sub, timeout))
        return None
    finally:
        import shutil
        shutil.rmtree(work, ignore_errors=True)
    line = None
    for l in p.stdout.decode(errors='replace').splitlines():
        if l.startswith('{'):
            line = l
    if p.returncode != 0 or line is None:
        report.machinery('qe-native %s exited %s: %s' % (sub, p.returncode, p.stderr.decode(errors='replace')[-2000:]))
        return None
    o = json.loads(line)
    report.evaluations += o['evaluations']
    report.nontrivial_extra += o['distinct_nontrivial']
    report.merge_counts(o.get('counts', {}))
    for s in o.get('samples', []):
        report.add_sample(s)
    for v in o.get('violations', []):
        report.violation(v)
    if o.get('nviolations', 0) > len(o.get('violations', [])):
        report.count('violations_not_saved', o['nviolations'] - len(o['violations']))
    for kid, ex in o.get('known', {}).items():
        if kid in report.known:
            report.known_hit(kid, ex)
        else:
            report.violation({'property': report.prop, 'kind': 'native', 'why': 'unlisted finding ' + kid, 'example': ex})
    for k, v in o.get('extra', {}).items():
        report.extra[k] = v
    return o


def replay_generic(payload):
    print(json.dumps(payload, indent=1)[:4000])
    print('native replays re-run the whole (deterministic) enumeration: ./check %s --tier quick' % payload.get('property'))
    return 1
