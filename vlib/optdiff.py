"""Optimizer differential: unoptimized plan vs each rule alone vs rule pairs vs the production pipeline (C03 rows, C31 well-formedness)."""
import hashlib, json, os, traceback
import multiprocessing as mp
from . import sqldiff, driver as drv
from .compare import norm_rows, compare_result
from .sqlref import Ref, RefError

RULES = ['ConstantFolding', 'DeriveOrPredicates', 'PredicatePushdown', 'FlattenDependentJoin', 'SubqueryDecorrelation', 'SemiJoinPushdown', 'JoinReorder', 'HavingTotalCse',
         'GroupKeyReduction', 'EagerAggregation', 'PackedGroupKeys', 'PackedJoinKeys', 'ProjectionPushdown', 'VectorSearchPushdown']
WELLFORMED_ERRS = ('Internal', 'ColumnNotFound', 'Plan', 'Bind', 'Type', 'Arrow', 'Panic')


def _cols_key(cols):
    return [(c[0].split('.')[-1], c[1]) for c in (cols or [])]


def _work(args):
    prop, units, modes, want = args
    out = {'evaluations': 0, 'counts': {}, 'violations': [], 'nontrivial': set(), 'samples': [], 'errors': [], 'by_rule': {}}

    def cnt(k, n=1):
        out['counts'][k] = out['counts'].get(k, 0) + n
    try:
        d = sqldiff.get_driver({'name': 'default', 'env': {}})
        for u in units:
            sqldiff.reg_db(d, u['db'])
            ref_db = Ref()
            ref_db.load(u['db'])
            dbh = hashlib.sha1(json.dumps(u['db'], sort_keys=True).encode()).digest()[:6]
            for s in u['stmts']:
                try:
                    base = d.call({'op': 'sql', 'db': 'd', 'sql': s['sql'], 'mode': 'noopt'}, timeout=60)
                except (drv.DriverDied, drv.DriverTimeout):
                    sqldiff.reg_db(d, u['db'])
                    cnt('base_crashed')
                    continue
                if not base.get('ok'):
                    cnt('unoptimized_plan_refuses')   # incomparable
                    continue
                approx = s.get('approx', False)
                ref = norm_rows(base['rows'], approx)
                for m in (u.get('modes') or modes):
                    req = {'op': 'sql', 'db': 'd', 'sql': s['sql']}
                    if m == 'prod':
                        req['mode'] = 'prod'
                    else:
                        req.update({'mode': 'rules', 'rules': list(m)})
                    mname = m if m == 'prod' else '+'.join(m)
                    out['evaluations'] += 1
                    try:
                        r = d.call(req, timeout=60)
                    except (drv.DriverDied, drv.DriverTimeout) as e:
                        sqldiff.reg_db(d, u['db'])
                        r = {'ok': False, 'err': 'Panic', 'msg': 'process died or hung: %r' % (e,)}
                    why = None
                    if not r.get('ok'):
                        if want == 'wellformed' and (r.get('err') in WELLFORMED_ERRS or 'optimizer rule' in r.get('msg', '')):
                            why = 'the unoptimized plan executes but after %s: %s: %s' % (mname, r.get('err'), r.get('msg', '')[:200])
                        elif want == 'rows' and r.get('err') == 'Panic':
                            why = 'panic after %s: %s' % (mname, r.get('msg', '')[:200])
                        else:
                            cnt('optimized_errors:' + str(r.get('err')))
                            continue
                    else:
                        if want == 'rows':
                            # with LIMIT the unoptimized slice may resolve ties differently: compare against the un-limited unoptimized answer
                            full = ref
                            if s.get('limit') is not None or s.get('offset') is not None:
                                fr = d.call({'op': 'sql', 'db': 'd', 'sql': s.get('ref', s['sql']), 'mode': 'noopt'}, timeout=60)
                                full = norm_rows(fr['rows'], approx) if fr.get('ok') else ref
                            why = compare_result(norm_rows(r['rows'], approx), full, s.get('order'), s.get('limit'), s.get('offset'))
                            if why:
                                why = '%s after %s' % (why, mname)
                        else:
                            if _cols_key(r.get('cols')) != _cols_key(base.get('cols')):
                                why = 'output schema changed by %s: %s -> %s' % (mname, base.get('cols'), r.get('cols'))
                    if why and want == 'rows' and r.get('ok') and u.get('known_unopt'):
                        # second opinion: if the OPTIMIZED answer is the SQL answer, the unoptimized (row-by-row) execution is the wrong side
                        try:
                            sq = norm_rows(ref_db.run(s.get('ref', s['sql'])), approx)
                            if compare_result(norm_rows(r['rows'], approx), sq, s.get('order'), s.get('limit'), s.get('offset')) is None \
                                    and any(p in s['sql'] for p in u['known_unopt']['patterns']):
                                out.setdefault('known', {}).setdefault(u['known_unopt']['id'], {'sql': s['sql'], 'rules': mname, 'optimized_rows': r['rows'][:6], 'unoptimized_rows': base['rows'][:6]})
                                cnt('known')
                                continue
                        except RefError:
                            pass
                    if why:
                        cnt('violation')
                        out['by_rule'][mname] = out['by_rule'].get(mname, 0) + 1
                        if len(out['violations']) < 12:
                            out['violations'].append({'property': prop, 'kind': 'optdiff', 'db': u['db'], 'stmt': s, 'rules': mname, 'why': why,
                                                      'optimized_rows': (r.get('rows') or [])[:20], 'unoptimized_rows': base['rows'][:20]})
                    else:
                        cnt('agree')
                        if len(ref) > 0:
                            out['nontrivial'].add(hashlib.sha1(dbh + s['sql'].encode() + mname.encode()).digest()[:8])
                        if len(out['samples']) < 1 and m != 'prod' and len(ref) > 1:
                            out['samples'].append({'sql': s['sql'], 'rules': mname, 'rows': base['rows'][:4]})
    except Exception:
        out['errors'].append(traceback.format_exc())
    return out


def run(rep, units, modes, want):
    tasks = [(rep.prop, units[i:i + 1], modes, want) for i in range(0, len(units), 1)]
    by_rule = {}
    with mp.Pool(min(12, os.cpu_count() or 4), initializer=sqldiff._init) as pool:
        for out in pool.imap_unordered(_work, tasks):
            rep.evaluations += out['evaluations']
            rep.merge_counts(out['counts'])
            rep.nontrivial |= out['nontrivial']
            for v in out['violations']:
                rep.violation(v)
            for s in out['samples']:
                rep.add_sample(s)
            for e in out['errors']:
                rep.machinery(e)
            for k, n in out['by_rule'].items():
                by_rule[k] = by_rule.get(k, 0) + n
            for kid, ex in out.get('known', {}).items():
                if kid in rep.known:
                    rep.known_hit(kid, ex)
                else:
                    rep.violation({'property': rep.prop, 'kind': 'optdiff', 'why': 'unlisted finding ' + kid, 'example': ex})
    rep.extra['violations_by_rule'] = by_rule


def replay(payload):
    d = drv.Driver()
    try:
        sqldiff.reg_db(d, payload['db'])
        sql = payload['stmt']['sql']
        print(sql)
        print('unoptimized:', d.call({'op': 'sql', 'db': 'd', 'sql': sql, 'mode': 'noopt'}))
        m = payload['rules']
        req = {'op': 'sql', 'db': 'd', 'sql': sql, 'mode': 'prod'} if m == 'prod' else {'op': 'sql', 'db': 'd', 'sql': sql, 'mode': 'rules', 'rules': m.split('+')}
        print('%s:' % m, d.call(req))
    finally:
        d.close()
    return 1
