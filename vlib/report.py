"""Evidence + verdict accumulator shared by all checks."""
import json, os, sys, time, hashlib

ROOT = os.path.dirname(os.path.dirname(os.path.abspath(__file__)))


def load_known():
    p = os.path.join(ROOT, 'known_findings.json')
    if not os.path.exists(p):
        return {'known': [], 'fixed': []}
    return json.load(open(p))


def known_ids(prop):
    return {k['id']: k for k in load_known().get('known', []) if k.get('property') == prop}


class Report:
    def __init__(self, prop, tier, seed, level):
        self.prop, self.tier, self.seed, self.level = prop, tier, seed, level
        self.t0 = time.time()
        self.evaluations = 0
        self.nontrivial = set()
        self.nontrivial_extra = 0
        self.counts = {}
        self.samples = []
        self.violations = []          # dicts (replay payloads)
        self.known_hits = {}          # id -> example
        self.assumptions = []
        self.extra = {}
        self.rule = ''
        self.exhaustive = True
        self.caps = []
        self.known = known_ids(prop)
        self.machinery_errors = []

    def count(self, key, n=1):
        self.counts[key] = self.counts.get(key, 0) + n

    def merge_counts(self, d):
        for k, v in d.items():
            self.count(k, v)

    def add_sample(self, s, cap=6):
        if len(self.samples) < cap:
            self.samples.append(s)

    def violation(self, payload):
        self.violations.append(payload)

    def known_hit(self, kid, example):
        if kid not in self.known_hits:
            self.known_hits[kid] = example

    def machinery(self, msg):
        self.machinery_errors.append(msg)

    def finish(self):
        wall = time.time() - self.t0
        os.makedirs(os.path.join(ROOT, 'evidence'), exist_ok=True)
        rdir = os.path.join(ROOT, 'replays', self.prop)
        lines = []
        vio_paths = []
        import shutil
        shutil.rmtree(rdir, ignore_errors=True)
        if self.violations:
            os.makedirs(rdir, exist_ok=True)
            # keep a diverse sample: round-robin over statement tags (or 'why' for native checks)
            by = {}
            for v in self.violations:
                k = str((v.get('stmt') or {}).get('tag') or v.get('why') or v.get('kind'))[:60]
                by.setdefault(k, []).append(v)
            picked = []
            while len(picked) < 40 and any(by.values()):
                for k in list(by):
                    if by[k]:
                        picked.append(by[k].pop(0))
            for i, v in enumerate(picked[:40]):
                h = hashlib.sha1(json.dumps(v, sort_keys=True, default=str).encode()).hexdigest()[:10]
                p = os.path.join(rdir, '%s.json' % h)
                json.dump(v, open(p, 'w'), indent=1, default=str)
                vio_paths.append(p)
                lines.append('VIOLATION property=%s replay=%s' % (self.prop, p))
        for kid, ex in self.known_hits.items():
            lines.append('KNOWN-FINDING: property=%s %s %s' % (self.prop, kid, json.dumps(ex, default=str)[:300]))
        nd = len(self.nontrivial) + self.nontrivial_extra
        cov = {
            'evaluations': int(self.evaluations),
            'distinct_nontrivial': int(nd),
            'rule': self.rule,
            'samples': self.samples[:8] if self.samples else ['(none)'],
            'exhaustive': bool(self.exhaustive and not self.caps),
            'caps_hit': self.caps,
            'counts': self.counts,
            'known_findings_hit': sorted(self.known_hits),
        }
        cov.update(self.extra)
        ev = {
            'property_id': self.prop, 'tier': self.tier, 'seed': int(self.seed), 'level': self.level,
            'coverage': cov, 'assumptions': self.assumptions, 'wall_s': round(wall, 2),
            'violations': len(self.violations),
        }
        if self.machinery_errors:
            ev['machinery_errors'] = self.machinery_errors[:10]
        json.dump(ev, open(os.path.join(ROOT, 'evidence', '%s.json' % self.prop), 'w'), indent=1, default=str)
        print('%s tier=%s evaluations=%d distinct_nontrivial=%d wall=%.1fs counts=%s' % (
            self.prop, self.tier, self.evaluations, nd, wall, json.dumps(self.counts, sort_keys=True)))
        for l in lines:
            print(l)
        if self.machinery_errors:
            for m in self.machinery_errors[:10]:
                print('MACHINERY-ERROR: %s' % m, file=sys.stderr)
            return 2
        if self.violations:
            return 1
        if self.evaluations == 0 or nd < 2:
            print('MACHINERY-ERROR: vacuous run', file=sys.stderr)
            return 2
        return 0
