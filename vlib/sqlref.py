"""Reference oracle: SQLite 3.40 on the same data, plus dialect translation."""
import re, sqlite3, math

SQLITE_TYPES = {'int32': 'INTEGER', 'int64': 'INTEGER', 'float64': 'REAL', 'float32': 'REAL',
                'utf8': 'TEXT', 'bool': 'INTEGER', 'date32': 'TEXT'}


class RefError(Exception):
    pass


def cell_to_sqlite(v):
    if isinstance(v, list):
        if v and v[0] == 'f':
            return float(v[1])
        if v and v[0] == 'd':
            return v[1]
        raise RefError('cell %r' % (v,))
    if isinstance(v, bool):
        return int(v)
    return v


_DATE = re.compile(r"\bDATE\s+'(\d{4}-\d{2}-\d{2})'", re.I)
_TRUE = re.compile(r"\bTRUE\b", re.I)
_FALSE = re.compile(r"\bFALSE\b", re.I)


def to_sqlite(sql):
    sql = _DATE.sub(r"'\1'", sql)
    sql = _TRUE.sub('1', sql)
    sql = _FALSE.sub('0', sql)
    return sql


class Ref:
    def __init__(self):
        self.con = sqlite3.connect(':memory:')
        self.con.execute('PRAGMA case_sensitive_like=ON')

    def load(self, dbspec):
        for t in dbspec['tables']:
            cols = ', '.join('"%s" %s' % (c[0], SQLITE_TYPES[c[1]]) for c in t['cols'])
            self.con.execute('DROP TABLE IF EXISTS "%s"' % t['name'])
            self.con.execute('CREATE TABLE "%s" (%s)' % (t['name'], cols))
            rows = [tuple(cell_to_sqlite(v) for v in r) for r in t['rows']]
            rows = rows * int(t.get('replicate', 1))
            if rows:
                self.con.executemany('INSERT INTO "%s" VALUES (%s)' % (t['name'], ','.join('?' * len(t['cols']))), rows)

    def run(self, sql):
        try:
            cur = self.con.execute(to_sqlite(sql))
            return [tuple(r) for r in cur.fetchall()]
        except sqlite3.Error as e:
            raise RefError(str(e))

    def close(self):
        self.con.close()
