"""Exhaustive enumerators."""
import itertools


def multisets(domain, max_size, min_size=0):
    for n in range(min_size, max_size + 1):
        for c in itertools.combinations_with_replacement(domain, n):
            yield list(c)


def sequences(domain, max_size, min_size=0):
    for n in range(min_size, max_size + 1):
        for c in itertools.product(domain, repeat=n):
            yield list(c)


def compositions(n, max_parts=None):
    """all ways to write n as an ordered sum of positive parts."""
    if n == 0:
        yield []
        return
    for cut in range(2 ** (n - 1)):
        parts, cur = [], 1
        for i in range(n - 1):
            if cut >> i & 1:
                parts.append(cur)
                cur = 1
            else:
                cur += 1
        parts.append(cur)
        if max_parts is None or len(parts) <= max_parts:
            yield parts


def rotate(lst, seed):
    if not lst:
        return lst
    k = seed % len(lst)
    return lst[k:] + lst[:k]
