"""Comparison rules (DESIGN 2.1): multiset equality, sortedness, LIMIT/OFFSET slices."""
from collections import Counter
from functools import cmp_to_key
import math


def norm_cell(v, approx=False):
    """Engine JSON cell or sqlite cell -> comparable python value."""
    if v is None:
        return None
    if isinstance(v, bool):
        return int(v)
    if isinstance(v, list):
        if v and v[0] == 'f':
            s = v[1]
            if s == 'NaN':
                return 'NaN'
            x = float(s)
            return _nf(x, approx)
        if v and v[0] == 'd':
            return v[1]
        if v and v[0] == 'o':
            return ('o', v[1], v[2])
        return tuple(norm_cell(x, approx) for x in v)
    if isinstance(v, float):
        if math.isnan(v):
            return 'NaN'
        return _nf(v, approx)
    return v


def _nf(x, approx):
    if math.isinf(x):
        return 'inf' if x > 0 else '-inf'
    if approx and x != 0:
        return float('%.9g' % x)
    return x


def norm_rows(rows, approx=False):
    return [tuple(norm_cell(c, approx) for c in r) for r in rows]


def multiset_eq(a, b):
    return Counter(a) == Counter(b)


def submultiset(a, b):
    ca, cb = Counter(a), Counter(b)
    return all(cb[k] >= n for k, n in ca.items())


def _cmp_val(x, y):
    if x == y:
        return 0
    try:
        return -1 if x < y else 1
    except TypeError:
        return -1 if str(x) < str(y) else 1


def make_row_cmp(order):
    """order: list of (col_index, desc, nulls_first)."""
    def cmp(r1, r2):
        for (ci, desc, nf) in order:
            x, y = r1[ci], r2[ci]
            if x is None and y is None:
                continue
            if x is None:
                return -1 if nf else 1
            if y is None:
                return 1 if nf else -1
            c = _cmp_val(x, y)
            if c:
                return -c if desc else c
        return 0
    return cmp


def is_sorted(rows, order):
    cmp = make_row_cmp(order)
    return all(cmp(rows[i], rows[i + 1]) <= 0 for i in range(len(rows) - 1))


def keyseq(rows, order):
    return [tuple(r[ci] for (ci, _, _) in order) for r in rows]


def compare_result(eng, ref_full, order=None, limit=None, offset=None):
    """eng: normalized engine rows (sequence). ref_full: normalized reference rows of the
    statement WITHOUT limit/offset. Returns None if acceptable else a reason string."""
    off = offset or 0
    if order is None:
        if limit is None and not off:
            return None if multiset_eq(eng, ref_full) else 'multiset differs'
        n = max(0, len(ref_full) - off)
        if limit is not None:
            n = min(n, limit)
        if len(eng) != n:
            return 'row count %d, expected %d' % (len(eng), n)
        return None if submultiset(eng, ref_full) else 'rows not drawn from the reference answer'
    if not is_sorted(eng, order):
        return 'not sorted under ORDER BY'
    if limit is None and not off:
        return None if multiset_eq(eng, ref_full) else 'multiset differs'
    srt = sorted(ref_full, key=cmp_to_key(make_row_cmp(order)))
    sl = srt[off:] if limit is None else srt[off:off + limit]
    if len(eng) != len(sl):
        return 'row count %d, expected %d' % (len(eng), len(sl))
    if keyseq(eng, order) != keyseq(sl, order):
        return 'sort keys of the slice differ'
    if not submultiset(eng, ref_full):
        return 'rows not drawn from the reference answer'
    # rows strictly inside the slice (key not equal to a boundary key outside the slice) must be present
    cmpf = make_row_cmp(order)
    outside = srt[:off] + (srt[off + limit:] if limit is not None else [])
    need = [r for r in sl if not any(cmpf(r, o) == 0 for o in outside)]
    if not submultiset(need, eng):
        return 'a row that must be in the slice is missing'
    return None
