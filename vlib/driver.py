"""Subprocess wrapper around harness/qe-driver (JSON lines)."""
import json, os, select, subprocess, time, signal

ROOT = os.path.dirname(os.path.dirname(os.path.abspath(__file__)))
# QE_TARGET_DIR: an alternative cargo target directory (used to try a modified engine without disturbing running checks)
TARGET_DIR = os.environ.get('QE_TARGET_DIR') or os.path.join(ROOT, 'target')
DRIVER_BIN = os.path.join(TARGET_DIR, 'debug', 'qe-driver')
WORK = os.path.join(ROOT, 'work')


class DriverDied(Exception):
    pass


class DriverTimeout(Exception):
    pass


class Driver:
    def __init__(self, env=None, tag='d'):
        self.env_extra = dict(env or {})
        self.tag = tag
        self.p = None
        self.buf = b''
        self.restarts = 0
        self.start()

    def start(self):
        env = dict(os.environ)
        env.setdefault('RAYON_NUM_THREADS', '2')
        env.update(self.env_extra)
        os.makedirs(WORK, exist_ok=True)
        env['QE_WORK'] = os.path.join(WORK, 'drv-%d' % os.getpid())
        self.workdir = env['QE_WORK']
        self.p = subprocess.Popen([DRIVER_BIN], stdin=subprocess.PIPE, stdout=subprocess.PIPE,
                                  stderr=subprocess.DEVNULL, env=env, bufsize=0)
        self.buf = b''

    def _readline(self, timeout):
        end = time.time() + timeout
        fd = self.p.stdout.fileno()
        while True:
            i = self.buf.find(b'\n')
            if i >= 0:
                line, self.buf = self.buf[:i], self.buf[i + 1:]
                return line
            left = end - time.time()
            if left <= 0:
                raise DriverTimeout()
            r, _, _ = select.select([fd], [], [], left)
            if not r:
                raise DriverTimeout()
            chunk = os.read(fd, 1 << 16)
            if not chunk:
                raise DriverDied(self.p.poll())
            self.buf += chunk

    def call(self, req, timeout=30):
        if self.p is None or self.p.poll() is not None:
            self.start()
        try:
            self.p.stdin.write((json.dumps(req) + '\n').encode())
            self.p.stdin.flush()
        except (BrokenPipeError, OSError):
            rc = self.p.poll()
            self.kill()
            raise DriverDied(rc)
        try:
            line = self._readline(timeout)
        except DriverTimeout:
            self.kill()
            raise
        except DriverDied as e:
            rc = None
            try:
                rc = self.p.wait(timeout=5)
            except Exception:
                pass
            self.kill()
            raise DriverDied(rc)
        return json.loads(line)

    def kill(self):
        if self.p is not None:
            try:
                self.p.kill()
                self.p.wait(timeout=5)
            except Exception:
                pass
        self.p = None
        self.restarts += 1

    def close(self):
        if self.p is not None and self.p.poll() is None:
            try:
                self.p.stdin.close()
                self.p.wait(timeout=5)
            except Exception:
                self.kill()
        self.p = None
        import shutil
        shutil.rmtree(self.workdir, ignore_errors=True)
