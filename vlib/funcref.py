"""Reference semantics (Trino documentation) for the engine's scalar functions - deliberately boring Python.

FUNCS: key -> Spec.  The key is 'NAME' or 'NAME/variant' (one Spec per overload / per keyword argument such as the unit of
DATE_TRUNC, which is part of the SQL template and not an enumerated argument).

A Spec has
  func   SQL function name (for grouping in reports)
  args   tuple of domains: a type-domain name ('int','dbl','str','date','ts','small','pat','bool', see checks/c36.py DOMAINS) or a
         Dom(type, values) with an explicit value list (None = NULL is always added by the enumerator)
  ref    python function of the argument values -> documented value.  Values: None (NULL), int, float, str, bool, datetime.date,
         datetime.datetime (timestamp without zone), bytes (varbinary), list (array).
         It may raise DomainError ("Trino documents / raises an error for this argument") or Unspecified ("the documentation does
         not pin this tuple down; do not judge it").
  null   'propagate': any NULL argument -> NULL without calling ref;  'custom': ref receives None values itself
  sql    template with {0} {1} ...; default NAME({0}, {1}, ...)
  note   '' for a Trino function with Trino's signature; otherwise why the entry is still trustworthy
  colarg which argument stays a column in the "mixed" evaluation mode (others become literals)

Calling conventions of the engine that are NOT judged: where Trino takes/returns VARBINARY the engine mostly takes a VARCHAR (its
UTF-8 bytes are the binary value) and returns either Binary or a lower-case hex string; the comparison in c36.py accepts a hex
string for a bytes reference value only for entries with binary_as_hex=True (hash functions) and says so in the rule text.
"""
import base64, binascii, datetime, decimal, hashlib, hmac as _hmac, json, math, re, struct, unicodedata, zlib


class DomainError(Exception):
    """the documented outcome is an error"""


class Unspecified(Exception):
    """the documentation does not determine the outcome for this tuple"""


class Dom:
    def __init__(self, typ, values, name=None):
        self.typ, self.values, self.name = typ, list(values), name or typ


class Spec:
    def __init__(self, func, args, ref, null='propagate', sql=None, note='', colarg=0, binary_as_hex=False, literal_ok=True):
        self.func, self.args, self.ref, self.null, self.sql, self.note = func, tuple(args), ref, null, sql, note
        self.colarg, self.binary_as_hex, self.literal_ok = colarg, binary_as_hex, literal_ok
        self.key = None

    def template(self):
        if self.sql:
            return self.sql
        return '%s(%s)' % (self.func, ', '.join('{%d}' % i for i in range(len(self.args))))

    def expected(self, args):
        """('val', v) | ('error',) | ('unspecified', why)"""
        try:
            if self.null == 'propagate' and any(a is None for a in args):
                return ('val', None)
            return ('val', self.ref(*args))
        except DomainError:
            return ('error',)
        except Unspecified as e:
            return ('unspecified', str(e))


FUNCS = {}
UNCOVERED = {}


def reg(key, func, args, ref, **kw):
    assert key not in FUNCS, key
    s = Spec(func, args, ref, **kw)
    s.key = key
    FUNCS[key] = s
    return s


I64_MIN, I64_MAX = -(1 << 63), (1 << 63) - 1
NAN, INF = float('nan'), float('inf')


def i64(x):
    """a BIGINT result: out of range is a documented error in Trino (no silent wrap-around)"""
    if not (I64_MIN <= x <= I64_MAX):
        raise DomainError('bigint out of range')
    return x


def isnan(x):
    return isinstance(x, float) and x != x


def isinf(x):
    return isinstance(x, float) and x in (INF, -INF)


# ----------------------------------------------------------------------------------------------------------------------------
# math
# ----------------------------------------------------------------------------------------------------------------------------

def _abs_int(x):
    return i64(abs(x))


reg('ABS/int', 'ABS', ('int',), _abs_int)
reg('ABS/dbl', 'ABS', ('dbl',), lambda x: abs(x))


def _ceil_d(x):
    return x if (isnan(x) or isinf(x)) else float(math.ceil(x))


def _floor_d(x):
    return x if (isnan(x) or isinf(x)) else float(math.floor(x))


for _n in ('CEIL', 'CEILING'):
    reg(_n + '/int', _n, ('int',), lambda x: x)
    reg(_n + '/dbl', _n, ('dbl',), _ceil_d)
reg('FLOOR/int', 'FLOOR', ('int',), lambda x: x)
reg('FLOOR/dbl', 'FLOOR', ('dbl',), _floor_d)

decimal.getcontext().prec = 800


def _round_half_away(x, d):
    """x (float) rounded to d decimals (d may be negative), ties away from zero, computed on the exact binary value"""
    if isnan(x) or isinf(x):
        return x
    if abs(d) > 300:
        raise Unspecified('10^d is not a finite double (Trino itself computes through Math.pow(10, d))')
    if abs(x) * 10.0 ** d >= 2.0 ** 53:
        # every digit that could be rounded away is already gone; Trino's own implementation goes through a 64-bit integer here and
        # does not return the mathematical value, so neither answer can be called "Trino compatible"
        raise Unspecified('magnitude beyond 2^53 after scaling')
    q = decimal.Decimal(1).scaleb(-d)
    r = (decimal.Decimal(x) / q).quantize(decimal.Decimal(1), rounding=decimal.ROUND_HALF_UP) * q   # ROUND_HALF_UP = ties away from zero
    return float(r)


def _round_int(x, d):
    if d >= 0:
        return x
    if d < -19:
        return 0
    p = 10 ** (-d)
    q, r = divmod(abs(x), p)
    if 2 * r >= p:
        q += 1
    return i64((q * p) * (1 if x >= 0 else -1))


reg('ROUND/int', 'ROUND', ('int',), lambda x: x)
reg('ROUND/dbl', 'ROUND', ('dbl',), lambda x: _round_half_away(x, 0))
reg('ROUND/int,small', 'ROUND', ('int', 'small'), _round_int)
reg('ROUND/dbl,small', 'ROUND', ('dbl', 'small'), _round_half_away)


def _trunc_d(x):
    return x if (isnan(x) or isinf(x)) else float(math.trunc(x))


def _trunc_dn(x, n):
    if isnan(x) or isinf(x):
        return x
    if abs(n) > 300:
        raise Unspecified('10^n is not a finite double')
    q = decimal.Decimal(1).scaleb(-n)
    r = (decimal.Decimal(x) / q).quantize(decimal.Decimal(1), rounding=decimal.ROUND_DOWN) * q
    return float(r)


def _trunc_i(x):
    if abs(x) > 2 ** 53:
        raise Unspecified('integer not exactly representable as a double')
    return float(x)


for _n in ('TRUNCATE', 'TRUNC'):
    reg(_n + '/dbl', _n, ('dbl',), _trunc_d, note='' if _n == 'TRUNCATE' else 'alias of TRUNCATE')
    reg(_n + '/int', _n, ('int',), _trunc_i, note='truncate(x) of an integer is that integer as a double (judged only where a double holds it exactly)')
    reg(_n + '/dbl,small', _n, ('dbl', 'small'), _trunc_dn)


def _pow(x, y):
    x, y = float(x), float(y)
    try:
        return math.pow(x, y)
    except OverflowError:
        neg = x < 0 and y == math.floor(y) and math.fmod(y, 2.0) != 0.0
        return -INF if neg else INF
    except ValueError:
        if x == 0.0 and y < 0:
            odd = y == math.floor(y) and not isinf(y) and math.fmod(y, 2.0) != 0.0
            return math.copysign(INF, x) if odd else INF
        return NAN


for _n in ('POWER', 'POW'):
    reg(_n + '/dbl,dbl', _n, ('dbl', 'dbl'), _pow)
    reg(_n + '/int,int', _n, ('int', 'int'), _pow, note='integers are coerced to double: power(double, double) -> double')
    reg(_n + '/int,dbl', _n, ('int', 'dbl'), _pow)


def _sqrt(x):
    x = float(x)
    if isnan(x):
        return x
    if x < 0:
        return NAN
    return math.sqrt(x) if not isinf(x) else x


def _cbrt(x):
    x = float(x)
    if isnan(x) or isinf(x) or x == 0:
        return x
    return math.cbrt(x)


reg('SQRT/dbl', 'SQRT', ('dbl',), _sqrt)
reg('SQRT/int', 'SQRT', ('int',), _sqrt)
reg('CBRT/dbl', 'CBRT', ('dbl',), _cbrt)
reg('CBRT/int', 'CBRT', ('int',), _cbrt)


def _mod_int(n, m):
    if m == 0:
        raise DomainError('Division by zero')
    r = abs(n) % abs(m)
    return -r if n < 0 else r


def _mod_dbl(n, m):
    if isnan(n) or isnan(m) or isinf(n) or m == 0:
        return NAN
    if isinf(m):
        return n
    return math.fmod(n, m)


reg('MOD/int,int', 'MOD', ('int', 'int'), _mod_int)
reg('MOD/dbl,dbl', 'MOD', ('dbl', 'dbl'), _mod_dbl)


def _sign_d(x):
    if isnan(x):
        return x
    return 0.0 if x == 0 else (1.0 if x > 0 else -1.0)


reg('SIGN/int', 'SIGN', ('int',), lambda x: (x > 0) - (x < 0))
reg('SIGN/dbl', 'SIGN', ('dbl',), _sign_d)


def _ln(x):
    x = float(x)
    if isnan(x):
        return x
    if x < 0:
        return NAN
    if x == 0:
        return -INF
    return math.log(x) if not isinf(x) else x


def _logb(f):
    def g(x):
        x = float(x)
        if isnan(x):
            return x
        if x < 0:
            return NAN
        if x == 0:
            return -INF
        return f(x) if not isinf(x) else x
    return g


def _log(b, x):
    b, x = float(b), float(x)
    if isnan(b) or isinf(b) or b <= 0 or b == 1:
        raise Unspecified('log(b, x) with a degenerate base')
    lb = math.log(b)
    lx = _ln(x)
    if isnan(lx):
        return lx
    return lx / lb


for _t in ('dbl', 'int'):
    reg('LN/' + _t, 'LN', (_t,), _ln)
    reg('LOG2/' + _t, 'LOG2', (_t,), _logb(math.log2))
    reg('LOG10/' + _t, 'LOG10', (_t,), _logb(math.log10))
reg('LOG/dbl,dbl', 'LOG', ('dbl', 'dbl'), _log)
reg('LOG/int,int', 'LOG', ('int', 'int'), _log)


def _exp(x):
    try:
        return math.exp(float(x))
    except OverflowError:
        return INF


reg('EXP/dbl', 'EXP', ('dbl',), _exp)
reg('EXP/int', 'EXP', ('int',), _exp)


def _trig(f, huge_unspecified=True):
    def g(x):
        x = float(x)
        if isnan(x):
            return x
        if isinf(x):
            return NAN
        if huge_unspecified and abs(x) > 1e15:
            raise Unspecified('argument reduction of a huge angle is library specific')
        return f(x)
    return g


def _inv(f):
    def g(x):
        x = float(x)
        if isnan(x) or abs(x) > 1:
            return NAN
        return f(x)
    return g


def _hyp(f):
    def g(x):
        x = float(x)
        try:
            return f(x)
        except OverflowError:
            return math.copysign(INF, x) if f is math.sinh else INF
    return g


for _t in ('dbl', 'int'):
    reg('SIN/' + _t, 'SIN', (_t,), _trig(math.sin))
    reg('COS/' + _t, 'COS', (_t,), _trig(math.cos))
    reg('TAN/' + _t, 'TAN', (_t,), _trig(math.tan))
    reg('ASIN/' + _t, 'ASIN', (_t,), _inv(math.asin))
    reg('ACOS/' + _t, 'ACOS', (_t,), _inv(math.acos))
    reg('ATAN/' + _t, 'ATAN', (_t,), lambda x: math.atan(float(x)))
    reg('SINH/' + _t, 'SINH', (_t,), _hyp(math.sinh))
    reg('COSH/' + _t, 'COSH', (_t,), _hyp(math.cosh))
    reg('TANH/' + _t, 'TANH', (_t,), lambda x: math.tanh(float(x)))
    reg('DEGREES/' + _t, 'DEGREES', (_t,), lambda x: float(x) * 180.0 / math.pi if not isinf(float(x) * 180.0) else float(x) * (180.0 / math.pi))
    reg('RADIANS/' + _t, 'RADIANS', (_t,), lambda x: float(x) / 180.0 * math.pi)
reg('ATAN2/dbl,dbl', 'ATAN2', ('dbl', 'dbl'), lambda y, x: math.atan2(y, x))
reg('ATAN2/int,int', 'ATAN2', ('int', 'int'), lambda y, x: math.atan2(float(y), float(x)))
reg('PI', 'PI', (), lambda: math.pi)
reg('E', 'E', (), lambda: math.e)
reg('INFINITY', 'INFINITY', (), lambda: INF)
reg('NAN', 'NAN', (), lambda: NAN)
reg('IS_NAN', 'IS_NAN', ('dbl',), lambda x: x != x)
reg('IS_FINITE', 'IS_FINITE', ('dbl',), lambda x: not (isnan(x) or isinf(x)))
reg('IS_INFINITE', 'IS_INFINITE', ('dbl',), lambda x: isinf(x))

_DIG = '0123456789abcdefghijklmnopqrstuvwxyz'


def _to_base(x, radix):
    if not (2 <= radix <= 36):
        raise DomainError('radix must be between 2 and 36')
    if x == 0:
        return '0'
    n, out = abs(x), []
    while n:
        n, r = divmod(n, radix)
        out.append(_DIG[r])
    return ('-' if x < 0 else '') + ''.join(reversed(out))


def _from_base(s, radix):
    if not (2 <= radix <= 36):
        raise DomainError('radix must be between 2 and 36')
    body = s[1:] if s[:1] in ('-',) else s
    if s[:1] == '+':
        raise Unspecified('leading + sign')
    if body == '':
        raise DomainError('not a valid number')
    v = 0
    for ch in body.lower():
        k = _DIG.find(ch)
        if k < 0 or k >= radix:
            raise DomainError('not a valid base-%d number' % radix)
        v = v * radix + k
    return i64(-v if s[:1] == '-' else v)


RADIX = Dom('int', [2, 10, 16, 36, 1, 37, 0, -2], 'radix')
reg('TO_BASE', 'TO_BASE', ('int', RADIX), _to_base)
reg('FROM_BASE', 'FROM_BASE', (Dom('str', ['0', 'ff', 'FF', '-10', 'z', '', '12', '102', '9223372036854775808', ' 1', 'é'], 'numeral'), RADIX), _from_base)


def _width_bucket(x, b1, b2, n):
    if isnan(x) or isnan(b1) or isnan(b2) or isinf(b1) or isinf(b2) or b1 == b2 or n <= 0:
        raise DomainError('invalid width_bucket operand')
    if b1 < b2:
        if x < b1:
            return 0
        if x >= b2:
            return i64(n + 1)
        return int(math.floor(n * (x - b1) / (b2 - b1))) + 1
    # descending bounds: the SQL-standard reading (PostgreSQL) and Trino's mirror-image computation agree except exactly on bucket edges
    if x > b1:
        return 0
    if x < b2:
        return i64(n + 1)
    pos = n * (b1 - x) / (b1 - b2)
    if x == b1 or x == b2 or pos == math.floor(pos):
        raise Unspecified('operand on a bucket edge of a descending histogram')
    return int(math.floor(pos)) + 1


reg('WIDTH_BUCKET', 'WIDTH_BUCKET', (Dom('dbl', [-1.5, -0.0, 0.0, 0.5, 2.0, 5.5, 10.0, 1e308, NAN, INF], 'operand'), Dom('dbl', [0.0, 10.0], 'bound'),
                                      Dom('dbl', [10.0, 0.0], 'bound'), Dom('int', [5, 1, 0, -1], 'buckets')), _width_bucket)


def _normal_cdf(mean, sd, v):
    if isnan(mean) or isnan(sd) or isnan(v) or isinf(mean) or isinf(sd):
        raise Unspecified('non-finite parameter')
    if sd <= 0:
        raise DomainError('standardDeviation must be > 0')
    if isinf(v):
        return 1.0 if v > 0 else 0.0
    return 0.5 * (1.0 + math.erf((v - mean) / (sd * math.sqrt(2.0))))


reg('NORMAL_CDF', 'NORMAL_CDF', (Dom('dbl', [0.0, 2.0, -1.5], 'mean'), Dom('dbl', [1.0, 0.5, 0.0, -1.5], 'sd'), 'dbl'), _normal_cdf)

# ----------------------------------------------------------------------------------------------------------------------------
# strings (positions and lengths are in characters = code points)
# ----------------------------------------------------------------------------------------------------------------------------

def _cp_upper(s):
    return ''.join(c.upper() if len(c.upper()) == 1 else c for c in s)


def _cp_lower(s):
    return ''.join(c.lower() if len(c.lower()) == 1 else c for c in s)


reg('UPPER', 'UPPER', ('str',), _cp_upper)
reg('LOWER', 'LOWER', ('str',), _cp_lower)
_WS = ' \t\n\r\x0b\x0c'
reg('TRIM', 'TRIM', ('str',), lambda s: s.strip(_WS))
reg('LTRIM', 'LTRIM', ('str',), lambda s: s.lstrip(_WS))
reg('RTRIM', 'RTRIM', ('str',), lambda s: s.rstrip(_WS))
for _n in ('LENGTH', 'CHAR_LENGTH', 'CHARACTER_LENGTH'):
    reg(_n, _n, ('str',), lambda s: len(s), note='' if _n == 'LENGTH' else 'SQL-standard alias of LENGTH (characters)')


def _substr2(s, start):
    n = len(s)
    if start == 0:
        return ''
    if start > 0:
        return s[start - 1:] if start <= n else ''
    if -start > n:
        return ''
    return s[n + start:]


def _substr3(s, start, length):
    if start == 0 or length <= 0:
        return ''
    n = len(s)
    if start > 0:
        if start > n:
            return ''
        return s[start - 1:start - 1 + length]
    if -start > n:
        return ''
    b = n + start
    return s[b:b + length]


POS = Dom('int', [-5, -2, -1, 0, 1, 2, 3, 5, 9223372036854775807, -9223372036854775807], 'position')
LEN = Dom('int', [-1, 0, 1, 2, 5, 9223372036854775807], 'length')
for _n in ('SUBSTR', 'SUBSTRING'):
    reg(_n + '/2', _n, ('str', POS), _substr2)
    reg(_n + '/3', _n, ('str', POS, LEN), _substr3)
reg('SUBSTRING/from', 'SUBSTRING', ('str', POS), _substr2, sql='SUBSTRING({0} FROM {1})')
reg('SUBSTRING/from-for', 'SUBSTRING', ('str', POS, LEN), _substr3, sql='SUBSTRING({0} FROM {1} FOR {2})')

reg('CONCAT/2', 'CONCAT', ('str', 'str'), lambda a, b: a + b)
reg('CONCAT/3', 'CONCAT', ('str', 'str', 'str'), lambda a, b, c: a + b + c)


def _replace(s, search, repl=''):
    if search == '':
        return repl + ''.join(c + repl for c in s)      # documented: inserted in front of every character and at the end
    return s.replace(search, repl)


SEARCH = Dom('str', ['', 'a', 'b', ' ', 'é', '本', 'a,b', 'Ab c', '%'], 'search')
REPL = Dom('str', ['', 'X', 'aa', 'é'], 'replacement')
reg('REPLACE/2', 'REPLACE', ('str', SEARCH), lambda s, a: _replace(s, a))
reg('REPLACE/3', 'REPLACE', ('str', SEARCH, REPL), _replace)


def _strpos(s, sub):
    return s.find(sub) + 1


reg('STRPOS', 'STRPOS', ('str', SEARCH), _strpos)
reg('POSITION', 'POSITION', (SEARCH, 'str'), lambda sub, s: _strpos(s, sub), sql='POSITION({0} IN {1})', colarg=1)


def _strpos3(s, sub, inst):
    if inst == 0:
        raise DomainError('instance must not be 0')
    if sub == '':
        raise Unspecified('empty substring with an instance')
    if inst > 0:
        i = -1
        for _ in range(inst):
            i = s.find(sub, i + 1)
            if i < 0:
                return 0
        return i + 1
    i = len(s) + 1
    for _ in range(-inst):
        i = s.rfind(sub, 0, i - 1 + len(sub)) if i - 1 + len(sub) >= 0 else -1
        if i < 0:
            return 0
    return i + 1


reg('STRPOS/3', 'STRPOS', (Dom('str', ['', 'a', 'abcabc', 'é b é', 'a,b'], 'text'), Dom('str', ['a', 'b', 'é', 'bc', 'x'], 'search'), Dom('int', [-2, -1, 0, 1, 2, 3], 'instance')), _strpos3)
reg('REVERSE', 'REVERSE', ('str',), lambda s: s[::-1])


def _lpad(s, size, pad):
    if size < 0 or size > 2147483647:
        raise DomainError('size must be in [0, 2147483647]')
    if pad == '':
        raise DomainError('padstring must not be empty')
    n = len(s)
    if size <= n:
        return s[:size]
    k = size - n
    return (pad * (k // len(pad) + 1))[:k] + s


def _rpad(s, size, pad):
    if size < 0 or size > 2147483647:
        raise DomainError('size must be in [0, 2147483647]')
    if pad == '':
        raise DomainError('padstring must not be empty')
    n = len(s)
    if size <= n:
        return s[:size]
    k = size - n
    return s + (pad * (k // len(pad) + 1))[:k]


PAD = Dom('str', ['', '*', 'xy', 'é', '日本'], 'padstring')
reg('LPAD', 'LPAD', ('str', 'small', PAD), _lpad)
reg('RPAD', 'RPAD', ('str', 'small', PAD), _rpad)


def _split_part(s, delim, idx):
    if idx <= 0:
        raise DomainError('index must be greater than zero')
    if delim == '':
        raise Unspecified('empty delimiter')
    parts = s.split(delim)
    return parts[idx - 1] if idx <= len(parts) else None


DELIM = Dom('str', [',', ' ', 'b', 'é', 'a,b', '', '%_'], 'delimiter')
reg('SPLIT_PART', 'SPLIT_PART', ('str', DELIM, Dom('int', [-1, 0, 1, 2, 3, 5], 'index')), _split_part)
reg('STARTS_WITH', 'STARTS_WITH', ('str', 'str'), lambda s, p: s.startswith(p))
reg('ENDS_WITH', 'ENDS_WITH', ('str', 'str'), lambda s, p: s.endswith(p), note='ends_with(string, substring) as in current Trino')


def _chr(n):
    if n < 0 or n > 0x10FFFF or 0xD800 <= n <= 0xDFFF:
        raise DomainError('not a valid Unicode code point')
    if n == 0:
        raise Unspecified('NUL character')
    return chr(n)


def _codepoint(s):
    if len(s) != 1:
        raise DomainError('codepoint() takes a single character (varchar(1))')
    return ord(s)


def _ascii(s):
    if len(s) == 1 and ord(s) < 128:
        return ord(s)
    raise Unspecified('ascii() is not a Trino function; only single ASCII characters are uncontroversial')


reg('CHR', 'CHR', (Dom('int', [65, 97, 233, 26085, 128512, 32, 0, -1, 1114112, 55296], 'codepoint'),), _chr)
reg('CODEPOINT', 'CODEPOINT', ('str',), _codepoint)
reg('ASCII', 'ASCII', ('str',), _ascii, note='not a Trino function; judged only on single ASCII characters and NULL')


def _concat_ws(sep, *xs):
    if sep is None:
        return None
    return sep.join(x for x in xs if x is not None)


SEP = Dom('str', [',', '', 'é', ' - '], 'separator')
reg('CONCAT_WS/2', 'CONCAT_WS', (SEP, 'str', 'str'), _concat_ws, null='custom')
reg('CONCAT_WS/1', 'CONCAT_WS', (SEP, 'str'), _concat_ws, null='custom')


def _left(s, n):
    if n < 0:
        raise Unspecified('negative count (PostgreSQL and Spark disagree)')
    return s[:n]


def _right(s, n):
    if n < 0:
        raise Unspecified('negative count (PostgreSQL and Spark disagree)')
    return s[len(s) - n:] if n < len(s) else s


def _repeat(s, n):
    if n < 0:
        raise Unspecified('negative count')
    return s * n


reg('LEFT', 'LEFT', ('str', 'small'), _left, note='not a Trino function; first n characters (n >= 0), common to PostgreSQL/MySQL/Spark')
reg('RIGHT', 'RIGHT', ('str', 'small'), _right, note='not a Trino function; last n characters (n >= 0), common to PostgreSQL/MySQL/Spark')
reg('REPEAT', 'REPEAT', ('str', 'small'), _repeat, note="Trino's repeat() builds an array; the engine implements the PostgreSQL/MySQL string repeat, judged for n >= 0")


def _translate(src, frm, to):
    m = {}
    for i, c in enumerate(frm):
        if c not in m:
            m[c] = to[i] if i < len(to) else None
    out = []
    for c in src:
        if c in m:
            if m[c] is not None:
                out.append(m[c])
        else:
            out.append(c)
    return ''.join(out)


reg('TRANSLATE', 'TRANSLATE', ('str', Dom('str', ['', 'a', 'ab', 'aa', 'é', 'b 本', '%_,'], 'from'), Dom('str', ['', 'X', 'éY', 'xyz'], 'to')), _translate)


def _hamming(a, b):
    if len(a) != len(b):
        raise DomainError('the input strings must have the same length')
    return sum(1 for x, y in zip(a, b) if x != y)


def _levenshtein(a, b):
    prev = list(range(len(b) + 1))
    for i, x in enumerate(a, 1):
        cur = [i]
        for j, y in enumerate(b, 1):
            cur.append(min(prev[j] + 1, cur[j - 1] + 1, prev[j - 1] + (x != y)))
        prev = cur
    return prev[-1]


reg('HAMMING_DISTANCE', 'HAMMING_DISTANCE', ('str', 'str'), _hamming)
reg('LEVENSHTEIN_DISTANCE', 'LEVENSHTEIN_DISTANCE', ('str', 'str'), _levenshtein)

_SDX = {}
for _cs, _d in (('BFPV', '1'), ('CGJKQSXZ', '2'), ('DT', '3'), ('L', '4'), ('MN', '5'), ('R', '6')):
    for _c in _cs:
        _SDX[_c] = _d


def _soundex(s):
    """American Soundex (the algorithm Trino documents: first letter + 3 digits; H and W do not separate equal codes, vowels do)"""
    if not s or not all('A' <= c <= 'Z' or 'a' <= c <= 'z' for c in s):
        raise Unspecified('only non-empty ASCII-letter words')
    u = s.upper()
    out = u[0]
    last = _SDX.get(u[0], '')
    for c in u[1:]:
        if c in 'HW':
            continue
        d = _SDX.get(c, '')
        if d and d != last:
            out += d
        last = d
    return (out + '000')[:4]


reg('SOUNDEX', 'SOUNDEX', (Dom('str', ['Robert', 'Rupert', 'Rubin', 'Ashcraft', 'Ashcroft', 'Tymczak', 'Pfister', 'Honeyman', 'a', 'A', 'Lee', 'Jackson', 'ab c', 'é'], 'word'),), _soundex)


def _luhn(s):
    if s == '' or not all('0' <= c <= '9' for c in s):
        raise Unspecified('non-digit input')
    tot = 0
    for i, c in enumerate(reversed(s)):
        d = ord(c) - 48
        if i % 2 == 1:
            d *= 2
            if d > 9:
                d -= 9
        tot += d
    return tot % 10 == 0


reg('LUHN_CHECK', 'LUHN_CHECK', (Dom('str', ['79927398713', '79927398710', '0', '18', '4111111111111111', '4111111111111112', '00', '59', 'abc', ''], 'digits'),), _luhn)
reg('NORMALIZE', 'NORMALIZE', (Dom('str', ['', 'a', 'é', 'e\u0301', '日本', '\ufb01', 'A\u030a'], 'text'),), lambda s: unicodedata.normalize('NFC', s))


def _split(s, delim, limit=None):
    if delim == '':
        raise DomainError('the delimiter may not be the empty string')
    if limit is not None:
        if limit <= 0:
            raise DomainError('limit must be positive')
        return s.split(delim, limit - 1)
    return s.split(delim)


reg('SPLIT/2', 'SPLIT', ('str', DELIM), _split)
reg('SPLIT/3', 'SPLIT', ('str', DELIM, Dom('int', [0, 1, 2, 5], 'limit')), _split)
reg('TO_UTF8', 'TO_UTF8', ('str',), lambda s: s.encode('utf-8'))
reg('FROM_UTF8', 'FROM_UTF8', ('str',), lambda s: s, sql='FROM_UTF8(TO_UTF8({0}))')
reg('FROM_UTF8/hex', 'FROM_UTF8', (Dom('str', ['61', 'C3A9', 'E697A5', '61FF62', 'C3', ''], 'hex bytes'),), lambda h: bytes.fromhex(h).decode('utf-8', errors='replace') if h not in ('61FF62', 'C3') else
    {'61FF62': 'a\ufffdb', 'C3': '\ufffd'}[h], sql='FROM_UTF8(FROM_HEX({0}))')

# ----------------------------------------------------------------------------------------------------------------------------
# conditional
# ----------------------------------------------------------------------------------------------------------------------------

def _coalesce(*xs):
    for x in xs:
        if x is not None:
            return x
    return None


def _nullif(a, b):
    if a is None:
        return None
    if b is None:
        return a
    if isnan(a) or isnan(b):
        raise Unspecified('NaN comparison')
    return None if a == b else a


def _if3(c, a, b):
    return a if c is True else b


def _if2(c, a):
    return a if c is True else None


def _extreme(pick):
    def g(*xs):
        if any(x is None for x in xs):
            return None
        if any(isnan(x) for x in xs):
            raise Unspecified('NaN in greatest/least')
        r = xs[0]
        for x in xs[1:]:
            if pick(x, r):
                r = x
        return r
    return g


for _t in ('int', 'dbl', 'str', 'date'):
    reg('COALESCE/%s,%s' % (_t, _t), 'COALESCE', (_t, _t), _coalesce, null='custom')
    reg('NULLIF/' + _t, 'NULLIF', (_t, _t), _nullif, null='custom')
    reg('IF/3/' + _t, 'IF', ('bool', _t, _t), _if3, null='custom', colarg=1)
    reg('IF/2/' + _t, 'IF', ('bool', _t), _if2, null='custom', colarg=1)
    reg('GREATEST/2/' + _t, 'GREATEST', (_t, _t), _extreme(lambda x, r: x > r), null='custom')
    reg('LEAST/2/' + _t, 'LEAST', (_t, _t), _extreme(lambda x, r: x < r), null='custom')
reg('COALESCE/str,str,str', 'COALESCE', ('str', 'str', 'str'), _coalesce, null='custom')
reg('COALESCE/int,int,int', 'COALESCE', ('int', 'int', 'int'), _coalesce, null='custom')
reg('GREATEST/3/int', 'GREATEST', ('int', 'int', 'int'), _extreme(lambda x, r: x > r), null='custom')
reg('LEAST/3/int', 'LEAST', ('int', 'int', 'int'), _extreme(lambda x, r: x < r), null='custom')
reg('IF/3/cmp', 'IF', ('int', 'str', 'str'), lambda i, a, b: a if (i is not None and i > 0) else b, null='custom', sql='IF({0} > 0, {1}, {2})')

# ----------------------------------------------------------------------------------------------------------------------------
# regular expressions (Java syntax; the patterns enumerated use only constructs whose meaning is identical in Python's re)
# ----------------------------------------------------------------------------------------------------------------------------

def _rx(p):
    try:
        return re.compile(p)
    except re.error:
        raise DomainError('invalid regular expression')


def _expand(m, repl):
    """Java replacement syntax: $g = group g, \\x = literal x"""
    out, i = [], 0
    while i < len(repl):
        c = repl[i]
        if c == '\\':
            if i + 1 >= len(repl):
                raise DomainError('dangling backslash')
            out.append(repl[i + 1])
            i += 2
        elif c == '$':
            j = i + 1
            if j < len(repl) and repl[j] == '{':
                raise Unspecified('named group')
            if j >= len(repl) or not repl[j].isdigit():
                raise DomainError('illegal group reference')
            g = int(repl[j])
            j += 1
            if g > m.re.groups:
                raise DomainError('no group %d' % g)
            while j < len(repl) and repl[j].isdigit() and g * 10 + int(repl[j]) <= m.re.groups:
                g = g * 10 + int(repl[j])
                j += 1
            out.append(m.group(g) or '')
            i = j
        else:
            out.append(c)
            i += 1
    return ''.join(out)


def _regexp_replace(s, p, repl=''):
    rx = _rx(p)
    out, pos = [], 0
    for m in rx.finditer(s):
        out.append(s[pos:m.start()])
        out.append(_expand(m, repl))
        pos = m.end()
    if pos == 0 and not out:
        # no match: the replacement is still validated lazily in Java (only when a match is found) -> value is s
        return s
    out.append(s[pos:])
    return ''.join(out)


def _regexp_extract(s, p, g=0):
    rx = _rx(p)
    if g < 0 or g > rx.groups:
        raise DomainError('pattern has %d groups, cannot access group %d' % (rx.groups, g))
    m = rx.search(s)
    return m.group(g) if m else None


def _regexp_extract_all(s, p, g=0):
    rx = _rx(p)
    if g < 0 or g > rx.groups:
        raise DomainError('no such group')
    return [m.group(g) for m in rx.finditer(s)]


def _regexp_position(s, p, start=1):
    rx = _rx(p)
    if start < 1:
        raise DomainError('start position cannot be smaller than 1')
    if start > len(s):
        if start == 1:
            pass
        else:
            raise Unspecified('start beyond the end of the string')
    if start > 1 and p.startswith('^'):
        raise Unspecified('anchor with a start offset')
    m = rx.search(s, start - 1)
    return m.start() + 1 if m else -1


def _regexp_split(s, p):
    rx = _rx(p)
    out, pos = [], 0
    for m in rx.finditer(s):
        if m.end() == m.start():
            raise Unspecified('empty match')
        out.append(s[pos:m.start()])
        pos = m.end()
    out.append(s[pos:])
    return out


PATG = Dom('pat', ['a', '^a.*', '(', '[b-', 'b|c', '(.)b', ''], 'pattern')
reg('REGEXP_LIKE', 'REGEXP_LIKE', ('str', 'pat'), lambda s, p: _rx(p).search(s) is not None)
reg('REGEXP_EXTRACT/2', 'REGEXP_EXTRACT', ('str', 'pat'), _regexp_extract)
reg('REGEXP_EXTRACT/3', 'REGEXP_EXTRACT', ('str', PATG, Dom('int', [-1, 0, 1, 2], 'group')), _regexp_extract)
reg('REGEXP_EXTRACT_ALL/2', 'REGEXP_EXTRACT_ALL', ('str', 'pat'), _regexp_extract_all)
reg('REGEXP_REPLACE/2', 'REGEXP_REPLACE', ('str', 'pat'), _regexp_replace)
reg('REGEXP_REPLACE/3', 'REGEXP_REPLACE', ('str', PATG, Dom('str', ['', 'X', '[$0]', '[$1]', '\\$', '$'], 'replacement')), _regexp_replace)
reg('REGEXP_COUNT', 'REGEXP_COUNT', ('str', 'pat'), lambda s, p: sum(1 for _ in _rx(p).finditer(s)))
reg('REGEXP_POSITION/2', 'REGEXP_POSITION', ('str', 'pat'), _regexp_position)
reg('REGEXP_POSITION/3', 'REGEXP_POSITION', ('str', 'pat', Dom('int', [-1, 0, 1, 2, 3, 5], 'start')), _regexp_position)
reg('REGEXP_SPLIT', 'REGEXP_SPLIT', ('str', 'pat'), _regexp_split)

# ----------------------------------------------------------------------------------------------------------------------------
# binary / encoding / hashing.  Engine convention: a VARCHAR argument stands for its UTF-8 bytes.
# ----------------------------------------------------------------------------------------------------------------------------
BYTES = Dom('str', ['', 'a', 'Ab c', 'é', '日本', '>>>', '???', 'hello', 'ab', ' x '], 'bytes-as-text')


def _u8(s):
    return s.encode('utf-8')


reg('TO_HEX', 'TO_HEX', (BYTES,), lambda s: _u8(s).hex().upper(), sql='TO_HEX(TO_UTF8({0}))')


def _from_hex(h):
    if len(h) % 2 or not all(c in '0123456789abcdefABCDEF' for c in h):
        raise DomainError('invalid hexadecimal string')
    return bytes.fromhex(h)


reg('FROM_HEX', 'FROM_HEX', (Dom('str', ['', '00', '4142', 'c3a9', 'C3A9', 'fF', 'abc', 'zz', '4 1', 'é'], 'hex'),), _from_hex)
reg('TO_BASE64', 'TO_BASE64', (BYTES,), lambda s: base64.b64encode(_u8(s)).decode())
reg('TO_BASE64/utf8', 'TO_BASE64', (BYTES,), lambda s: base64.b64encode(_u8(s)).decode(), sql='TO_BASE64(TO_UTF8({0}))')
reg('TO_BASE64URL', 'TO_BASE64URL', (BYTES,), lambda s: base64.urlsafe_b64encode(_u8(s)).decode())
reg('TO_BASE32', 'TO_BASE32', (BYTES,), lambda s: base64.b32encode(_u8(s)).decode())


def _b64dec(alt):
    def g(s):
        abc = 'ABCDEFGHIJKLMNOPQRSTUVWXYZabcdefghijklmnopqrstuvwxyz0123456789' + alt
        body = s.rstrip('=')
        if not all(c in abc for c in body) or len(s) - len(body) > 2:
            raise DomainError('illegal base64 character')
        if len(s) % 4 != 0:
            if '=' in s or len(body) % 4 == 1:
                raise DomainError('invalid base64 length')
            raise Unspecified('unpadded base64')
        try:
            return base64.b64decode(s.encode(), altchars=alt.encode(), validate=True)
        except (binascii.Error, ValueError):
            raise DomainError('invalid base64')
    return g


B64 = Dom('str', ['', 'YQ==', 'QWIgYw==', 'w6k=', '5pel5pys', 'Pj4+', 'Pz8/', 'Pj4-', 'Pz8_', 'YQ', 'Y', '!!!!', 'YQ=='[:3]], 'base64')
reg('FROM_BASE64', 'FROM_BASE64', (B64,), _b64dec('+/'))
reg('FROM_BASE64URL', 'FROM_BASE64URL', (B64,), _b64dec('-_'))


def _b32dec(s):
    try:
        if len(s) % 8:
            raise Unspecified('unpadded base32')
        return base64.b32decode(s.encode())
    except (binascii.Error, ValueError):
        raise DomainError('invalid base32')


reg('FROM_BASE32', 'FROM_BASE32', (Dom('str', ['', 'ME======', 'NBSWY3DP', 'me======', '1=======', 'ME'], 'base32'),), _b32dec)
for _n, _h in (('MD5', hashlib.md5), ('SHA1', hashlib.sha1), ('SHA256', hashlib.sha256), ('SHA512', hashlib.sha512)):
    reg(_n, _n, (BYTES,), (lambda h: lambda s: h(_u8(s)).digest())(_h), binary_as_hex=True)
reg('CRC32', 'CRC32', (BYTES,), lambda s: zlib.crc32(_u8(s)) & 0xFFFFFFFF)
KEYS = Dom('str', ['', 'key', 'é', 'k' * 70, 'K' * 130], 'key')
for _n, _h in (('HMAC_MD5', 'md5'), ('HMAC_SHA1', 'sha1'), ('HMAC_SHA256', 'sha256'), ('HMAC_SHA512', 'sha512')):
    reg(_n, _n, (BYTES, KEYS), (lambda h: lambda data, key: _hmac.new(_u8(key), _u8(data), h).digest())(_h), binary_as_hex=True)


def _xxh64(data, seed=0):
    P1, P2, P3, P4, P5 = 11400714785074694791, 14029467366897019727, 1609587929392839161, 9650029242287828579, 2870177450012600261
    M = (1 << 64) - 1

    def rotl(x, r):
        return ((x << r) | (x >> (64 - r))) & M

    def rnd(acc, inp):
        acc = (acc + inp * P2) & M
        return (rotl(acc, 31) * P1) & M

    def merge(acc, val):
        acc ^= rnd(0, val)
        return (acc * P1 + P4) & M
    n, p = len(data), 0
    if n >= 32:
        v1, v2, v3, v4 = (seed + P1 + P2) & M, (seed + P2) & M, seed & M, (seed - P1) & M
        while p + 32 <= n:
            a, b, c, d = struct.unpack_from('<QQQQ', data, p)
            v1, v2, v3, v4 = rnd(v1, a), rnd(v2, b), rnd(v3, c), rnd(v4, d)
            p += 32
        h = (rotl(v1, 1) + rotl(v2, 7) + rotl(v3, 12) + rotl(v4, 18)) & M
        for v in (v1, v2, v3, v4):
            h = merge(h, v)
    else:
        h = (seed + P5) & M
    h = (h + n) & M
    while p + 8 <= n:
        k = rnd(0, struct.unpack_from('<Q', data, p)[0])
        h = ((rotl(h ^ k, 27) * P1) + P4) & M
        p += 8
    if p + 4 <= n:
        h = ((rotl(h ^ (struct.unpack_from('<I', data, p)[0] * P1 & M), 23) * P2) + P3) & M
        p += 4
    while p < n:
        h = (rotl(h ^ (data[p] * P5 & M), 11) * P1) & M
        p += 1
    h ^= h >> 33
    h = (h * P2) & M
    h ^= h >> 29
    h = (h * P3) & M
    h ^= h >> 32
    return h


assert _xxh64(b'') == 0xEF46DB3751D8E999 and _xxh64(b'a') == 0xD24EC4F1A98C6E5B and _xxh64(b'abc') == 0x44BC2CF5AD770999
assert _xxh64(b'Nobody inspects the spammish repetition') == 0xFBCEA83C8A378BF1
reg('XXHASH64', 'XXHASH64', (Dom('str', ['', 'a', 'abc', 'hello', 'é', 'Nobody inspects the spammish repetition', '0123456789abcdef0123456789abcdef', ' x '], 'bytes-as-text'),),
    lambda s: struct.pack('>Q', _xxh64(_u8(s))), binary_as_hex=True)
reg('TO_BIG_ENDIAN_64', 'TO_BIG_ENDIAN_64', ('int',), lambda x: struct.pack('>q', x))
reg('FROM_BIG_ENDIAN_64', 'FROM_BIG_ENDIAN_64', ('int',), lambda x: x, sql='FROM_BIG_ENDIAN_64(TO_BIG_ENDIAN_64({0}))')
I32 = Dom('int', [-2, -1, 0, 1, 2, 7, 2147483647, -2147483648], 'integer')
reg('TO_BIG_ENDIAN_32', 'TO_BIG_ENDIAN_32', (I32,), lambda x: struct.pack('>i', x), sql='TO_BIG_ENDIAN_32(CAST({0} AS INTEGER))')
reg('FROM_BIG_ENDIAN_32', 'FROM_BIG_ENDIAN_32', (I32,), lambda x: x, sql='FROM_BIG_ENDIAN_32(TO_BIG_ENDIAN_32(CAST({0} AS INTEGER)))')
reg('TO_IEEE754_64', 'TO_IEEE754_64', (Dom('dbl', [-1.5, -0.0, 0.0, 0.5, 2.0, 1e308, INF], 'double'),), lambda x: struct.pack('>d', x))
reg('FROM_IEEE754_64', 'FROM_IEEE754_64', ('dbl',), lambda x: x, sql='FROM_IEEE754_64(TO_IEEE754_64({0}))')
reg('TO_IEEE754_32', 'TO_IEEE754_32', (Dom('dbl', [-1.5, -0.0, 0.0, 0.5, 2.0, INF], 'real'),), lambda x: struct.pack('>f', x), sql='TO_IEEE754_32(CAST({0} AS REAL))')

# ----------------------------------------------------------------------------------------------------------------------------
# bitwise (BIGINT, two's complement)
# ----------------------------------------------------------------------------------------------------------------------------

def _s64(x):
    x &= (1 << 64) - 1
    return x - (1 << 64) if x >> 63 else x


def _bit_count(x, bits=64):
    if not (2 <= bits <= 64):
        raise DomainError('bits must be between 2 and 64')
    if bits < 64 and not (-(1 << (bits - 1)) <= x < (1 << (bits - 1))):
        raise DomainError('number must be representable with the bits specified')
    return bin(x & ((1 << bits) - 1)).count('1')


def _shl(v, s):
    if s < 0:
        raise Unspecified('negative shift')
    return 0 if s >= 64 else _s64(v << s)


def _shr(v, s):
    if s < 0:
        raise Unspecified('negative shift')
    return 0 if s >= 64 else _s64((v & ((1 << 64) - 1)) >> s)


def _sar(v, s):
    if s < 0:
        raise Unspecified('negative shift')
    return (-1 if v < 0 else 0) if s >= 64 else v >> s


SHIFT = Dom('int', [-1, 0, 1, 2, 5, 63, 64, 65], 'shift')
for _a, _b in (('BITWISE_AND', 'BIT_AND'), ('BITWISE_OR', 'BIT_OR'), ('BITWISE_XOR', 'BIT_XOR')):
    _f = {'BITWISE_AND': lambda a, b: a & b, 'BITWISE_OR': lambda a, b: a | b, 'BITWISE_XOR': lambda a, b: a ^ b}[_a]
    reg(_a, _a, ('int', 'int'), _f)
    reg(_b, _b, ('int', 'int'), _f, note='engine alias of ' + _a)
reg('BITWISE_NOT', 'BITWISE_NOT', ('int',), lambda a: ~a)
reg('BIT_NOT', 'BIT_NOT', ('int',), lambda a: ~a, note='engine alias of BITWISE_NOT')
reg('BIT_COUNT/2', 'BIT_COUNT', ('int', Dom('int', [64, 32, 8, 2, 1, 65, 0], 'bits')), _bit_count)
reg('BIT_COUNT/1', 'BIT_COUNT', ('int',), _bit_count, note="Trino requires the bits argument; one argument is judged as bits = 64")
reg('BITWISE_LEFT_SHIFT', 'BITWISE_LEFT_SHIFT', ('int', SHIFT), _shl)
reg('BITWISE_RIGHT_SHIFT', 'BITWISE_RIGHT_SHIFT', ('int', SHIFT), _shr)
reg('BITWISE_RIGHT_SHIFT_ARITHMETIC', 'BITWISE_RIGHT_SHIFT_ARITHMETIC', ('int', SHIFT), _sar)

# ----------------------------------------------------------------------------------------------------------------------------
# URL
# ----------------------------------------------------------------------------------------------------------------------------
URLS = Dom('str', ['https://example.com:8080/a/b%20c?x=1&y=2&x=3#frag', 'http://example.com', 'http://example.com/', 'ftp://user@host.example:21/f.txt?q', 'https://example.com:443/x', 'http://example.com:80/', 'http://example.com:8080',
                   'https://EXAMPLE.com/p?k=v%26w&e=&flag#', 'http://例え.jp/日本?q=é', 'example.com/path', 'not a url', ''], 'url')
_URL_RX = re.compile(r'^([A-Za-z][A-Za-z0-9+.\-]*)://(?:([^/?#@]*)@)?([^/?#:@]*)(?::(\d*))?([^?#]*)(?:\?([^#]*))?(?:#(.*))?$')


def _url(u, part):
    m = _URL_RX.match(u)
    if not m or not u.isascii():
        raise Unspecified('only well-formed absolute ASCII URLs are judged')
    scheme, user, host, port, path, query, frag = m.groups()
    if part == 'protocol':
        return scheme
    if part == 'host':
        if host != host.lower():
            raise Unspecified('case of the host')
        return host
    if part == 'port':
        return int(port) if port else None
    if part == 'path':
        if '%' in path or path == '':
            raise Unspecified('escaped or empty path')
        return path
    if part == 'query':
        if query is None:
            raise Unspecified('missing component')
        return query
    if part == 'fragment':
        if frag is None:
            raise Unspecified('missing component')
        return frag


for _p in ('protocol', 'host', 'port', 'path', 'query', 'fragment'):
    reg('URL_EXTRACT_' + _p.upper(), 'URL_EXTRACT_' + _p.upper(), (URLS,), (lambda p: lambda u: _url(u, p))(_p))


def _url_param(u, name):
    m = _URL_RX.match(u)
    if not m or not u.isascii():
        raise Unspecified('only well-formed absolute ASCII URLs are judged')
    q = m.group(6)
    if q is None or q == '':
        return None
    for kv in q.split('&'):
        k, eq, v = kv.partition('=')
        if '%' in k or '+' in k or '%' in v or '+' in v:
            if k == name or '%' in k:
                raise Unspecified('escaped parameter')
            continue
        if k == name:
            if not eq:
                raise Unspecified('parameter without a value')
            return v
    return None


reg('URL_EXTRACT_PARAMETER', 'URL_EXTRACT_PARAMETER', (URLS, Dom('str', ['x', 'y', 'k', 'e', 'q', 'nope', ''], 'name')), _url_param)


def _url_encode(s):
    out = []
    for b in s.encode('utf-8'):
        c = chr(b)
        if c.isascii() and (c.isalnum() or c in '.-*_'):
            out.append(c)
        elif c == ' ':
            out.append('+')
        else:
            out.append('%%%02X' % b)
    return ''.join(out)


def _url_decode(s):
    out, i = bytearray(), 0
    while i < len(s):
        c = s[i]
        if c == '%':
            h = s[i + 1:i + 3]
            if len(h) != 2 or not all(x in '0123456789abcdefABCDEF' for x in h):
                raise DomainError('illegal escape')
            out.append(int(h, 16))
            i += 3
        elif c == '+':
            out.append(32)
            i += 1
        else:
            out += c.encode('utf-8')
            i += 1
    try:
        return out.decode('utf-8')
    except UnicodeDecodeError:
        raise Unspecified('escapes that are not UTF-8')


reg('URL_ENCODE', 'URL_ENCODE', (Dom('str', ['', 'a', 'Ab c', 'é', '日本', 'a,b', '%_', ' x ', 'a+b=c&d', '.-*_~', '/?#'], 'text'),), _url_encode)
reg('URL_DECODE', 'URL_DECODE', (Dom('str', ['', 'a', 'Ab+c', 'Ab%20c', '%C3%A9', '%c3%a9', '%E6%97%A5', 'a%2Cb', '%', '%2', '%zz', 'é', '100%25'], 'escaped'),), _url_decode)

# ----------------------------------------------------------------------------------------------------------------------------
# date / time (DATE = datetime.date, TIMESTAMP without zone = datetime.datetime)
# ----------------------------------------------------------------------------------------------------------------------------
D, DT, TD = datetime.date, datetime.datetime, datetime.timedelta


def _date_of(x):
    return x.date() if isinstance(x, DT) else x


def _dim(y, m):
    return [31, 29 if (y % 4 == 0 and (y % 100 != 0 or y % 400 == 0)) else 28, 31, 30, 31, 30, 31, 31, 30, 31, 30, 31][m - 1]


def _add_months(x, k):
    t = x.year * 12 + (x.month - 1) + k
    y, m = divmod(t, 12)
    m += 1
    if not (1 <= y <= 9999):
        raise Unspecified('year out of range')
    return x.replace(year=y, month=m, day=min(x.day, _dim(y, m)))


FIELDS = {
    'YEAR': lambda x: x.year, 'QUARTER': lambda x: (x.month - 1) // 3 + 1, 'MONTH': lambda x: x.month, 'WEEK': lambda x: _date_of(x).isocalendar()[1],
    'DAY': lambda x: x.day, 'DAY_OF_MONTH': lambda x: x.day, 'DAY_OF_WEEK': lambda x: _date_of(x).isoweekday(), 'DOW': lambda x: _date_of(x).isoweekday(),
    'DAY_OF_YEAR': lambda x: _date_of(x).timetuple().tm_yday, 'DOY': lambda x: _date_of(x).timetuple().tm_yday,
    'YEAR_OF_WEEK': lambda x: _date_of(x).isocalendar()[0], 'YOW': lambda x: _date_of(x).isocalendar()[0],
    'HOUR': lambda x: x.hour, 'MINUTE': lambda x: x.minute, 'SECOND': lambda x: x.second, 'MILLISECOND': lambda x: x.microsecond // 1000,
}
_DATE_FIELDS = ['YEAR', 'QUARTER', 'MONTH', 'WEEK', 'DAY', 'DAY_OF_MONTH', 'DAY_OF_WEEK', 'DOW', 'DAY_OF_YEAR', 'DOY', 'YEAR_OF_WEEK', 'YOW']
_TIME_FIELDS = ['HOUR', 'MINUTE', 'SECOND']
for _t in ('date', 'ts'):
    for _f in ('YEAR', 'QUARTER', 'MONTH', 'WEEK', 'DAY', 'DAY_OF_MONTH', 'DAY_OF_WEEK', 'DOW', 'DAY_OF_YEAR', 'DOY', 'YEAR_OF_WEEK', 'YOW'):
        reg('%s/%s' % (_f, _t), _f, (_t,), FIELDS[_f])
    for _f in _DATE_FIELDS + (_TIME_FIELDS if _t == 'ts' else []):
        reg('EXTRACT/%s/%s' % (_f, _t), 'EXTRACT', (_t,), FIELDS[_f], sql='EXTRACT(%s FROM {0})' % _f)
for _f in ('HOUR', 'MINUTE', 'SECOND', 'MILLISECOND'):
    reg(_f + '/ts', _f, ('ts',), FIELDS[_f])
for _a, _b in (('DAYOFWEEK', 'DAY_OF_WEEK'), ('DAYOFYEAR', 'DAY_OF_YEAR')):
    reg(_a + '/date', _a, ('date',), FIELDS[_b], note='engine alias of ' + _b)


def _trunc(unit):
    def g(x):
        is_ts = isinstance(x, DT)
        d = _date_of(x)
        if unit in ('second', 'minute', 'hour'):
            if not is_ts:
                raise DomainError('not a valid DATE field')
            return x.replace(microsecond=0) if unit == 'second' else x.replace(second=0, microsecond=0) if unit == 'minute' else x.replace(minute=0, second=0, microsecond=0)
        if unit == 'day':
            r = d
        elif unit == 'week':
            r = d - TD(days=d.isoweekday() - 1)
        elif unit == 'month':
            r = d.replace(day=1)
        elif unit == 'quarter':
            r = d.replace(month=(d.month - 1) // 3 * 3 + 1, day=1)
        elif unit == 'year':
            r = d.replace(month=1, day=1)
        return DT(r.year, r.month, r.day) if is_ts else r
    return g


for _u in ('day', 'week', 'month', 'quarter', 'year'):
    reg('DATE_TRUNC/%s/date' % _u, 'DATE_TRUNC', ('date',), _trunc(_u), sql="DATE_TRUNC('%s', {0})" % _u)
for _u in ('second', 'minute', 'hour', 'day', 'week', 'month', 'quarter', 'year'):
    reg('DATE_TRUNC/%s/ts' % _u, 'DATE_TRUNC', ('ts',), _trunc(_u), sql="DATE_TRUNC('%s', {0})" % _u)


def _date_add(unit):
    def g(v, x):
        is_ts = isinstance(x, DT)
        try:
            if unit in ('millisecond', 'second', 'minute', 'hour'):
                if not is_ts:
                    raise DomainError('not a valid DATE field')
                return x + TD(**{unit + 's': v})
            if unit == 'day':
                return x + TD(days=v)
            if unit == 'week':
                return x + TD(days=7 * v)
            if abs(v) > 100000:
                raise Unspecified('far out of range')
            return _add_months(x, {'month': 1, 'quarter': 3, 'year': 12}[unit] * v)
        except OverflowError:
            raise Unspecified('out of range')
    return g


ADDV = Dom('int', [-13, -1, 0, 1, 2, 5, 12, 366], 'value')
for _u in ('day', 'week', 'month', 'quarter', 'year'):
    reg('DATE_ADD/%s/date' % _u, 'DATE_ADD', (ADDV, 'date'), _date_add(_u), sql="DATE_ADD('%s', {0}, {1})" % _u, colarg=1)
for _u in ('millisecond', 'second', 'minute', 'hour', 'day', 'month', 'year'):
    reg('DATE_ADD/%s/ts' % _u, 'DATE_ADD', (ADDV, 'ts'), _date_add(_u), sql="DATE_ADD('%s', {0}, {1})" % _u, colarg=1)


def _months_between(a, b):
    """whole months from a to b (b >= a), Joda-Time rule used by Trino, and the naive rule; Unspecified when they differ"""
    diff = (b.year - a.year) * 12 + b.month - a.month
    ta = (a.day,) + ((a.hour, a.minute, a.second, a.microsecond) if isinstance(a, DT) else ())
    tb = (b.day,) + ((b.hour, b.minute, b.second, b.microsecond) if isinstance(b, DT) else ())
    naive = diff - (1 if tb < ta else 0)
    # Joda: if b is on the last day of its month and a's day-of-month is larger, a's day is clamped before comparing
    if b.day == _dim(b.year, b.month) and a.day > b.day:
        ta = (b.day,) + ta[1:]
    joda = diff - (1 if tb < ta else 0)
    if joda != naive:
        raise Unspecified('end-of-month clamping')
    return joda


def _date_diff(unit):
    def g(a, b):
        if unit in ('millisecond', 'second', 'minute', 'hour') and not isinstance(a, DT):
            raise DomainError('not a valid DATE field')
        if unit in ('month', 'quarter', 'year'):
            m = _months_between(a, b) if b >= a else -_months_between(b, a)
            k = {'month': 1, 'quarter': 3, 'year': 12}[unit]
            return int(math.copysign(abs(m) // k, m)) if m else 0
        delta = b - a
        us = (delta.days * 86400 + delta.seconds) * 1000000 + delta.microseconds
        per = {'millisecond': 1000, 'second': 10 ** 6, 'minute': 60 * 10 ** 6, 'hour': 3600 * 10 ** 6, 'day': 86400 * 10 ** 6, 'week': 7 * 86400 * 10 ** 6}[unit]
        q = abs(us) // per
        return q if us >= 0 else -q
    return g


for _u in ('day', 'week', 'month', 'quarter', 'year'):
    reg('DATE_DIFF/%s/date' % _u, 'DATE_DIFF', ('date', 'date'), _date_diff(_u), sql="DATE_DIFF('%s', {0}, {1})" % _u)
for _u in ('millisecond', 'second', 'minute', 'hour', 'day', 'month', 'year'):
    reg('DATE_DIFF/%s/ts' % _u, 'DATE_DIFF', ('ts', 'ts'), _date_diff(_u), sql="DATE_DIFF('%s', {0}, {1})" % _u)
for _u in ('day', 'month'):
    reg('DATEDIFF/%s/date' % _u, 'DATEDIFF', ('date', 'date'), _date_diff(_u), sql="DATEDIFF('%s', {0}, {1})" % _u, note='engine alias of DATE_DIFF')
reg('LAST_DAY_OF_MONTH/date', 'LAST_DAY_OF_MONTH', ('date',), lambda d: d.replace(day=_dim(d.year, d.month)))
reg('LAST_DAY_OF_MONTH/ts', 'LAST_DAY_OF_MONTH', ('ts',), lambda x: D(x.year, x.month, _dim(x.year, x.month)))

_WD = ['Monday', 'Tuesday', 'Wednesday', 'Thursday', 'Friday', 'Saturday', 'Sunday']
_MN = ['January', 'February', 'March', 'April', 'May', 'June', 'July', 'August', 'September', 'October', 'November', 'December']


def _date_format(fmt):
    def g(x):
        t = x if isinstance(x, DT) else DT(x.year, x.month, x.day)
        m = {'a': _WD[t.weekday()][:3], 'b': _MN[t.month - 1][:3], 'c': str(t.month), 'd': '%02d' % t.day, 'e': str(t.day), 'f': '%06d' % t.microsecond,
             'H': '%02d' % t.hour, 'h': '%02d' % ((t.hour + 11) % 12 + 1), 'I': '%02d' % ((t.hour + 11) % 12 + 1), 'i': '%02d' % t.minute,
             'j': '%03d' % t.timetuple().tm_yday, 'k': str(t.hour), 'l': str((t.hour + 11) % 12 + 1), 'M': _MN[t.month - 1], 'm': '%02d' % t.month,
             'p': 'AM' if t.hour < 12 else 'PM', 'S': '%02d' % t.second, 's': '%02d' % t.second, 'T': '%02d:%02d:%02d' % (t.hour, t.minute, t.second),
             'W': _WD[t.weekday()], 'Y': '%04d' % t.year, 'y': '%02d' % (t.year % 100), '%': '%',
             'v': '%02d' % t.isocalendar()[1], 'x': '%04d' % t.isocalendar()[0]}
        out, i = [], 0
        while i < len(fmt):
            if fmt[i] == '%' and i + 1 < len(fmt):
                out.append(m[fmt[i + 1]])
                i += 2
            else:
                out.append(fmt[i])
                i += 1
        return ''.join(out)
    return g


for _i, _fm in enumerate(['%Y-%m-%d', '%d/%m/%Y', '%e %b %y', '%W %M %j', '%H:%i:%s', '%a %c', '%x-W%v', '%h %p %k %l', '%T.%f', '100%%']):
    reg('DATE_FORMAT/%s/ts' % _fm, 'DATE_FORMAT', ('ts',), _date_format(_fm), sql="DATE_FORMAT({0}, '%s')" % _fm)
    if _i < 7:
        reg('DATE_FORMAT/%s/date' % _fm, 'DATE_FORMAT', ('date',), _date_format(_fm), sql="DATE_FORMAT({0}, '%s')" % _fm,
            note='a DATE argument is coerced to TIMESTAMP (midnight)')
reg('TO_ISO8601/date', 'TO_ISO8601', ('date',), lambda d: d.isoformat())


def _from_iso_date(s):
    m = re.fullmatch(r'(\d{4})-(\d{2})-(\d{2})', s)
    if not m:
        if re.fullmatch(r'\d{4}-\d{1,2}-\d{1,2}', s) or 'T' in s:
            raise Unspecified('lenient forms (unpadded fields, trailing time) - the ISO parser of Trino is more permissive than the grammar in the documentation')
        if re.fullmatch(r'\d{4}-W\d{2}(-\d)?|\d{4}-\d{3}|\d{4}(-\d{2})?|\d{8}', s):
            raise Unspecified('other ISO 8601 date forms')
        raise DomainError('not an ISO 8601 date')
    try:
        return D(int(m.group(1)), int(m.group(2)), int(m.group(3)))
    except ValueError:
        raise DomainError('invalid date')


reg('FROM_ISO8601_DATE', 'FROM_ISO8601_DATE', (Dom('str', ['2024-02-29', '2023-02-29', '1970-01-01', '2024-W09-4', '2024-13-01', 'abc', '', '2024-2-9', '2024-02-29T00:00:00'], 'iso date'),), _from_iso_date)
reg('TO_UNIXTIME/ts', 'TO_UNIXTIME', ('ts',), lambda x: (x - DT(1970, 1, 1)).total_seconds(), note='timestamp without zone interpreted in UTC (the engine has no session zone)')


def _hrs(x):
    if isnan(x) or isinf(x):
        raise Unspecified('non-finite')
    if x < 0:
        raise Unspecified('negative')
    s = int(decimal.Decimal(x).quantize(decimal.Decimal(1), rounding=decimal.ROUND_HALF_UP))
    if s > 10 ** 15:
        raise Unspecified('huge')
    parts = []
    for name, size in (('week', 604800), ('day', 86400), ('hour', 3600), ('minute', 60), ('second', 1)):
        q, s = divmod(s, size)
        if q or (name == 'second' and not parts):
            parts.append('%d %s%s' % (q, name, '' if q == 1 else 's'))
    return ', '.join(parts)


reg('HUMAN_READABLE_SECONDS', 'HUMAN_READABLE_SECONDS', (Dom('dbl', [0.0, 1.0, 59.0, 60.0, 61.0, 96.0, 3600.0, 3762.0, 86400.0, 604800.0, 56363463.0, 0.4, 1.5, -96.0], 'seconds'),), _hrs)

# ----------------------------------------------------------------------------------------------------------------------------
# JSON (arguments are VARCHAR holding JSON text)
# ----------------------------------------------------------------------------------------------------------------------------
JSONS = Dom('str', ['{"a":1,"b":[1,"x",null,true,2.5],"c":{"d":"é","e":[]},"f":null,"g":false,"h":"1"}', '[1,2,3]', '[]', '{}', '"s"', '12', 'null', 'true',
                    '[1,[2,3],{"k":"v"}]', 'not json', '', '{"a":1', '[1,2'], 'json')
PATHS = Dom('str', ['$', '$.a', '$.b', '$.b[0]', '$.b[1]', '$.b[2]', '$.b[3]', '$.b[4]', '$.b[9]', '$.c.d', '$.c.e', '$.c', '$.f', '$.g', '$.h', '$.x', '$[0]', '$[1][1]', '$[2].k', '$["a"]', 'a', ''], 'json path')
_STEP = re.compile(r'\.([A-Za-z_][A-Za-z0-9_]*)|\[(\d+)\]|\["([^"\\]*)"\]')


def _jparse(js):
    try:
        return json.loads(js, parse_constant=lambda c: (_ for _ in ()).throw(ValueError(c)))
    except ValueError:
        return _BAD


_BAD, _MISSING = object(), object()


def _jnav(js, path):
    """-> value | _MISSING | _BAD (invalid JSON); invalid path -> DomainError"""
    if not path.startswith('$'):
        raise DomainError('invalid JSON path')
    steps, i = [], 1
    while i < len(path):
        m = _STEP.match(path, i)
        if not m:
            raise DomainError('invalid JSON path')
        steps.append(m.group(1) if m.group(1) is not None else int(m.group(2)) if m.group(2) is not None else m.group(3))
        i = m.end()
    v = _jparse(js)
    if v is _BAD:
        return _BAD
    for s in steps:
        if isinstance(s, int):
            if isinstance(v, list) and s < len(v):
                v = v[s]
            else:
                return _MISSING
        else:
            if isinstance(v, dict) and s in v:
                v = v[s]
            else:
                return _MISSING
    return v


def _json_extract_scalar(js, path):
    v = _jnav(js, path)
    if v is _BAD or v is _MISSING or v is None or isinstance(v, (list, dict)):
        return None
    if v is True:
        return 'true'
    if v is False:
        return 'false'
    if isinstance(v, float):
        if v != 2.5:
            raise Unspecified('float formatting')
        return '2.5'
    return str(v)


def _json_size(js, path):
    v = _jnav(js, path)
    if v is _BAD or v is _MISSING:
        return None
    return len(v) if isinstance(v, (list, dict)) else 0


def _json_array_length(js):
    v = _jparse(js)
    return len(v) if isinstance(v, list) else None


def _is_json_scalar(js):
    v = _jparse(js)
    if v is _BAD:
        raise Unspecified('invalid JSON (Trino raises an error; the documentation only defines the result for JSON values)')
    return not isinstance(v, (list, dict))


def _json_array_contains(js, x):
    v = _jparse(js)
    if not isinstance(v, list):
        raise Unspecified('not a JSON array')
    for e in v:
        if isinstance(e, bool) or e is None:
            continue
        if isinstance(x, str):
            if isinstance(e, str) and e == x:
                return True
        elif isinstance(x, int):
            if isinstance(e, int) and e == x:
                return True
            if isinstance(e, float) and e == x:
                raise Unspecified('integer value against a JSON floating point number')
    return False


reg('JSON_EXTRACT_SCALAR', 'JSON_EXTRACT_SCALAR', (JSONS, PATHS), _json_extract_scalar)
reg('JSON_SIZE', 'JSON_SIZE', (JSONS, PATHS), _json_size)
reg('JSON_ARRAY_LENGTH', 'JSON_ARRAY_LENGTH', (JSONS,), _json_array_length)
reg('IS_JSON_SCALAR', 'IS_JSON_SCALAR', (JSONS,), _is_json_scalar)
JARR = Dom('str', ['[1, 2, 3]', '[]', '["a","b"]', '[1,"1"]', '[null]', '[[1]]', '[1.0]', '{"a":1}', '1', 'not json', '[true]'], 'json array')
reg('JSON_ARRAY_CONTAINS/int', 'JSON_ARRAY_CONTAINS', (JARR, Dom('int', [1, 4, 0], 'value')), _json_array_contains)
reg('JSON_ARRAY_CONTAINS/str', 'JSON_ARRAY_CONTAINS', (JARR, Dom('str', ['a', '1', 'c', ''], 'value')), _json_array_contains)

# ----------------------------------------------------------------------------------------------------------------------------
# misc
# ----------------------------------------------------------------------------------------------------------------------------
for _t, _nm in (('int', 'bigint'), ('dbl', 'double'), ('str', 'varchar'), ('date', 'date'), ('bool', 'boolean')):
    reg('TYPEOF/' + _t, 'TYPEOF', (_t,), (lambda nm: lambda x: nm)(_nm), null='custom', literal_ok=False,
        note='judged on columns only (literal types such as integer / varchar(3) / decimal differ by design)')

# ----------------------------------------------------------------------------------------------------------------------------
# engine functions deliberately without a reference
# ----------------------------------------------------------------------------------------------------------------------------
UNCOVERED.update({
    'COT': 'not a Trino function',
    'DATE_PART': 'PostgreSQL function, not in Trino; the EXTRACT forms are covered',
    'RANDOM/RAND, UUID, NOW, CURRENT_DATE, CURRENT_TIME, CURRENT_TIMESTAMP, LOCALTIME, LOCALTIMESTAMP, CURRENT_TIMEZONE, SHUFFLE': 'non-deterministic or clock dependent: no per-argument documented value',
    'BETA_CDF, INVERSE_BETA_CDF, INVERSE_NORMAL_CDF, T_CDF, T_PDF, WILSON_INTERVAL_LOWER, WILSON_INTERVAL_UPPER': 'need special functions (incomplete beta, inverse erf) that the Python standard library does not provide; a hand-written series would not be a trustworthy oracle',
    'MURMUR3, SPOOKY_HASH_V2_32, SPOOKY_HASH_V2_64': 'no standard-library implementation to cross-check a hand-written one against',
    'COSINE_SIMILARITY, COSINE_DISTANCE, L2_DISTANCE, DOT_PRODUCT': 'vector arguments; not among the categories of the property (covered by the vector-search properties)',
    'CARDINALITY, ARRAY_*, ELEMENT_AT, CONTAINS, FLATTEN, SEQUENCE, SLICE, TRIM_ARRAY, NGRAMS, COMBINATIONS, ZIP, CONTAINS_SEQUENCE, ARRAYS_OVERLAP': 'array functions: outside the categories named by the property; the engine has no first-class ARRAY values for string results (see SPLIT)',
    'JSON_EXTRACT, JSON_ARRAY_GET, JSON_FORMAT, JSON_PARSE, JSON_QUERY, JSON_VALUE, JSON_EXISTS, JSON_OBJECT, JSON_ARRAY': 'return the JSON type / use SQL-2016 JSON path syntax clauses: the textual rendering of a JSON value (spacing, key order, quoting) is not fixed by the documentation',
    'FROM_UNIXTIME, FROM_ISO8601_TIMESTAMP, AT_TIMEZONE, WITH_TIMEZONE, TIMEZONE, TIMEZONE_HOUR, TIMEZONE_MINUTE, DATE_PARSE, PARSE_DATETIME': 'results are TIMESTAMP WITH TIME ZONE in Trino and depend on the session zone; the engine has no zone-carrying type, so no value can be compared without inventing a convention',
    'PARSE_DURATION, PARSE_DATA_SIZE': 'return INTERVAL / DECIMAL(38,0), types the driver cannot transport faithfully',
    'FORMAT, FORMAT_NUMBER': "FORMAT follows java.util.Formatter (locale dependent); the engine's two-argument FORMAT_NUMBER is the Hive/MySQL function, Trino's format_number(x) is a different one-argument function",
    'TRY, TRY_CAST': 'error-handling forms, not value functions (TRY_CAST belongs to the cast properties)',
    'WORD_STEM': 'Snowball stemmer output cannot be derived from the documentation',
    'FROM_IEEE754_32': 'needs a REAL round trip whose rendering is not exact in the driver',
    'LTRIM/RTRIM/TRIM with a character-set argument, NORMALIZE with a form, LPAD/RPAD two-argument forms': 'overloads not enumerated (keyword syntax or not accepted by the binder)',
})
