//! qe-loom: exhaustive interleaving exploration (loom) of the REAL src/execution/memory.rs,
//! included by #[path] and compiled with --cfg qe_verif_loom so its atomics are loom's.
//! Usage: qe-loom <preemption_bound|0 for unbounded> [max_branches]
//! Prints one JSON line.

#[allow(dead_code)]
#[path = "/repo/src/execution/memory.rs"]
mod memory;

#[allow(dead_code)]
mod error {
    #[derive(Debug)]
    pub enum QueryError {
        Execution(String),
    }
    pub type Result<T> = std::result::Result<T, QueryError>;
}

use loom::sync::Arc;
use memory::{MemoryPool, MemoryReservation};
use std::sync::atomic::{AtomicU64, Ordering};
use std::sync::Mutex;

#[derive(Clone, Copy, Debug, PartialEq)]
enum Op {
    Try(usize),          // conditional reservation, result: granted?
    Alloc(usize),        // forced
    Resize(usize),       // resize the most recent live reservation of this thread
    DropLast,            // drop the most recent live reservation
}

const LIMIT: usize = 10;

/// Result of one thread: per-op grant flags and the sizes still live at the end.
#[derive(Clone, Debug, Default, PartialEq)]
struct ThreadLog {
    granted: Vec<Option<bool>>,
}

fn run_program(pool: &MemoryPool, prog: &[Op]) -> (ThreadLog, Vec<MemoryReservation<'static>>) {
    let mut live: Vec<MemoryReservation<'static>> = Vec::new();
    let mut log = ThreadLog::default();
    for op in prog {
        match op {
            Op::Try(n) => match pool.try_allocate(*n) {
                Some(r) => {
                    // lifetime extension: the harness keeps the pool Arc alive until every reservation is dropped
                    live.push(unsafe { std::mem::transmute::<MemoryReservation<'_>, MemoryReservation<'static>>(r) });
                    log.granted.push(Some(true));
                }
                None => log.granted.push(Some(false)),
            },
            Op::Alloc(n) => {
                let r = pool.allocate(*n);
                live.push(unsafe { std::mem::transmute::<MemoryReservation<'_>, MemoryReservation<'static>>(r) });
                log.granted.push(None);
            }
            Op::Resize(n) => {
                if let Some(r) = live.last_mut() {
                    r.resize(*n);
                }
                log.granted.push(None);
            }
            Op::DropLast => {
                live.pop();
                log.granted.push(None);
            }
        }
    }
    (log, live)
}

/// Sequential reference: replay one global order of (thread, op index); returns (logs, final used) or None if impossible.
fn sequential(progs: &[Vec<Op>], order: &[usize]) -> (Vec<ThreadLog>, usize) {
    let mut used: usize = 0;
    let mut pc = vec![0usize; progs.len()];
    let mut live: Vec<Vec<usize>> = vec![Vec::new(); progs.len()];
    let mut logs = vec![ThreadLog::default(); progs.len()];
    for &t in order {
        let op = progs[t][pc[t]];
        pc[t] += 1;
        match op {
            Op::Try(n) => {
                if used + n <= LIMIT {
                    used += n;
                    live[t].push(n);
                    logs[t].granted.push(Some(true));
                } else {
                    logs[t].granted.push(Some(false));
                }
            }
            Op::Alloc(n) => {
                used += n;
                live[t].push(n);
                logs[t].granted.push(None);
            }
            Op::Resize(n) => {
                if let Some(s) = live[t].last_mut() {
                    used = used - *s + n;
                    *s = n;
                }
                logs[t].granted.push(None);
            }
            Op::DropLast => {
                if let Some(s) = live[t].pop() {
                    used -= s;
                }
                logs[t].granted.push(None);
            }
        }
    }
    (logs, used)
}

fn interleavings(lens: &[usize]) -> Vec<Vec<usize>> {
    fn rec(rem: &mut Vec<usize>, cur: &mut Vec<usize>, out: &mut Vec<Vec<usize>>) {
        if rem.iter().all(|r| *r == 0) {
            out.push(cur.clone());
            return;
        }
        for t in 0..rem.len() {
            if rem[t] > 0 {
                rem[t] -= 1;
                cur.push(t);
                rec(rem, cur, out);
                cur.pop();
                rem[t] += 1;
            }
        }
    }
    let mut out = Vec::new();
    rec(&mut lens.to_vec(), &mut Vec::new(), &mut out);
    out
}

static EXECUTIONS: AtomicU64 = AtomicU64::new(0);
static OUTCOMES: Mutex<Vec<String>> = Mutex::new(Vec::new());
static FAILURE: Mutex<Option<String>> = Mutex::new(None);

fn check_body(progs: Vec<Vec<Op>>, bound: Option<usize>, max_branches: usize) {
    let orders = interleavings(&progs.iter().map(|p| p.len()).collect::<Vec<_>>());
    // all sequentially possible observations
    let allowed: Vec<(Vec<ThreadLog>, usize)> = orders.iter().map(|o| sequential(&progs, o)).collect();
    let mut b = loom::model::Builder::new();
    b.preemption_bound = bound;
    b.max_branches = max_branches;
    let progs2 = progs.clone();
    b.check(move || {
        EXECUTIONS.fetch_add(1, Ordering::Relaxed);
        let pool = Arc::new(MemoryPool::new(LIMIT));
        let mut handles = Vec::new();
        for p in progs2.iter().skip(1).cloned() {
            let pool = pool.clone();
            handles.push(loom::thread::spawn(move || run_program(&pool, &p)));
        }
        let first = run_program(&pool, &progs2[0]);
        let mut results = vec![first];
        for h in handles {
            results.push(h.join().unwrap());
        }
        let logs: Vec<ThreadLog> = results.iter().map(|r| r.0.clone()).collect();
        let live_sum: usize = results.iter().flat_map(|r| r.1.iter()).map(|r| r.size()).sum();
        let used = pool.used();
        let mut why = None;
        if used != live_sum {
            why = Some(format!("used() = {used} but live reservations sum to {live_sum}"));
        } else if !allowed.iter().any(|(l, u)| *l == logs && *u == used) {
            why = Some(format!("grants {logs:?} with used {used} match no sequential order of the operations"));
        }
        let key = format!("{logs:?}|{used}");
        {
            let mut o = OUTCOMES.lock().unwrap();
            if !o.contains(&key) {
                o.push(key);
            }
        }
        // release everything: usage must return to zero
        drop(results);
        if why.is_none() && pool.used() != 0 {
            why = Some(format!("after dropping every reservation used() = {}", pool.used()));
        }
        if let Some(w) = why {
            let msg = format!("programs {progs2:?}: {w}");
            *FAILURE.lock().unwrap() = Some(msg.clone());
            panic!("{msg}");
        }
    });
}

fn main() {
    let args: Vec<String> = std::env::args().collect();
    let bound: usize = args.get(1).and_then(|s| s.parse().ok()).unwrap_or(2);
    let max_branches: usize = args.get(2).and_then(|s| s.parse().ok()).unwrap_or(100_000);
    let which: String = args.get(3).cloned().unwrap_or_else(|| "all".into());
    let bound_opt = if bound == 0 { None } else { Some(bound) };
    use Op::*;
    let menu2: Vec<Vec<Op>> = vec![
        vec![Try(6), Resize(8), DropLast],
        vec![Try(6), Resize(3)],
        vec![Try(4), DropLast, Try(6)],
        vec![Alloc(7), Resize(2), DropLast],
        vec![Try(6)],
        vec![Alloc(7), Try(4)],
    ];
    let menu3: Vec<Vec<Op>> = vec![vec![Try(6)], vec![Try(4)], vec![Alloc(7)], vec![Try(6), DropLast]];
    let mut bodies: Vec<Vec<Vec<Op>>> = Vec::new();
    for i in 0..menu2.len() {
        for j in i..menu2.len() {
            bodies.push(vec![menu2[i].clone(), menu2[j].clone()]);
        }
    }
    if which != "two" {
        for i in 0..menu3.len() {
            for j in i..menu3.len() {
                for k in j..menu3.len() {
                    bodies.push(vec![menu3[i].clone(), menu3[j].clone(), menu3[k].clone()]);
                }
            }
        }
    }
    std::panic::set_hook(Box::new(|_| {}));
    let mut failed: Option<String> = None;
    let mut per_body = Vec::new();
    for b in &bodies {
        let before = EXECUTIONS.load(Ordering::Relaxed);
        let bb = b.clone();
        let r = std::panic::catch_unwind(move || check_body(bb, bound_opt, max_branches));
        let n = EXECUTIONS.load(Ordering::Relaxed) - before;
        per_body.push(n);
        if r.is_err() {
            failed = FAILURE.lock().unwrap().clone().or(Some(format!("loom reported a failure for programs {b:?}")));
            break;
        }
    }
    let outcomes = OUTCOMES.lock().unwrap().len();
    let sample = format!("{:?}", bodies[0]);
    let fail_json = match &failed {
        Some(f) => format!("\"{}\"", f.replace('\\', "\\\\").replace('"', "'")),
        None => "null".into(),
    };
    println!(
        "{{\"executions\":{},\"bodies\":{},\"distinct_outcomes\":{},\"preemption_bound\":{},\"failure\":{},\"sample_body\":\"{}\",\"max_executions_per_body\":{}}}",
        EXECUTIONS.load(Ordering::Relaxed),
        per_body.len(),
        outcomes,
        bound,
        fail_json,
        sample.replace('"', "'"),
        per_body.iter().max().unwrap_or(&0)
    );
}
