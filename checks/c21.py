"""C21 aggregates: NULL / empty-input rules on every aggregation path."""
import itertools
from vlib import sqldiff
from vlib.enumr import multisets, rotate
from .common import table, chunks, D, F

LEVEL = 'exploration'

VAL = {
    'int64': [None, 1, 2],
    'float64': [None, F(0.5), F(2.0)],
    'utf8': [None, 'a', 'b'],
    'date32': [None, D('2024-01-01'), D('2024-01-02')],
}
AGGS = ['COUNT(*)', 'COUNT(v)', 'SUM(v)', 'AVG(v)', 'MIN(v)', 'MAX(v)', 'COUNT(DISTINCT v)']


def agg_sets(vt, maxsize):
    ok = [a for a in AGGS if vt in ('int64', 'float64') or not a.startswith(('SUM', 'AVG'))]
    out = [[a] for a in ok]
    if maxsize >= 2:
        out += [list(c) for c in itertools.combinations(ok, 2)]
    # DISTINCT forms of the other aggregates: alone, next to COUNT(*), and next to their plain form (NULL, not 0, over no non-NULL value)
    extra = ['MIN(DISTINCT v)'] + (['SUM(DISTINCT v)', 'AVG(DISTINCT v)'] if vt in ('int64', 'float64') else [])
    for e in extra:
        out += [[e], [e, 'COUNT(*)'], [e, e.replace('DISTINCT ', '')]]
    return out


def stmts(vt, maxsize, emptying):
    st = []
    for aset in agg_sets(vt, maxsize):
        al = ', '.join(aset)
        ap = 'approx' if any(a.startswith('AVG') for a in aset) else None
        def S(sql, tag):
            d = {'sql': sql, 'tag': tag, 'strict': True, 'nontrivial': True}
            if ap:
                d['approx'] = True
            return d
        st.append(S('SELECT %s FROM t' % al, 'global'))
        g = S('SELECT g, %s FROM t GROUP BY g' % al, 'grouped')
        g['alt_fns'] = {'perfect_hash_drops_empty_null_key_group': ['drop_empty_null_group', 1]}
        st.append(g)
        st.append(S('SELECT %s FROM t WHERE %s' % (al, emptying), 'global-empty-input'))
        st.append(S('SELECT g, %s FROM t WHERE %s GROUP BY g' % (al, emptying), 'grouped-empty-input'))
        st.append(S('SELECT %s FROM t WHERE g IS NULL' % al, 'global-filtered'))
    # two grouping columns (the all-NULL key tuple, perfect-hash stride changes when a new key value appears)
    for al in ('COUNT(*)', 'COUNT(v)', 'MIN(v), MAX(v)'):
        st.append({'sql': 'SELECT g, v, %s FROM t GROUP BY g, v' % al, 'tag': 'grouped-2keys', 'strict': True, 'nontrivial': True})
    st.append({'sql': 'SELECT g, v FROM t GROUP BY g, v', 'tag': 'grouped-2keys-noagg', 'strict': True, 'nontrivial': True})
    st.append({'sql': 'SELECT DISTINCT g, v FROM t', 'tag': 'distinct-2cols', 'strict': True, 'nontrivial': True})
    # an aggregate whose alias repeats the group column's name
    st.append({'sql': 'SELECT g AS x, COUNT(v) AS g FROM t GROUP BY g', 'tag': 'aggregate-alias-is-group-column', 'strict': True, 'nontrivial': True})
    st.append({'sql': 'SELECT g AS x, MAX(v) AS g, COUNT(*) AS v FROM t GROUP BY g', 'tag': 'aggregate-alias-is-group-column-2', 'strict': True, 'nontrivial': True})
    return st


def run(rep):
    quick = rep.tier == 'quick'
    typings = [('int64', 'int64'), ('utf8', 'float64')] if quick else \
        [(g, v) for g in ('int64', 'utf8', 'date32') for v in ('int64', 'float64', 'utf8', 'date32')]
    maxrows = 3
    units = []
    ntables = 0
    for gt, vt in typings:
        kinds = list(itertools.product(VAL[gt], VAL[vt]))
        tables = list(multisets(kinds, maxrows))
        tables = rotate(tables, rep.seed)
        ntables += len(tables)
        cols = [['g', gt], ['v', vt]]
        emptying = 'v IS NULL AND v IS NOT NULL'
        st_full = stmts(vt, 1 if quick else 2, emptying)
        # LEFT JOIN producing all-NULL groups
        lj = [{'sql': 'SELECT k.g AS kg, COUNT(t.v), MIN(t.v), MAX(t.v), COUNT(*) FROM k LEFT JOIN t ON k.g = t.g GROUP BY k.g',
               'tag': 'leftjoin-null-groups', 'strict': True, 'nontrivial': True}]
        ktab = table('k', [['g', gt]], [[VAL[gt][1]], [VAL[gt][2]], [None]])
        for rows in tables:
            rows = [list(r) for r in rows]
            layouts = [
                ('mem-1batch', dict(), {}),
                ('mem-6batches', dict(replicate=2, nbatches=6), {}),
                ('parquet-rg1', dict(storage='parquet', rg=1), {}),
                ('spill', dict(), {'mem_limit': 1}),
            ]
            if not quick:
                layouts.append(('parquet-2files', dict(storage='parquet', rg=2, nbatches=2), {}))
            for lname, kw, ctx in layouts:
                if 'nbatches' in kw and len(rows) * kw.get('replicate', 1) < 2:
                    continue
                db = {'tables': [table('t', cols, rows, **kw), ktab]}
                if ctx:
                    db['ctx'] = ctx
                ss = st_full if lname in ('mem-1batch', 'parquet-rg1') or not quick else st_full[::2]
                ss = [dict(s, want_plan=(i % 25 == 0)) for i, s in enumerate(ss)]
                ljs = [dict(x, strict=False) for x in lj] if lname == 'spill' else lj  # the join spill path may refuse outer joins explicitly
                units.append({'db': db, 'stmts': ss + (ljs if lname != 'mem-6batches' else []), 'layout': lname})
    # high-cardinality family: > 65,536 groups opens the parallel raw-key merge paths (row gates are reached with real rows, no hook)
    ngroups = 70000     # ~105,000 rows: above the 100,000-row gate of the morsel-parallel hash aggregation and the 65,536 raw-group limits
    for vt in (['float64', 'int64'] if quick else ['float64', 'int64', 'utf8']):
        x, y = VAL[vt][1], VAL[vt][2]
        big = []
        for k in range(ngroups):
            m = k % 4
            if m == 0:
                big.append([k, None])
            elif m == 1:
                big.append([k, None]); big.append([k, x])
            elif m == 2:
                big.append([k, y])
            else:
                big.append([k, x]); big.append([k, y])
        big.append([None, None]); big.append([None, x])
        bst = []
        for aset in agg_sets(vt, 1) + ([['SUM(v)', 'COUNT(v)']] if vt != 'utf8' else []):
            d = {'sql': 'SELECT g, %s FROM t GROUP BY g' % ', '.join(aset), 'tag': 'grouped-66k-groups', 'strict': True, 'nontrivial': True, 'want_plan': True}
            if any(a.startswith('AVG') for a in aset):
                d['approx'] = True
            bst.append(d)
        for lname, kw in (('mem-8batches', dict(nbatches=8)), ('parquet-rg8192', dict(storage='parquet', rg=8192, nbatches=2))):
            for chunk in (bst[:4], bst[4:]):
                units.append({'db': {'tables': [table('t', [['g', 'int64'], ['v', vt]], big, **kw), ktab]}, 'stmts': chunk, 'layout': lname})
    configs = [{'name': 'default', 'env': {}}, {'name': 'morsel-off', 'env': {'QE_MORSEL': '0'}}]
    # morsel-off only matters for parquet layouts
    us = []
    for u in units:
        if u['layout'].startswith('parquet'):
            us.append(u)
        else:
            us.append(dict(u, config='default'))
    rep.rule = ('all multisets of <= 3 rows over (g,v) in {NULL,x,y}^2 for typings %s; every aggregate set of size <= %d from COUNT(*)/COUNT/SUM/AVG/MIN/MAX/COUNT(DISTINCT) plus SUM/AVG/MIN(DISTINCT) alone and paired, aggregate aliases that repeat the name of the group column, '
                'global / GROUP BY g / WHERE-emptied / filtered-to-NULL-key / above a LEFT JOIN; layouts memory 1 batch, memory 6 batches (rows x2), Parquet row-group-per-row '
                '(QE_MORSEL default and 0), memory limit 1 byte (spill path); plus one 70,000-group table (NULL-only, mixed and non-NULL groups) per value type in 8 memory batches and as Parquet; oracle SQLite; Execution errors are violations'
                % (typings, 1 if quick else 2))
    rep.extra['tables'] = ntables
    sqldiff.run(rep, us, configs, chunk=8, timeout=120)


def replay(payload):
    return sqldiff.replay(payload)
