"""C27 GROUPING SETS / ROLLUP / CUBE: oracle = UNION ALL of plain GROUP BY per set (each branch run by SQLite)."""
import itertools
from vlib import sqldiff
from vlib.enumr import multisets, rotate
from .common import table

LEVEL = 'exploration'


def ref_sql(cols, sets, gcalls):
    """cols: all grouping columns in SELECT order; sets: list of tuples of columns; gcalls: list of tuples (GROUPING args)."""
    branches = []
    for s in sets:
        sel = [(c if c in s else 'NULL') for c in cols]
        sel += ['COUNT(*)', 'SUM(v)']
        for g in gcalls:
            mask = 0
            for c in g:
                mask = mask * 2 + (0 if c in s else 1)
            sel.append(str(mask))
        q = 'SELECT %s FROM t' % ', '.join(sel)
        if s:
            q += ' GROUP BY %s' % ', '.join(s)
        branches.append(q)
    return ' UNION ALL '.join(branches)


def rollup(cols):
    return [tuple(cols[:i]) for i in range(len(cols), -1, -1)]


def cube(cols):
    out = []
    for r in range(len(cols), -1, -1):
        out.extend(itertools.combinations(cols, r))
    return out


def run(rep):
    quick = rep.tier == 'quick'
    kinds = list(itertools.product([None, 1], [None, 1], [None, 1], [1, 2]))
    tabs = rotate(list(multisets(kinds, 2 if quick else 3, 0)), rep.seed)
    stmts = []

    def add(cols, clause, sets, tag):
        gcalls = [(cols[0],)] + ([tuple(cols[:2])] if len(cols) >= 2 else []) + ([tuple(cols)] if len(cols) == 3 else [])
        gsel = ', '.join('GROUPING(%s)' % ', '.join(g) for g in gcalls)
        sql = 'SELECT %s, COUNT(*), SUM(v), %s FROM t GROUP BY %s' % (', '.join(cols), gsel, clause)
        stmts.append({'sql': sql, 'ref': ref_sql(cols, sets, gcalls), 'tag': tag, 'nontrivial': True, 'strict': True})
        # without GROUPING()
        stmts.append({'sql': 'SELECT %s, COUNT(*), SUM(v) FROM t GROUP BY %s' % (', '.join(cols), clause), 'ref': ref_sql(cols, sets, []),
                      'tag': tag + '-nogrouping', 'nontrivial': True, 'strict': True})
    colsets = [['a'], ['a', 'b']] + ([['a', 'b', 'c']] if not quick else [])
    for cols in colsets:
        subsets = []
        for r in range(len(cols) + 1):
            subsets.extend(itertools.combinations(cols, r))
        for n in (1, 2, 3):
            for lst in itertools.combinations_with_replacement(subsets, n):
                clause = 'GROUPING SETS (%s)' % ', '.join('(%s)' % ', '.join(s) for s in lst)
                add(cols, clause, list(lst), 'grouping-sets-%d' % n)
    for cols in (['a'], ['a', 'b'], ['a', 'b', 'c']):
        add(cols, 'ROLLUP (%s)' % ', '.join(cols), rollup(cols), 'rollup-%d' % len(cols))
        add(cols, 'CUBE (%s)' % ', '.join(cols), cube(cols), 'cube-%d' % len(cols))
    units = []
    for rows in tabs:
        db = {'tables': [table('t', [['a', 'int64'], ['b', 'int64'], ['c', 'int64'], ['v', 'int64']], [list(r) for r in rows])]}
        units.append({'db': db, 'stmts': stmts})
    rep.rule = ('all multisets of 0..%d rows over (a,b,c) in {NULL,1}^3 x v in {1,2}; every GROUPING SETS list of 1..3 sets (with repetition, incl. the empty set) over %s, '
                'ROLLUP and CUBE over 1..3 columns, with and without GROUPING(a), GROUPING(a,b)[, GROUPING(a,b,c)]; oracle: UNION ALL over the sets of plain GROUP BY per set '
                '(absent columns NULL, bitmask from set membership), each branch executed by SQLite' % (2 if quick else 3, colsets))
    rep.extra['statements_per_table'] = len(stmts)
    sqldiff.run(rep, units)


def replay(payload):
    return sqldiff.replay(payload)
