"""C20 IPC sidecars are invisible and safe to build concurrently."""
import hashlib, json, os, shutil
from vlib import native, sqldiff, driver as drv
from vlib.compare import norm_rows, compare_result
from .common import table, D, F
from . import c04

LEVEL = 'model_checking'
PACKAGES = ('qe-driver', 'qe-native')


def run(rep):
    quick = rep.tier == 'quick'
    rep.rule = ('(races, qe-native c20) virtual processes as threads under hook H4 (own pid => own staging directory and no shared build lock; own QE_IPC_CACHE mode); every hook point before an operation on shared file-system state '
                '(source metadata, both .complete checks, build lock, staging, remove of the final directory, rename into place, loser clean-up, each row-group open) blocks until the explorer grants it; all schedules up to a '
                'preemption bound, each on a fresh directory with a 2-row-group Parquet file; configurations: builder+builder (cold, stale sidecar present), builder+reader (cold, stale, fresh), two builders in ONE process '
                '(real build mutex), builder+builder+reader%s; each virtual process runs the engine-side ParquetTable::scan itself on a private one-worker rayon pool that carries its identity; oracle per schedule: every scan returns exactly the rows of the table (through the sidecar or through the Parquet fallback) and never fails; '
                'afterwards the directory holds exactly rg_*.arrow + .complete, no staging directory is left, and a later auto-mode reader reads the table. '
                '(invisibility) the C04 statements over a dictionary-eligible and a dictionary-free Parquet table x row-group sizes, answered by a QE_IPC_CACHE=0 process, a QE_IPC_CACHE=1 process cold then warm, '
                'and an auto-mode process that finds the sidecars the builder left; all must equal the in-memory answer'
                % ('' if quick else ', shared+foreign builder+reader; bounds 2-4'))
    native.run(rep, 'c20')
    for k, v in list(rep.extra.items()):
        if isinstance(v, dict) and v.get('capped'):
            rep.caps.append('%s: schedule cap reached' % k)
    # invisibility
    st = c04.statements()
    root = '/verif/work/c20-%d' % os.getpid()
    shutil.rmtree(root, ignore_errors=True)
    os.makedirs(root)
    actors = {'off': drv.Driver(env={'QE_IPC_CACHE': '0'}), 'build': drv.Driver(env={'QE_IPC_CACHE': '1'}), 'auto': drv.Driver(env={})}
    mem = drv.Driver(env={})
    try:
        tables = [('rich', c04.RICH), ('dups', [c04.KINDS[0], c04.KINDS[1], c04.KINDS[5], c04.KINDS[6], c04.KINDS[6]])]
        if not quick:
            tables.append(('rich-x40', c04.RICH * 40))
        n = 0
        for tname, rows in tables:
            memdb = {'tables': [table('p', c04.COLS, rows), table('m', [['k', 'int64'], ['name', 'utf8']], c04.MEMT)]}
            sqldiff.reg_db(mem, memdb, 'base')
            base = {}
            for s in st:
                for q in {s['sql'], s.get('full', s['sql'])}:
                    base[q] = mem.call({'op': 'sql', 'db': 'base', 'sql': q}, timeout=60)
            for dict_on in (True, False):
                for rg in ((2, 1 << 20) if quick else (1, 2, 5, 1 << 20)):
                    n += 1
                    d = os.path.join(root, 't%d' % n, 'p')
                    r = actors['off'].call({'op': 'pq_write', 'path': os.path.join(d, 'part-0.parquet'), 'cols': c04.COLS, 'rows': rows, 'rg': rg, 'dict': dict_on})
                    assert r.get('ok'), r
                    for phase, a in (('off', 'off'), ('build-cold', 'build'), ('build-warm', 'build'), ('auto-warm', 'auto')):
                        dv = actors[a]
                        dv.call({'op': 'newdb', 'db': 'd'})
                        dv.call({'op': 'reg', 'db': 'd', 'table': 'm', 'cols': [['k', 'int64'], ['name', 'utf8']], 'rows': c04.MEMT})
                        rr = dv.call({'op': 'reg_path', 'db': 'd', 'table': 'p', 'path': d})
                        if not rr.get('ok'):
                            rep.violation({'property': 'C20', 'kind': 'invisible', 'why': 'register fails: %s' % rr.get('msg'), 'phase': phase})
                            continue
                        for s in st:
                            b = base[s['sql']]
                            full = base[s.get('full', s['sql'])]
                            if not b.get('ok') or not full.get('ok'):
                                continue
                            rep.evaluations += 1
                            r = dv.call({'op': 'sql', 'db': 'd', 'sql': s['sql']}, timeout=60)
                            if not r.get('ok'):
                                why = 'fails: %s %s' % (r.get('err'), (r.get('msg') or '')[:160])
                            else:
                                why = compare_result(norm_rows(r['rows'], s.get('approx', False)), norm_rows(full['rows'], s.get('approx', False)), s.get('order'), s.get('limit'), None)
                            if why and c04.KNOWN_ID in c04_known and 'GROUP BY' in s['sql']:
                                # C04's listed finding (uniqueness inferred from statistics) is independent of sidecars: same answer with sidecars off
                                o = actors['off'].call({'op': 'sql', 'db': 'd', 'sql': s['sql']}, timeout=60) if phase != 'off' else r
                                if phase == 'off' or (o.get('ok') and r.get('ok') and sorted(json.dumps(x) for x in o['rows']) == sorted(json.dumps(x) for x in r['rows'])):
                                    rep.count('not_a_sidecar_effect(C04 finding)')
                                    continue
                            if why:
                                rep.violation({'property': 'C20', 'kind': 'invisible', 'table': tname, 'rows': rows[:12], 'dictionary': dict_on, 'rg': rg, 'phase': phase, 'stmt': s, 'why': why,
                                               'got': (r.get('rows') or [])[:12], 'memory': full['rows'][:12]})
                            else:
                                rep.count('invisible_agree:' + phase)
                                if b['rows']:
                                    rep.nontrivial.add(hashlib.sha1(json.dumps([tname, dict_on, rg, phase, s['sql']]).encode()).digest()[:8])
                    side = os.path.join(d, 'part-0.parquet.qeipc')
                    rep.count('sidecar_present_after_build' if os.path.isdir(side) else 'sidecar_absent_after_build')
            mem.call({'op': 'dropdb', 'db': 'base'})
    finally:
        for a in actors.values():
            a.close()
        mem.close()
        shutil.rmtree(root, ignore_errors=True)


from vlib.report import known_ids
c04_known = set(known_ids('C04'))


def replay(payload):
    if payload.get('kind') == 'invisible':
        print(json.dumps(payload)[:2000])
        return 1
    return native.replay_generic(payload)
