"""C40 CLI output formats round-trip."""
from vlib import native
LEVEL = 'exploration'


def run(rep):
    rep.rule = ('the real src/cli/output.rs (included by #[path]) formats result sets whose string cells are all strings of length <= 3 (quick) / 4 (thorough) over '
                '{a , " LF CR TAB \\\\ space e-acute U+0001}, alone under 3-5 column names (incl. names with comma/quote/newline), beside NULL / int / double (NaN, inf) / boolean cells, '
                'in 2x2 grids and as one 1111-row result; oracle: a strict RFC 4180 reader returns exactly the displayed cell text per row and column (NULL = empty), '
                'serde_json returns the same values and keys; non-trivial = a formatted result that round-trips')
    rep.assumptions = ['record separator LF is accepted by the RFC 4180 reader (the tool writes LF)', 'NaN/inf may come back as JSON strings of their display text',
                       'the REPL wiring in src/main.rs (.mode csv|json) is not exercised by the quick tier']
    native.run(rep, 'c40')


def replay(payload):
    return native.replay_generic(payload)
