"""C09 distributed answer == single-node answer (in-process FragmentTransport over the real execute_fragment)."""
import hashlib, itertools, json, os, traceback
import multiprocessing as mp
from vlib import sqldiff, driver as drv
from vlib.compare import norm_rows, compare_result
from vlib.enumr import multisets, rotate
from .common import table, F, D

LEVEL = 'exploration'

FCOLS = [['k', 'int64'], ['g', 'int64'], ['m', 'float64'], ['s', 'utf8']]
DCOLS = [['g', 'int64'], ['name', 'utf8']]
BIG = [[1, 1, F(0.5), 'a'], [2, 1, None, 'b'], [3, 2, F(2.0), 'a'], [4, None, F(1.5), None], [5, None, None, 'c'], [6, 2, F(0.5), 'b'], [7, 3, F(4.0), 'a'], [8, 1, F(0.5), None]]
DIM = [[1, 'one'], [2, 'two'], [None, 'nil'], [4, 'four']]
ECOLS = [['g', 'int64'], ['w', 'int64']]
EXTRA = [[1, 10], [2, 20], [2, 21], [None, 99]]


def statements():
    S = []

    def add(sql, tag, order=None, limit=None, offset=None, approx=False):
        S.append({'sql': sql, 'tag': tag, 'order': order, 'limit': limit, 'offset': offset, 'approx': approx})
    # Concat
    add('SELECT k, m FROM f', 'concat')
    add('SELECT k FROM f WHERE m > 1', 'concat-filter')
    add('SELECT k, m * 2 AS mm, s FROM f WHERE g IS NULL', 'concat-expr')
    add('SELECT * FROM f', 'concat-star')
    add("SELECT k FROM f WHERE s = 'a' OR g = 2", 'concat-or')
    add('SELECT k FROM f LIMIT 3', 'concat-limit', limit=3)
    # TwoPhase global
    for a in ['COUNT(*)', 'COUNT(m)', 'SUM(m)', 'MIN(m)', 'MAX(m)', 'AVG(m)', 'MIN(s)', 'MAX(k)', 'COUNT(*), SUM(m), AVG(m)', 'SUM(m) / COUNT(*)', 'SUM(m) + 1',
              'MAX(m) - MIN(m)', 'COUNT(s), COUNT(g)']:
        add('SELECT %s FROM f' % a, 'global-agg', approx=True)
        add('SELECT %s FROM f WHERE g = 1' % a, 'global-agg-filter', approx=True)
        add('SELECT %s FROM f WHERE k < 0' % a, 'global-agg-empty', approx=True)
    # TwoPhase grouped
    for a in ['COUNT(*)', 'COUNT(m)', 'SUM(m)', 'MIN(m)', 'MAX(m)', 'AVG(m)', 'SUM(m), COUNT(*)']:
        add('SELECT g, %s FROM f GROUP BY g' % a, 'group-col', approx=True)
        add('SELECT s, g, %s FROM f GROUP BY s, g' % a, 'group-2col', approx=True)
    add('SELECT g AS grp, COUNT(*) FROM f GROUP BY grp', 'group-alias')
    add('SELECT g, COUNT(*) FROM f GROUP BY 1', 'group-ordinal')
    add('SELECT g, COUNT(*) AS c FROM f GROUP BY g HAVING COUNT(*) > 1', 'group-having')
    add('SELECT g, SUM(m) AS t FROM f GROUP BY g HAVING SUM(m) > 1', 'group-having-sum', approx=True)
    add('SELECT g, COUNT(*) AS c FROM f GROUP BY g ORDER BY c DESC, g NULLS LAST LIMIT 2', 'group-order-limit', order=[(1, True, False), (0, False, False)], limit=2)
    add('SELECT g, COUNT(*) AS c FROM f GROUP BY g ORDER BY g NULLS FIRST', 'group-order', order=[(0, False, True)])
    add('SELECT g + 1 AS h, COUNT(*) FROM f GROUP BY g + 1', 'group-expr')
    # TopN
    for lim, off in [(None, None), (3, None), (3, 1), (0, None), (100, None), (2, 7), (1, 8)]:
        tail = ('' if lim is None else ' LIMIT %d' % lim) + ('' if off is None else ' OFFSET %d' % off)
        add('SELECT k, m FROM f ORDER BY m DESC NULLS LAST, k' + tail, 'topn', order=[(1, True, False), (0, False, False)], limit=lim, offset=off)
        add('SELECT k, s FROM f ORDER BY s NULLS FIRST, k DESC' + tail, 'topn-str', order=[(1, False, True), (0, True, False)], limit=lim, offset=off)
        add('SELECT k FROM f WHERE g IS NOT NULL ORDER BY k DESC' + tail, 'topn-filter', order=[(0, True, False)], limit=lim, offset=off)
    # Gather
    add('SELECT f.k, d.name FROM f JOIN d ON f.g = d.g', 'gather-join')
    add('SELECT f.k, d.name FROM f LEFT JOIN d ON f.g = d.g', 'gather-leftjoin')
    add('SELECT d.name, COUNT(*) FROM f JOIN d ON f.g = d.g GROUP BY d.name', 'gather-join-agg')
    add('SELECT k FROM f WHERE g IN (SELECT g FROM d)', 'gather-in')
    add('SELECT k FROM f WHERE EXISTS (SELECT 1 FROM d WHERE d.g = f.g)', 'gather-exists')
    add('SELECT k FROM f WHERE m = (SELECT MAX(m) FROM f)', 'gather-scalar')
    add('SELECT DISTINCT g FROM f', 'gather-distinct')
    add('SELECT COUNT(DISTINCT g) FROM f', 'gather-count-distinct')
    add('SELECT g, COUNT(DISTINCT s) FROM f GROUP BY g', 'gather-count-distinct-grouped')
    add('WITH c AS (SELECT g, SUM(m) AS t FROM f GROUP BY g) SELECT g, t FROM c WHERE t > 1', 'gather-cte', approx=True)
    add('SELECT k FROM f WHERE g = 1 UNION ALL SELECT k FROM f WHERE g = 2', 'gather-union')
    add('SELECT g FROM f UNION SELECT g FROM d', 'gather-union-distinct')
    add('SELECT k, ROW_NUMBER() OVER (PARTITION BY g ORDER BY k) AS r FROM f', 'gather-window')
    add('SELECT k, SUM(m) OVER (ORDER BY k) AS r FROM f', 'gather-window-sum', approx=True)
    add('SELECT a.k, b.k FROM f a JOIN f b ON a.g = b.g AND a.k < b.k', 'gather-selfjoin')
    # the fact table on the NULL-supplying / build side of outer, semi and anti joins (alone and inside a nested inner join):
    # sharding it there would emit one NULL-extended row per shard
    add('SELECT d.name, f.k FROM d LEFT JOIN f ON d.g = f.g', 'outer-fact-nullside')
    add('SELECT d.name, COUNT(f.k) AS n, COUNT(*) AS c FROM d LEFT JOIN f ON d.g = f.g GROUP BY d.name', 'outer-fact-nullside-agg')
    add('SELECT d.name, f.k FROM f RIGHT JOIN d ON d.g = f.g', 'right-fact-nullside')
    add('SELECT d.name, f.k FROM d FULL JOIN f ON d.g = f.g', 'full-join')
    add('SELECT d.name, f.k, e.w FROM d LEFT JOIN (f JOIN e ON f.g = e.g) ON d.g = f.g', 'outer-nested-inner')
    add('SELECT d.name, COUNT(*) AS c FROM d LEFT JOIN (f JOIN e ON f.g = e.g) ON d.g = f.g GROUP BY d.name', 'outer-nested-inner-agg')
    add('SELECT d.name, f.k FROM f JOIN e ON f.g = e.g RIGHT JOIN d ON d.g = f.g', 'right-nested-inner')
    add('SELECT d.name, COUNT(*) AS c FROM f JOIN e ON f.g = e.g RIGHT JOIN d ON d.g = f.g GROUP BY d.name', 'right-nested-inner-agg')
    add('SELECT name FROM d WHERE NOT EXISTS (SELECT 1 FROM f WHERE f.g = d.g)', 'anti-fact-inner')
    add('SELECT name FROM d WHERE EXISTS (SELECT 1 FROM f JOIN e ON f.g = e.g WHERE f.g = d.g)', 'semi-nested-inner')
    add('SELECT name FROM d WHERE g NOT IN (SELECT g FROM f WHERE g IS NOT NULL)', 'notin-fact')
    add('SELECT f.k, e.w FROM f LEFT JOIN e ON f.g = e.g', 'outer-fact-preserved')
    add('SELECT e.w, COUNT(*) AS c FROM f LEFT JOIN e ON f.g = e.g GROUP BY e.w', 'outer-fact-preserved-agg')
    return S


def _work(args):
    units, cfgs, prop = args
    out = {'evaluations': 0, 'counts': {}, 'violations': [], 'nontrivial': set(), 'samples': [], 'errors': [], 'shapes': {}}

    def cnt(k, n=1):
        out['counts'][k] = out['counts'].get(k, 0) + n
    try:
        d = sqldiff.get_driver({'name': 'default', 'env': {}})
        for u in units:
            sqldiff.reg_db(d, u['db'])
            dbh = hashlib.sha1(json.dumps(u['db'], sort_keys=True).encode()).digest()[:6]
            for s in u['stmts']:
                base = d.call({'op': 'sql', 'db': 'd', 'sql': s['sql']}, timeout=60)
                for (n, pos) in cfgs:
                    out['evaluations'] += 1
                    r = d.call({'op': 'dist', 'db': 'd', 'sql': s['sql'], 'n': n, 'self_pos': pos}, timeout=60)
                    if not r.get('ok'):
                        if r.get('err') == 'Panic':
                            cnt('violation')
                            out['violations'].append({'property': prop, 'kind': 'dist', 'db': u['db'], 'stmt': s, 'nodes': n, 'self_pos': pos, 'why': 'panic: ' + r.get('msg', '')[:300]})
                        elif not base.get('ok'):
                            cnt('both_fail')
                        else:
                            cnt('refused:' + str(r.get('err')))
                            k = 'refused|' + s['tag']
                            out['shapes'][k] = out['shapes'].get(k, 0) + 1
                        continue
                    k = '%s|%s' % (r.get('shape'), s['tag'])
                    out['shapes'][k] = out['shapes'].get(k, 0) + 1
                    if not base.get('ok'):
                        cnt('violation')
                        out['violations'].append({'property': prop, 'kind': 'dist', 'db': u['db'], 'stmt': s, 'nodes': n, 'self_pos': pos,
                                                  'why': 'distributed answered but the single node fails: %s' % base.get('msg', '')[:200], 'dist_rows': r['rows'][:10]})
                        continue
                    approx = s.get('approx', False)
                    eng = norm_rows(r['rows'], approx)
                    ref = norm_rows(base['rows'], approx)
                    # the reference for LIMIT/OFFSET slices is the single node's answer to the statement WITHOUT the limit
                    if s.get('limit') is not None or s.get('offset') is not None:
                        if s.get('order'):
                            import re
                            full = d.call({'op': 'sql', 'db': 'd', 'sql': re.sub(r'\s+(LIMIT|OFFSET)\s+\d+', '', s['sql'])}, timeout=60)
                            ref = norm_rows(full['rows'], approx) if full.get('ok') else ref
                        else:
                            full = d.call({'op': 'sql', 'db': 'd', 'sql': s['sql'].replace(' LIMIT 3', '')}, timeout=60)
                            ref = norm_rows(full['rows'], approx) if full.get('ok') else ref
                    why = compare_result(eng, ref, s.get('order'), s.get('limit'), s.get('offset'))
                    if why is None and r.get('cols') is not None and base.get('cols') is not None and len(r['cols']) != len(base['cols']):
                        why = 'column count differs'
                    if why is None:
                        cnt('agree')
                        if len(ref) > 0:
                            out['nontrivial'].add(hashlib.sha1(dbh + s['sql'].encode() + bytes([n, pos])).digest()[:8])
                        if len(out['samples']) < 2 and n > 1 and len(ref) > 1:
                            out['samples'].append({'sql': s['sql'], 'nodes': n, 'self_pos': pos, 'shape': r.get('shape'), 'partial_sql': r.get('partial_sql'),
                                                   'final_sql': r.get('final_sql'), 'answer': r['rows'][:5], 'layout': u['layout']})
                    else:
                        cnt('violation')
                        if len(out['violations']) < 6:
                            out['violations'].append({'property': prop, 'kind': 'dist', 'db': u['db'], 'stmt': s, 'nodes': n, 'self_pos': pos, 'why': why, 'shape': r.get('shape'),
                                                      'partial_sql': r.get('partial_sql'), 'final_sql': r.get('final_sql'), 'dist_rows': r['rows'][:20], 'single_rows': base['rows'][:20]})
    except Exception:
        out['errors'].append(traceback.format_exc())
    return out


def build_units(rep, stmts_all):
    quick = rep.tier == 'quick'
    kinds = [[1, 1, F(0.5), 'a'], [2, None, None, None], [3, 2, F(2.0), 'b']]
    facts = [BIG, []] + [[k] for k in kinds] + [[kinds[0], kinds[1]], [kinds[1], kinds[1]], [kinds[0], kinds[2]]]
    if not quick:
        facts += [BIG + [[9, 1, F(8.0), 'z'], [10, None, F(0.25), 'a'], [11, 3, None, None]]]
    layouts = [('1file-rgall', {'rg': 1000}, 1), ('1file-rg1', {'rg': 1}, 1), ('2files-rg3', {'rg': 3}, 2)]
    if not quick:
        layouts += [('3files-rg2', {'rg': 2}, 3), ('2files-rg1', {'rg': 1}, 2), ('1file-rg3', {'rg': 3}, 1)]
    units = []
    for rows in rotate(facts, rep.seed):
        for lname, kw, nfiles in layouts:
            nb = max(1, min(nfiles, len(rows)))
            t = table('f', FCOLS, rows, storage='parquet', nbatches=nb, **kw)
            dtab = table('d', DCOLS, DIM, storage='parquet', rg=2)
            etab = table('e', ECOLS, EXTRA, storage='parquet', rg=10)
            for chunk in sqldiff_chunks(stmts_all, 40):
                units.append({'db': {'tables': [t, dtab, etab]}, 'stmts': chunk, 'layout': lname})
    return units


def sqldiff_chunks(lst, n):
    return [lst[i:i + n] for i in range(0, len(lst), n)]


def run(rep):
    quick = rep.tier == 'quick'
    st = statements()
    cfgs = [(1, 0), (2, 0), (2, 1), (3, 0), (3, 2), (8, 0), (8, 7)] if quick else [(n, p) for n in range(1, 9) for p in sorted({0, n - 1})]
    units = build_units(rep, st)
    rep.rule = ('%d statements covering the Concat / TwoPhase / TopN / Gather shapes and refusals, over a fact table (8-row with NULL and duplicate group keys and a nullable measure, empty, '
                '1-2 row variants) and a dimension table written as Parquet in layouts {1 file, 2 files} x row-group size {1,3,all}; cluster sizes and initiator positions %s; transport = '
                'in-process FragmentTransport calling the real execute_fragment on a second context over the same files; oracle: execute_any_distributed(...) equals ctx.sql(...) on the same '
                'context (sequence where ORDER BY is total, LIMIT-without-ORDER as sub-multiset); a refusal is fine' % (len(st), cfgs))
    workers = min(12, os.cpu_count() or 4)
    tasks = [(units[i:i + 2], cfgs, rep.prop) for i in range(0, len(units), 2)]
    shapes = {}
    with mp.Pool(workers, initializer=sqldiff._init) as pool:
        for out in pool.imap_unordered(_work, tasks):
            rep.evaluations += out['evaluations']
            rep.merge_counts(out['counts'])
            rep.nontrivial |= out['nontrivial']
            for v in out['violations']:
                rep.violation(v)
            for s in out['samples']:
                rep.add_sample(s)
            for e in out['errors']:
                rep.machinery(e)
            for k, n in out['shapes'].items():
                shapes[k] = shapes.get(k, 0) + n
    rep.extra['shape_by_tag'] = shapes


def replay(payload):
    d = drv.Driver()
    try:
        sqldiff.reg_db(d, payload['db'])
        s = payload['stmt']
        print('single:', d.call({'op': 'sql', 'db': 'd', 'sql': s['sql']}))
        print('dist  :', d.call({'op': 'dist', 'db': 'd', 'sql': s['sql'], 'n': payload['nodes'], 'self_pos': payload['self_pos']}))
    finally:
        d.close()
    return 1
