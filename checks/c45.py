"""C45 gathered tables carry every column the statement reads."""
import hashlib, itertools, json, os, re, traceback
import multiprocessing as mp
from vlib import sqldiff, driver as drv
from vlib.compare import norm_rows, compare_result
from vlib.enumr import rotate
from .common import table

LEVEL = 'exploration'

TEMPLATES = [
    ('filter-only', 'SELECT DISTINCT {A}1 FROM {T} WHERE {B}1 > 0'),
    ('join-key-only', 'SELECT {T}.{A}1 AS x, {U}.{A}2 AS y FROM {T} JOIN {U} ON {T}.{B}1 = {U}.{B}2'),
    ('join-residual-only', 'SELECT {T}.{A}1 AS x FROM {T} LEFT JOIN {U} ON {T}.{B}1 = {U}.{B}2 AND {U}.{C}2 > 0'),
    ('in-subquery-only', 'SELECT {A}1 FROM {T} WHERE {A}1 IN (SELECT {B}2 FROM {U} WHERE {C}2 > 0)'),
    ('exists-only', 'SELECT {A}1 FROM {T} WHERE EXISTS (SELECT 1 FROM {U} WHERE {U}.{B}2 = {T}.{B}1 AND {U}.{C}2 = 1)'),
    ('scalar-subquery-only', 'SELECT {A}1, (SELECT MAX({C}2) FROM {U} WHERE {U}.{B}2 = {T}.{B}1) AS s FROM {T}'),
    ('scalar-subquery+distinct', 'SELECT DISTINCT {A}1, (SELECT MAX({C}2) FROM {U} WHERE {U}.{B}2 = {T}.{B}1) AS s FROM {T}'),
    ('scalar-subquery+window', 'SELECT {A}1, (SELECT MAX({C}2) FROM {U} WHERE {U}.{B}2 = {T}.{B}1) AS s, ROW_NUMBER() OVER (ORDER BY {A}1, {D}1) AS r FROM {T}'),
    ('window-only', 'SELECT {A}1, ROW_NUMBER() OVER (PARTITION BY {B}1 ORDER BY {C}1, {A}1) AS r FROM {T}'),
    ('order-by-only', 'SELECT {T}.{A}1 AS x FROM {T} JOIN {U} ON {T}.{A}1 = {U}.{A}2 ORDER BY {T}.{D}1, {T}.{A}1'),
    ('having-only', 'SELECT {B}1, COUNT(DISTINCT {A}1) AS n FROM {T} GROUP BY {B}1 HAVING MAX({C}1) > 0'),
    ('cte-body-only', 'WITH c AS (SELECT {A}1, {B}1 FROM {T} WHERE {C}1 > 0) SELECT c.{A}1 AS x FROM c JOIN {U} ON c.{B}1 = {U}.{B}2'),
    ('set-branch-only', 'SELECT {A}1 FROM {T} WHERE {B}1 = 1 UNION SELECT {A}2 FROM {U} WHERE {C}2 = 1'),
    ('case-only', 'SELECT DISTINCT CASE WHEN {B}1 > 0 THEN {C}1 ELSE {D}1 END AS v FROM {T}'),
    ('agg-arg-only', 'SELECT {T}.{A}1 AS x, COUNT(DISTINCT {U}.{C}2) AS n FROM {T} JOIN {U} ON {T}.{B}1 = {U}.{B}2 GROUP BY {T}.{A}1'),
    # the same table scanned more than once: the gathered column set is the UNION of what every scan reads, whichever scan is planned first and
    # whether or not one of them reads the whole width
    ('self-join-wide-first', 'SELECT x.{A}1 AS p, x.{B}1 AS q, y.{A}1 AS r FROM {T} x JOIN {T} y ON x.{C}1 = y.{C}1 WHERE x.{D}1 > 0'),
    ('self-join-narrow-first', 'SELECT x.{A}1 AS p, x.{B}1 AS q, y.{A}1 AS r FROM {T} y JOIN {T} x ON x.{C}1 = y.{C}1 WHERE x.{D}1 > 0'),
    ('self-join-disjoint-3', 'SELECT x.{A}1 AS p, y.{B}1 AS q, z.{C}1 AS r FROM {T} x JOIN {T} y ON x.{D}1 = y.{D}1 JOIN {T} z ON z.{D}1 = x.{D}1'),
    ('self-join-disjoint-2', 'SELECT x.{A}1 AS p, y.{B}1 AS q FROM {T} x JOIN {T} y ON x.{C}1 = y.{D}1'),
    ('self-union-wide-first', 'SELECT {A}1, {B}1, {C}1 FROM {T} WHERE {D}1 > 0 UNION ALL SELECT {A}1, {B}1, {B}1 FROM {T}'),
    ('self-union-narrow-first', 'SELECT {A}1, {B}1, {B}1 FROM {T} UNION ALL SELECT {A}1, {B}1, {C}1 FROM {T} WHERE {D}1 > 0'),
    ('self-in-wide-outer', 'SELECT {A}1, {B}1, {C}1, {D}1 FROM {T} WHERE {A}1 IN (SELECT {B}1 FROM {T})'),
    ('self-in-wide-inner', 'SELECT {A}1 FROM {T} WHERE {A}1 IN (SELECT {B}1 FROM {T} WHERE {C}1 > 0 AND {D}1 > 0 AND {A}1 > 0)'),
    ('self-exists-wide-outer', 'SELECT x.{A}1, x.{B}1, x.{C}1, x.{D}1 FROM {T} x WHERE EXISTS (SELECT 1 FROM {T} y WHERE y.{B}1 = x.{A}1)'),
    ('self-join-other-table', 'SELECT x.{A}1 AS p, x.{B}1 AS q, x.{C}1 AS r, y.{A}1 AS s, {U}.{A}2 AS u FROM {T} x JOIN {U} ON x.{D}1 = {U}.{B}2 JOIN {T} y ON y.{B}1 = {U}.{B}2'),
]
ORDERS = {'order-by-only': True}


def statements(quick):
    out = []
    tables = ['t1', 't2', 't3']
    perms = list(itertools.permutations('abcd'))
    if quick:
        perms = perms[::3]
    for tag, tpl in TEMPLATES:
        for T, U in itertools.permutations(tables, 2):
            for p in perms:
                A, B, C, Dd = p
                sql = tpl.format(T=T, U=U, A=A, B=B, C=C, D=Dd)
                # column names are <letter><table number>: the templates use suffix 1 for T's columns and 2 for U's
                sql = re.sub(r'\b([abcd])1\b', lambda m: m.group(1) + '#T', sql)
                sql = re.sub(r'\b([abcd])2\b', lambda m: m.group(1) + '#U', sql)
                sql = sql.replace('#T', T[1]).replace('#U', U[1])
                out.append({'sql': sql, 'tag': tag})
    seen, uniq = set(), []
    for st in out:
        if st['sql'] not in seen:
            seen.add(st['sql'])
            uniq.append(st)
    return uniq


def fix_names(sql, T, U):
    return sql


def mentioned(sql):
    m = {}
    for col in set(re.findall(r'\b([abcd][123])\b', sql)):
        m.setdefault('t' + col[1], set()).add(col)
    for t in set(re.findall(r'\b(t[123])\b', sql)):
        m.setdefault(t, set())
    return m


def _work(args):
    db, stmts, cfgs, prop = args
    out = {'evaluations': 0, 'counts': {}, 'violations': [], 'nontrivial': set(), 'errors': [], 'samples': []}

    def cnt(k):
        out['counts'][k] = out['counts'].get(k, 0) + 1
    try:
        d = sqldiff.get_driver({'name': 'default', 'env': {}})
        sqldiff.reg_db(d, db)
        for s in stmts:
            sql = s['sql']
            base = d.call({'op': 'sql', 'db': 'd', 'sql': sql}, timeout=60)
            plan = d.call({'op': 'dist', 'db': 'd', 'sql': sql, 'n': 2, 'gather_plan': True}, timeout=60)
            out['evaluations'] += 1
            probe = d.call({'op': 'dist', 'db': 'd', 'sql': sql, 'n': 2, 'self_pos': 0}, timeout=60)
            takes_gather = (probe.get('ok') and probe.get('shape') == 'Gather') or (not probe.get('ok') and plan.get('ok'))
            if plan.get('ok') and takes_gather:
                want = mentioned(sql)
                got = {t['name']: t['columns'] for t in plan['gather']['tables']}
                why = None
                for t, cols in want.items():
                    if t not in got:
                        why = 'table %s is read by the statement but not gathered' % t
                    elif got[t] is not None and not cols <= set(got[t]):
                        why = 'table %s: gathered columns %s lack %s' % (t, got[t], sorted(cols - set(got[t])))
                if why:
                    cnt('violation')
                    out['violations'].append({'property': prop, 'kind': 'gather-plan', 'db': db, 'stmt': s, 'why': why, 'plan': plan['gather']})
                    continue
                cnt('plan_ok')
                if any(got[t] is not None and len(got[t]) < 4 for t in got):
                    out['nontrivial'].add(hashlib.sha1(sql.encode()).digest()[:8])
            elif not plan.get('ok'):
                cnt('plan_refused:' + str(plan.get('err')))
            else:
                cnt('not_on_gather_path')
            for (n, pos) in cfgs:
                out['evaluations'] += 1
                r = d.call({'op': 'dist', 'db': 'd', 'sql': sql, 'n': n, 'self_pos': pos}, timeout=60)
                if not r.get('ok'):
                    if base.get('ok') and r.get('err') in ('ColumnNotFound', 'Bind', 'Plan', 'Internal') or r.get('err') == 'Panic':
                        cnt('violation')
                        out['violations'].append({'property': prop, 'kind': 'gather-exec', 'db': db, 'stmt': s, 'nodes': n, 'self_pos': pos,
                                                  'why': 'single node answers but the distributed run fails to bind/plan: %s: %s' % (r.get('err'), r.get('msg', '')[:200])})
                    else:
                        cnt('dist_error:' + str(r.get('err')))
                    continue
                if not base.get('ok'):
                    cnt('single_fails')
                    continue
                order = [(0, False, False)] if False else None
                why = compare_result(norm_rows(r['rows'], True), norm_rows(base['rows'], True), None, None, None)
                if why:
                    cnt('violation')
                    if len(out['violations']) < 8:
                        out['violations'].append({'property': prop, 'kind': 'gather-exec', 'db': db, 'stmt': s, 'nodes': n, 'self_pos': pos, 'why': why, 'shape': r.get('shape'),
                                                  'dist_rows': r['rows'][:12], 'single_rows': base['rows'][:12]})
                else:
                    cnt('agree:' + str(r.get('shape')))
                    if len(out['samples']) < 1 and r.get('shape') == 'Gather':
                        out['samples'].append({'sql': sql, 'nodes': n, 'gathered': plan.get('gather', {}).get('tables') if plan.get('ok') else None, 'rows': r['rows'][:4]})
    except Exception:
        out['errors'].append(traceback.format_exc())
    return out


def run(rep):
    quick = rep.tier == 'quick'
    rows = {1: [[1, 1, 1, 5], [2, 1, 0, 6], [3, 2, 1, None], [None, None, 2, 7], [5, 3, -1, 8]],
            2: [[1, 1, 1, 1], [2, 2, 0, 2], [2, 1, 3, None], [None, 3, 1, 4]],
            3: [[1, 2, 1, 9], [3, 1, 1, 8], [4, None, 0, 7]]}
    tabs = []
    for i in (1, 2, 3):
        cols = [['%s%d' % (c, i), 'int64'] for c in 'abcd']
        tabs.append(table('t%d' % i, cols, rows[i], storage='parquet', rg=2, nbatches=2))
    db = {'tables': tabs}
    st = rotate(statements(quick), rep.seed)
    cfgs = [(2, 0), (3, 2)] if quick else [(2, 0), (2, 1), (3, 0), (3, 2), (5, 0)]
    rep.rule = ('%d statements: %d templates (a column read ONLY in a filter / join key / join residual / IN, EXISTS or scalar subquery / window / ORDER BY / HAVING / CTE body / set-operation '
                'branch / CASE / aggregate argument; the same table scanned two or three times by self-joins, UNION ALL branches and IN/EXISTS subqueries with the whole-width scan first or last) x every ordered pair of 3 four-column tables x %d permutations of the column letters, so every (position, table, column) triple occurs; '
                'oracle: plan_gather(sql).tables[*].columns is a superset of the columns the statement mentions for that table, and execute_any_distributed over clusters %s equals ctx.sql; '
                'non-trivial = a plan that narrows at least one table' % (len(st), len(TEMPLATES), 8 if quick else 24, cfgs))
    tasks = [(db, st[i:i + 25], cfgs, rep.prop) for i in range(0, len(st), 25)]
    with mp.Pool(min(12, os.cpu_count() or 4), initializer=sqldiff._init) as pool:
        for out in pool.imap_unordered(_work, tasks):
            rep.evaluations += out['evaluations']
            rep.merge_counts(out['counts'])
            rep.nontrivial |= out['nontrivial']
            for v in out['violations']:
                rep.violation(v)
            for s in out['samples']:
                rep.add_sample(s)
            for e in out['errors']:
                rep.machinery(e)


def replay(payload):
    d = drv.Driver()
    try:
        sqldiff.reg_db(d, payload['db'])
        sql = payload['stmt']['sql']
        print('single:', d.call({'op': 'sql', 'db': 'd', 'sql': sql}))
        print('plan  :', d.call({'op': 'dist', 'db': 'd', 'sql': sql, 'n': 2, 'gather_plan': True}))
        print('dist  :', d.call({'op': 'dist', 'db': 'd', 'sql': sql, 'n': payload.get('nodes', 2), 'self_pos': payload.get('self_pos', 0)}))
    finally:
        d.close()
    return 1
