"""C44 VALUES lists produce their rows."""
import itertools
from vlib import sqldiff
from vlib.enumr import rotate
from .common import table, sql_lit, chunks, D, F

LEVEL = 'exploration'

DOMS = {
    'int': [None, 1, -2],
    'dbl': [None, F(0.5)],
    'str': [None, 'a', ''],
    'bool': [None, True],
    'date': [None, D('2024-02-29')],
    # one column, several literal kinds: the column has the common type of its cells (int + double = double) and keeps every value
    'num': [None, 1, F(1.5), -2],
    # no common SQL type: an explicit error is fine, a value that is not the listed one (in either spelling) is not
    'intstr': [None, 1, 'a'],
}
MIXED = {'num', 'intstr'}


def run(rep):
    quick = rep.tier == 'quick'
    maxrows = 2 if quick else 3
    typecombos = [(t,) for t in DOMS] + [('int', 'str'), ('int', 'int'), ('str', 'dbl'), ('date', 'bool'), ('num', 'str')]
    if not quick:
        typecombos += [('int', 'str', 'dbl'), ('int', 'int', 'int'), ('bool', 'date', 'str'), ('num', 'num'), ('str', 'intstr')]
    lists = []
    for tc in typecombos:
        rowdom = list(itertools.product(*[DOMS[t] for t in tc]))
        for n in range(1, maxrows + 1):
            for rows in itertools.product(rowdom, repeat=n):
                # a column that is NULL in every row has no type: skip (typing of untyped NULL columns is not in the alphabet)
                if any(all(r[c] is None for r in rows) for c in range(len(tc))):
                    continue
                # first row decides the type in many engines: require a non-NULL in row 0 too? no: keep all
                lists.append((tc, [list(r) for r in rows]))
    lists = rotate(lists, rep.seed)
    db = {'tables': [table('t', [['a', 'int64'], ['s', 'utf8']], [[1, 'a'], [None, ''], [-2, None], [1, 'b']])]}
    st = []
    for tc, rows in lists:
        body = ', '.join('(' + ', '.join(sql_lit(v) for v in r) + ')' for r in rows)
        vals = 'VALUES ' + body
        nc = len(tc)
        if 'intstr' in tc:
            # ill-typed in standard SQL: only the bare and derived forms, compared textually, errors accepted
            st.append({'sql': vals, 'expect_rows': rows, 'tag': 'bare-untypable', 'textual': True, 'nontrivial': True})
            st.append({'sql': 'SELECT * FROM (%s) AS v' % vals, 'expect_rows': rows, 'tag': 'derived-untypable', 'textual': True, 'nontrivial': True})
            continue
        names = ['x', 'y', 'z'][:nc]
        alias = 'v(%s)' % ', '.join(names)
        cte = 'WITH v(%s) AS (%s) ' % (', '.join(names), vals)
        st.append({'sql': vals, 'expect_rows': rows, 'tag': 'bare', 'strict': True, 'nontrivial': True})
        st.append({'sql': 'SELECT * FROM (%s) %s' % (vals, alias), 'expect_rows': rows, 'tag': 'derived', 'strict': True, 'nontrivial': True})
        st.append({'sql': 'SELECT * FROM (%s) AS v' % vals, 'expect_rows': rows, 'tag': 'derived-noalias', 'strict': True, 'nontrivial': True})
        cnames = ['column%d' % i for i in range(nc)]
        cte0 = 'WITH v(%s) AS (%s) ' % (', '.join(cnames), vals)
        # engine-native column names (column0..): promised to work
        st.append({'sql': 'SELECT COUNT(*), COUNT(column0) FROM (%s) v' % vals, 'ref': cte0 + 'SELECT COUNT(*), COUNT(column0) FROM v',
                   'tag': 'aggregate', 'strict': True})
        st.append({'sql': 'SELECT column0 FROM (%s) v WHERE column0 IS NOT NULL ORDER BY column0' % vals,
                   'ref': cte0 + 'SELECT column0 FROM v WHERE column0 IS NOT NULL', 'order': [(0, False, False)], 'tag': 'where+order', 'strict': True})
        # column alias lists: may be refused (any error), never wrong rows
        st.append({'sql': 'SELECT COUNT(*), COUNT(x) FROM (%s) %s' % (vals, alias), 'ref': cte + 'SELECT COUNT(*), COUNT(x) FROM v',
                   'tag': 'aggregate-aliased'})
        st.append({'sql': 'SELECT x FROM (%s) %s WHERE x IS NOT NULL ORDER BY x' % (vals, alias),
                   'ref': cte + 'SELECT x FROM v WHERE x IS NOT NULL', 'order': [(0, False, False)], 'tag': 'where+order-aliased'})
        st.append({'sql': '%s UNION ALL %s' % (vals, vals), 'expect_rows': rows + rows, 'tag': 'union', 'nontrivial': True})
        if tc[0] == 'int':
            st.append({'sql': 'SELECT t.a, v.column0 FROM t JOIN (%s) v ON t.a = v.column0' % vals,
                       'ref': cte0 + 'SELECT t.a, v.column0 FROM t JOIN v ON t.a = v.column0', 'tag': 'join'})
            if nc == 1:
                st.append({'sql': 'SELECT a FROM t WHERE a IN (%s)' % vals, 'tag': 'in-values'})
                st.append({'sql': 'SELECT a FROM t UNION ALL %s' % vals, 'expect_rows': [[1], [None], [-2], [1]] + rows, 'tag': 'union-table',
                           'nontrivial': True})
    units = [{'db': db, 'stmts': c} for c in chunks(st, 120)]
    rep.rule = ('all VALUES lists with 1..%d rows x 1..%d columns over per-column typed literal domains (int, double, string, boolean, date, each with NULL, plus a column mixing integer and decimal literals and one mixing integers and strings; '
                'no all-NULL column), used bare / as a derived table (with and without column aliases) / under aggregate, WHERE+ORDER BY, UNION ALL, JOIN, IN; '
                'oracle = the listed rows (SQLite for the composed forms); an Execution/Internal error on the bare/derived forms is a violation'
                % (maxrows, 2 if quick else 3))
    rep.extra['values_lists'] = len(lists)
    sqldiff.run(rep, units)


def replay(payload):
    return sqldiff.replay(payload)
