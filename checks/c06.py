"""C06 compiled predicates are indistinguishable from the interpreter."""
import hashlib, itertools, json
from vlib import native, sqldiff, driver as drv
from vlib.compare import norm_rows, multiset_eq
from .common import table, D, F

LEVEL = 'exploration'
PACKAGES = ('qe-driver', 'qe-native')

COLS = [['id', 'int64'], ['f', 'float64'], ['g', 'float64'], ['i', 'int64'], ['k', 'int32'], ['d', 'date32']]
FV = [None, F('NaN'), F('-inf'), F('-0.0'), F('0.0'), F('0.5'), F('inf')]
IV = [None, -1, 0, 1]
KV = [None, 0, 1]
DV = [None, D('2022-01-08'), D('2022-01-09')]


def rows():
    out = []
    for n, (f, g, i, k, d) in enumerate(itertools.product(FV, FV, IV, KV, DV)):
        out.append([n, f, g, i, k, d])
    return out


def predicates(quick):
    leaves = []
    for op in ('=', '<>', '<', '<=', '>', '>='):
        leaves += ['f %s g' % op, 'f %s 0.5' % op, 'f %s 0.0' % op, '0.0 %s g' % op, 'f * g %s 0.5' % op, 'f + g %s f' % op, 'f / g %s 0.0' % op, 'i %s 0' % op, '1 %s i' % op,
                   "d %s DATE '2022-01-08'" % op, 'f - g %s g' % op]
    leaves += ['f BETWEEN 0.0 AND 0.5', 'f NOT BETWEEN -1.0 AND 0.0', 'g BETWEEN f AND 0.5', 'i BETWEEN 0 AND 1', "d BETWEEN DATE '2022-01-08' AND DATE '2022-01-08'"]
    P = list(leaves) + ['NOT (%s)' % l for l in leaves]
    rhs = leaves[::7] if quick else leaves[::2]
    for a in leaves:
        for b in rhs:
            P.append('(%s) AND (%s)' % (a, b))
            P.append('(%s) OR (%s)' % (a, b))
            if not quick:
                P.append('NOT ((%s) AND (%s))' % (a, b))
    return P


def run(rep):
    quick = rep.tier == 'quick'
    rep.rule = ('(mask level, qe-native c06) every expression of the compiled subset to depth 2 (quick: second operand every 9th leaf; thorough: all pairs) and a depth-3 family, over 210 (quick) / 400+ leaves: '
                'same-type comparisons on Float64/Int64/Int32/Date32 columns and literals on either side, f64 arithmetic (+ - * /, depth <= 2) inside comparisons, CAST, [NOT] BETWEEN; AND/OR/NOT; '
                'evaluated on a universal batch of 5292 rows (f,g in {NULL,NaN,-inf,-0.0,0.0,0.5,inf}^2 x int64 x int32 x date32 domains with NULL), the same rows with every NULL removed and no validity buffer, '
                'and slices of length {0,1,2,1023,1024,1025,2049} at offsets {0,1,7}: CompiledPredicate::evaluate must equal evaluate_expr in validity and, where valid, in value. '
                '(query level) SELECT id FROM t WHERE p for the same leaf grammar in SQL over the universal table in memory (1 and 3 batches) and as Parquet: QE_COMPILE=0 and default drivers return the same ids')
    native.run(rep, 'c06')
    # query level
    R = rows()
    n = len(R)
    P = predicates(quick)
    layouts = [('mem1', {}), ('mem3', {'batches': [1, 1025, n - 1026]}), ('parquet', {'storage': 'parquet', 'rg': 1024})]
    on = drv.Driver(env={})
    off = drv.Driver(env={'QE_COMPILE': '0'})
    try:
        for lname, kw in layouts:
            db = {'tables': [table('t', COLS, R, **kw)]}
            sqldiff.reg_db(on, db)
            sqldiff.reg_db(off, db)
            for p in P:
                sql = 'SELECT id FROM t WHERE ' + p
                a = on.call({'op': 'sql', 'db': 'd', 'sql': sql}, timeout=60)
                b = off.call({'op': 'sql', 'db': 'd', 'sql': sql}, timeout=60)
                rep.evaluations += 1
                if not a.get('ok') or not b.get('ok'):
                    if a.get('ok') != b.get('ok'):
                        rep.violation({'property': 'C06', 'kind': 'query', 'sql': sql, 'layout': lname, 'why': 'one mode fails: compiled %s / interpreted %s' % (a.get('msg', 'ok'), b.get('msg', 'ok'))})
                    else:
                        rep.count('both_refuse')
                    continue
                ra, rb = sorted(x[0] for x in a['rows']), sorted(x[0] for x in b['rows'])
                if ra != rb:
                    extra = sorted(set(ra) ^ set(rb))[:5]
                    rep.violation({'property': 'C06', 'kind': 'query', 'sql': sql, 'layout': lname, 'why': 'row ids differ between QE_COMPILE default and 0',
                                   'differing_rows': [R[i] for i in extra], 'compiled_count': len(ra), 'interpreted_count': len(rb)})
                else:
                    rep.count('query_agree')
                    if 0 < len(ra) < n:
                        rep.nontrivial.add(hashlib.sha1((lname + sql).encode()).digest()[:8])
    finally:
        on.close()
        off.close()


def replay(payload):
    if payload.get('kind') == 'query':
        R = rows()
        for env in ({}, {'QE_COMPILE': '0'}):
            d = drv.Driver(env=env)
            try:
                sqldiff.reg_db(d, {'tables': [table('t', COLS, R)]})
                r = d.call({'op': 'sql', 'db': 'd', 'sql': payload['sql']})
                print(env, len(r.get('rows', [])), r.get('msg'))
            finally:
                d.close()
        return 1
    return native.replay_generic(payload)
