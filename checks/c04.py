"""C04 storage layout and fast-path choice never change an answer."""
import hashlib, json, os, re, traceback
import multiprocessing as mp
from vlib import sqldiff, driver as drv
from vlib.compare import norm_rows, compare_result
from vlib.enumr import multisets, compositions, rotate
from .common import table, D, F

LEVEL = 'exploration'

COLS = [['k', 'int64'], ['g', 'int32'], ['v', 'float64'], ['s', 'utf8'], ['d', 'date32']]
KINDS = [[1, 1, F(0.5), 'a', D('2024-01-01')], [1, 2, F(2.0), None, D('2024-01-02')], [2, 1, None, 'b', None], [None, 2, F(1.5), 'a', D('2024-01-01')],
         [None, None, None, None, None], [5, 1, F(-0.5), 'abcdefgh1', D('2023-12-31')], [9, 2, F(4.0), 'abcdefgh2', D('2024-01-02')]]
RICH = [KINDS[i % 7][:] for i in range(12)]
for i, r in enumerate(RICH):
    if r[0] is not None:
        r[0] = r[0] + (i // 7) * 10
WIDE = [[-9223372036854775808, -2147483648, F(0.5), 'a', D('1970-01-01')], [9223372036854775807, 2147483647, F(2.0), 'b', D('2024-01-02')], [5, 1, None, 'b', D('2024-01-02')],
        [-1, 0, F(1.5), None, D('0001-01-01')], [9223372036854775807, 2, F(-1.0), 'a', None]]
MEMT = [[9223372036854775807, 'max'], [-9223372036854775808, 'min'], [1, 'one'], [2, 'two'], [None, 'nil'], [5, 'five']]


def statements():
    S = []

    def add(sql, tag, order=None, limit=None, approx=False):
        st = {'sql': sql, 'tag': tag, 'order': order, 'limit': limit, 'approx': approx}
        if limit is not None:
            st['full'] = re.sub(r' LIMIT \d+$', '', sql)
        S.append(st)
    add('SELECT k, g, v, s, d FROM p', 'scan')
    add('SELECT k, s FROM p WHERE k > 1', 'scan-filter-int')
    add("SELECT k, v FROM p WHERE s = 'a' AND v < 2.0", 'scan-filter-str-dbl')
    add("SELECT k FROM p WHERE d >= DATE '2024-01-01' AND g = 1", 'scan-filter-date')
    add('SELECT k FROM p WHERE k IS NULL OR s IS NULL', 'scan-filter-null')
    add('SELECT k FROM p WHERE k = 1 OR k = 9', 'scan-filter-or')
    add('SELECT k FROM p WHERE k > 100', 'scan-filter-prunes-all')
    add('SELECT COUNT(*), COUNT(k), SUM(v), MIN(s), MAX(d), AVG(v) FROM p', 'global-agg', approx=True)
    add('SELECT COUNT(*) FROM p WHERE k > 1', 'global-agg-filter')
    for key in ('k', 'g', 's', 'd'):
        add('SELECT %s, COUNT(*) AS c, SUM(v) AS sv, MIN(v) AS mn, MAX(s) AS mx FROM p GROUP BY %s' % (key, key), 'group-' + key)
        add('SELECT %s, SUM(v) AS sv FROM p GROUP BY %s' % (key, key), 'group-sum-' + key)
        add('SELECT %s, COUNT(*) AS c FROM p GROUP BY %s' % (key, key), 'group-count-' + key)
        add('SELECT %s, AVG(v) AS a FROM p WHERE v IS NOT NULL GROUP BY %s' % (key, key), 'group-avg-' + key, approx=True)
    add('SELECT k, g, COUNT(*) AS c FROM p GROUP BY k, g', 'group-two-int-keys')
    add('SELECT s, d, COUNT(*) AS c, SUM(v) AS sv FROM p GROUP BY s, d', 'group-str-date')
    add('SELECT DISTINCT s FROM p', 'distinct')
    add('SELECT COUNT(DISTINCT k), COUNT(DISTINCT s) FROM p', 'count-distinct')
    add('SELECT p.k, m.name FROM p JOIN m ON p.k = m.k', 'join-mem')
    add('SELECT p.k, m.name FROM p LEFT JOIN m ON p.k = m.k', 'leftjoin-mem')
    add('SELECT m.name, COUNT(*) AS c, SUM(p.v) AS sv FROM p JOIN m ON p.k = m.k GROUP BY m.name', 'join-mem-agg')
    add('SELECT p.k, COUNT(*) AS c, SUM(p.v) AS sv FROM p JOIN m ON p.k = m.k GROUP BY p.k', 'join-mem-agg-int-key')
    add('SELECT p.g, COUNT(*) AS c, MIN(p.s) AS ms FROM p LEFT JOIN m ON p.k = m.k GROUP BY p.g', 'leftjoin-mem-agg')
    add('SELECT k, COUNT(*) AS c FROM p GROUP BY k HAVING COUNT(*) > 1', 'group-having')
    add('SELECT g, SUM(v) AS sv FROM p WHERE k IS NOT NULL GROUP BY g HAVING SUM(v) > 1.0', 'group-filter-having')
    add('SELECT k + g AS e, COUNT(*) AS c FROM p GROUP BY k + g', 'group-expr')
    add('SELECT m.name, p.k FROM m JOIN p ON p.k = m.k', 'join-mem-probe-parquet')
    add('SELECT p.k FROM p JOIN m ON p.k = m.k WHERE p.k > 3 AND p.k < 100', 'join-band-filter')
    add('SELECT p.k FROM p JOIN m ON p.k = m.k WHERE p.g > 0 AND p.g < 100 AND p.k <> 7', 'join-band-filter-int32')
    add('SELECT k FROM p WHERE NOT (2 > k)', 'scan-filter-not-literal-left')
    add('SELECT COUNT(*), SUM(g) FROM p WHERE 2 > k OR g = 1', 'agg-filter-or-literal-left')
    add('SELECT k FROM p WHERE NOT (k >= 2 AND g <= 1)', 'scan-filter-not-and')
    add("SELECT COUNT(*) FROM p WHERE NOT (DATE '2024-01-02' <= d) OR k = 9", 'agg-filter-not-date-literal-left')
    add('SELECT a.k, b.s FROM p a JOIN p b ON a.k = b.k', 'self-join')
    add('SELECT a.k, COUNT(*) AS c FROM p a JOIN p b ON a.g = b.g GROUP BY a.k', 'self-join-agg')
    add('SELECT k FROM p WHERE k IN (SELECT k FROM p WHERE g = 1)', 'self-semi')
    add('SELECT k, v FROM p ORDER BY v DESC NULLS LAST, k NULLS FIRST LIMIT 3', 'order-limit', order=[(1, True, False), (0, False, True)], limit=3)
    add('SELECT k, s FROM p ORDER BY s NULLS FIRST, k NULLS LAST', 'order', order=[(1, False, True), (0, False, False)])
    add('SELECT k FROM p LIMIT 2', 'limit', limit=2)
    return S


def layouts(n, quick):
    """(name, table kwargs) for a table of n rows."""
    out = []
    if n == 0:
        return [('1file', {'storage': 'parquet', 'rg': 1000})]
    comps = [c for c in compositions(n, 3)] if n <= 4 else [[n], [n // 2, n - n // 2], [n // 3, n // 3, n - 2 * (n // 3)]]
    for c in comps:
        for rg in ([1, 1000] if quick else [1, 2, 1000]):
            out.append(('%dfiles-rg%d' % (len(c), rg), {'storage': 'parquet', 'rg': rg, 'batches': c}))
    return out


SWITCHES = [
    ('default', {}, {}),
    ('morsel-off', {'QE_MORSEL': '0'}, {}),
    ('filtered-streaming-scan', {}, {'force_streaming': 1}),
    ('no-shared-prescan', {}, {'prescan_max': 0}),
    ('streaming+no-prescan+morsel-off', {'QE_MORSEL': '0'}, {'force_streaming': 1, 'prescan_max': 0}),
    ('dense-range-disjoint', {}, {'dense_range_min': 1}),
    ('morsel-off+dense-range-disjoint', {'QE_MORSEL': '0'}, {'dense_range_min': 1, 'force_streaming': 1}),
    ('ipc-cache-build', {'QE_IPC_CACHE': '1'}, {}),
    ('ipc-cache-off', {'QE_IPC_CACHE': '0'}, {}),
]
CLEAR = {'force_streaming': None, 'prescan_max': None, 'dense_range_min': None}


KNOWN_ID = 'uniqueness_inferred_from_min_max_range'
PROD_MINUS = ['ConstantFolding', 'DeriveOrPredicates', 'PredicatePushdown', 'FlattenDependentJoin', 'SubqueryDecorrelation', 'SemiJoinPushdown', 'JoinReorder', 'PredicatePushdown',
              'HavingTotalCse', 'PackedGroupKeys', 'PackedJoinKeys', 'ProjectionPushdown', 'VectorSearchPushdown']


def _uniqueness_finding(d, s, base, rows):
    """the listed finding, and only it: the statement groups, some column of p holds a duplicate value although footer statistics make it look unique
    (null-free, max-min+1 >= rows or per-row-group dictionary sizes adding up to the row count), and the production pipeline WITHOUT the two rules that trust
    that inference (GroupKeyReduction, EagerAggregation) returns the memory answer on this very layout."""
    if 'GROUP BY' not in s['sql']:
        return False
    dup = False
    for c in range(len(COLS)):
        vals = [json.dumps(r[c]) for r in rows]
        if None not in [r[c] for r in rows] and len(set(vals)) < len(vals):
            dup = True
    if not dup:
        return False
    r = d.call({'op': 'sql', 'db': 'd', 'sql': s['sql'], 'mode': 'rules', 'rules': PROD_MINUS}, timeout=60)
    if not r.get('ok'):
        return False
    full = base[s.get('full', s['sql'])]
    return compare_result(norm_rows(r['rows'], s.get('approx', False)), norm_rows(full['rows'], s.get('approx', False)), s.get('order'), s.get('limit'), None) is None


def _work(args):
    prop, rows, lays, switches, stmts, known = args
    out = {'known': [], 'evaluations': 0, 'counts': {}, 'violations': [], 'nontrivial': set(), 'samples': [], 'errors': [], 'plans': {}}

    def cnt(k, n=1):
        out['counts'][k] = out['counts'].get(k, 0) + n
    try:
        mem = sqldiff.get_driver({'name': 'default', 'env': {}})
        memdb = {'tables': [table('p', COLS, rows), table('m', [['k', 'int64'], ['name', 'utf8']], MEMT)]}
        sqldiff.reg_db(mem, memdb, 'base')
        base = {}
        for s in stmts:
            for q in {s['sql'], s.get('full', s['sql'])}:
                base[q] = mem.call({'op': 'sql', 'db': 'base', 'sql': q}, timeout=60)
        mem.call({'op': 'dropdb', 'db': 'base'})
        for lname, kw in lays:
            db = {'tables': [table('p', COLS, rows, **kw), table('m', [['k', 'int64'], ['name', 'utf8']], MEMT)]}
            for swname, env, hooks in switches:
                d = sqldiff.get_driver({'name': swname, 'env': env})
                try:
                    sqldiff.reg_db(d, db)
                    d.call(dict({'op': 'hooks'}, **CLEAR))
                    if hooks:
                        d.call(dict({'op': 'hooks'}, **hooks))
                    for i, s in enumerate(stmts):
                        out['evaluations'] += 1
                        r = d.call({'op': 'sql', 'db': 'd', 'sql': s['sql'], 'plan': True}, timeout=60)
                        b = base[s['sql']]
                        if r.get('plan'):
                            pk = swname + ': ' + '>'.join(r['plan'])
                            out['plans'][pk] = out['plans'].get(pk, 0) + 1
                        why = None
                        if not b.get('ok') or not base[s.get('full', s['sql'])].get('ok'):
                            cnt('baseline_refuses')
                            continue
                        if not r.get('ok'):
                            why = 'the memory layout answers but this layout fails: %s: %s' % (r.get('err'), r.get('msg', '')[:200])
                        else:
                            approx = s.get('approx', False)
                            full = base[s.get('full', s['sql'])]
                            why = compare_result(norm_rows(r['rows'], approx), norm_rows(full['rows'], approx), s.get('order'), s.get('limit'), None)
                        if why and KNOWN_ID in known and _uniqueness_finding(d, s, base, rows):
                            cnt('known:' + KNOWN_ID)
                            if not out['known']:
                                out['known'].append({'sql': s['sql'], 'layout': lname, 'switch': swname, 'rows': rows[:12], 'layout_rows': (r.get('rows') or [])[:8], 'memory_rows': b['rows'][:8]})
                            continue
                        if why:
                            cnt('violation')
                            if len(out['violations']) < 10:
                                out['violations'].append({'property': prop, 'kind': 'layout', 'db': db, 'stmt': s, 'layout': lname, 'switch': swname, 'env': env, 'hooks': hooks, 'why': why,
                                                          'layout_rows': (r.get('rows') or [])[:16], 'memory_rows': b['rows'][:16], 'plan': r.get('plan')})
                        else:
                            cnt('agree')
                            if b['rows']:
                                out['nontrivial'].add(hashlib.sha1(json.dumps([rows, lname, swname, s['sql']], sort_keys=True).encode()).digest()[:8])
                            if len(out['samples']) < 1 and b['rows'] and swname != 'default':
                                out['samples'].append({'sql': s['sql'], 'layout': lname, 'switch': swname, 'rows': len(rows), 'plan': r.get('plan')})
                finally:
                    try:
                        d.call(dict({'op': 'hooks'}, **CLEAR))
                    except Exception:
                        pass
    except Exception:
        out['errors'].append(traceback.format_exc())
    return out


def run(rep):
    quick = rep.tier == 'quick'
    st = statements()
    contents = [list(m) for m in multisets(KINDS, 2 if quick else 3, 0)]
    contents = rotate(contents, rep.seed)
    contents.append(RICH)
    # null-free tables whose keys repeat although their value range is at least as wide as the row count
    contents.append([KINDS[0], KINDS[1], KINDS[5]])
    contents.append([KINDS[0], KINDS[1], KINDS[5], KINDS[6], KINDS[6]])
    # key domains as wide as the type: range arithmetic on statistics and key domains must not overflow
    contents.append(WIDE)
    contents.append(WIDE[:2])
    if not quick:
        contents.append(RICH * 30)       # 360 rows
        contents.append(RICH * 2500)     # 30,000 rows: row-count gates open without hooks
    tasks = []
    from vlib.report import known_ids
    known = set(known_ids(rep.prop))
    for rows in contents:
        lays = layouts(len(rows), quick)
        sw = SWITCHES if len(rows) <= 400 else SWITCHES[:5]
        for i in range(0, len(lays), 3):
            tasks.append((rep.prop, rows, lays[i:i + 3], sw, st, known))
    rep.rule = ('table contents: every multiset of 0..%d rows over 7 row kinds (NULL keys, duplicate keys, strings sharing an 8-byte prefix, dates) plus a 12-row table%s; layouts: memory (baseline) vs Parquet '
                'in every composition of the rows into 1..3 files x row-group size {1%s,all}; switches: default, QE_MORSEL=0, forced streaming scan + no shared prescan (hook H1), dense-range disjoint '
                'aggregation (hook H2), QE_IPC_CACHE=1 (sidecars built) and =0; %d statements (scans with pushed filters, global and grouped aggregates on nullable int / int32 / string / date keys, '
                'joins with a memory table, self-joins, ORDER BY/LIMIT); oracle: every layout/switch returns the memory answer and never fails where memory succeeds'
                % (2 if quick else 3, '' if quick else ', x30 and x2500 replicas', '' if quick else ',2', len(st)))
    plans = {}
    with mp.Pool(min(10, os.cpu_count() or 4), initializer=sqldiff._init) as pool:
        for out in pool.imap_unordered(_work, tasks):
            rep.evaluations += out['evaluations']
            rep.merge_counts(out['counts'])
            rep.nontrivial |= out['nontrivial']
            for v in out['violations']:
                rep.violation(v)
            for k in out['known']:
                rep.known_hit(KNOWN_ID, k)
            for s in out['samples']:
                rep.add_sample(s)
            for e in out['errors']:
                rep.machinery(e)
            for k, n in out['plans'].items():
                plans[k] = plans.get(k, 0) + n
    rep.extra['plans_observed'] = dict(sorted(plans.items(), key=lambda kv: -kv[1])[:80])


def replay(payload):
    d = drv.Driver(env=payload.get('env', {}))
    try:
        sqldiff.reg_db(d, payload['db'])
        if payload.get('hooks'):
            d.call(dict({'op': 'hooks'}, **payload['hooks']))
        print(d.call({'op': 'sql', 'db': 'd', 'sql': payload['stmt']['sql'], 'plan': True}))
        print('memory rows:', payload.get('memory_rows'))
    finally:
        d.close()
    return 1
