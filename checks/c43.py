"""C43 exact vector search is the literal ORDER BY ... LIMIT."""
import hashlib, itertools, json, os, traceback
import multiprocessing as mp
from vlib import sqldiff, driver as drv
from vlib.compare import norm_rows, compare_result
from vlib.enumr import multisets
from .common import table

LEVEL = 'exploration'

COLS = [['id', 'int64'], ['v', 'vec2'], ['c', 'utf8']]
VECS = [[1.0, 0.0], [0.0, 2.0], [1.0, 1.0], [-1.0, 2.0], [0.0, 0.0], None, [2.0, 0.0], [1.0, 0.0]]
QUERIES = ['ARRAY[1.0, 0.0]', 'ARRAY[1.0, 1.0]', 'ARRAY[0.0, 0.0]', '[-1.0, 2.0]']
METRICS = [('l2_distance', False), ('cosine_distance', False), ('dot_product', True), ('cosine_similarity', True)]   # (name, nearest-first is DESC)
PROD_MINUS_VS = ['ConstantFolding', 'DeriveOrPredicates', 'PredicatePushdown', 'FlattenDependentJoin', 'SubqueryDecorrelation', 'SemiJoinPushdown', 'JoinReorder', 'PredicatePushdown',
                 'HavingTotalCse', 'GroupKeyReduction', 'EagerAggregation', 'PackedGroupKeys', 'PackedJoinKeys', 'ProjectionPushdown']


def statements(quick):
    S = []
    ks = [1, 2, 100] if quick else [1, 2, 3, 5, 100]
    queries = QUERIES[:1] + QUERIES[2:] if quick else QUERIES
    offs = [None, 1] if quick else [None, 1, 2]
    for (m, near_desc), q in itertools.product(METRICS, queries):
        call = '%s(v, %s)' % (m, q)
        near = 'DESC' if near_desc else 'ASC'
        far = 'ASC' if near_desc else 'DESC'
        for k in ks:
            for off in offs:
                lim = 'LIMIT %d' % k + (' OFFSET %d' % off if off else '')
                base = dict(metric=m, q=q, k=k, off=off or 0, where=None)
                # canonical shapes
                S.append(dict(base, sql='SELECT id, v FROM t ORDER BY %s %s %s' % (call, near if near_desc else '', lim), desc=near_desc, nf=False, canonical=True, tag='canonical'))
                if k == 2:
                    S.append(dict(base, sql='SELECT id FROM t ORDER BY %s %s %s' % (call, near, lim), desc=near_desc, nf=False, canonical=True, tag='canonical-vector-not-selected'))
                    S.append(dict(base, sql='SELECT c AS cc, id AS i2 FROM t ORDER BY %s %s NULLS LAST %s' % (call, near, lim), desc=near_desc, nf=False, canonical=True, tag='canonical-aliases-nulls-last', idcol=1))
                    S.append(dict(base, sql='SELECT id, v FROM t ORDER BY %s(%s, v) %s %s' % (m, q, near, lim), desc=near_desc, nf=False, canonical=True, tag='canonical-literal-first'))
                    S.append(dict(base, sql="SELECT id FROM t WHERE c = 'a' ORDER BY %s %s %s" % (call, near, lim), desc=near_desc, nf=False, canonical=True, tag='canonical-pushed-filter', where="c = 'a'"))
                    # shapes the rewrite must leave alone
                    S.append(dict(base, sql='SELECT id, v FROM t ORDER BY %s %s %s' % (call, far, lim), desc=not near_desc, nf=False, canonical=False, tag='furthest-first'))
                    S.append(dict(base, sql='SELECT id, v FROM t ORDER BY %s %s NULLS FIRST %s' % (call, near, lim), desc=near_desc, nf=True, canonical=False, tag='nulls-first'))
                    S.append(dict(base, sql='SELECT id, v FROM t ORDER BY %s %s, id %s' % (call, near, lim), desc=near_desc, nf=False, canonical=False, tag='two-sort-keys', second_id=True))
                    S.append(dict(base, sql='SELECT id + 0 AS id, v FROM t ORDER BY %s %s %s' % (call, near, lim), desc=near_desc, nf=False, canonical=False, tag='computed-projection'))
                    S.append(dict(base, sql='SELECT id, %s AS dist FROM t ORDER BY dist %s %s' % (call, near, lim), desc=near_desc, nf=False, canonical=None, tag='order-by-alias'))
                    S.append(dict(base, sql='SELECT id FROM (SELECT id, v FROM t WHERE id > 1) s ORDER BY %s %s %s' % (call, near, lim), desc=near_desc, nf=False, canonical=None, tag='subquery-filter', where='id > 1'))
        S.append(dict(metric=m, q=q, k=None, off=0, where=None, sql='SELECT id, v FROM t ORDER BY %s %s' % (call, near), desc=near_desc, nf=False, canonical=False, tag='no-limit'))
        S.append(dict(metric=m, q=q, k=None, off=1, where=None, sql='SELECT id, v FROM t ORDER BY %s %s OFFSET 1' % (call, near), desc=near_desc, nf=False, canonical=False, tag='offset-only'))
        S.append(dict(metric=m, q=q, k=0, off=0, where=None, sql='SELECT id, v FROM t ORDER BY %s %s LIMIT 0' % (call, near), desc=near_desc, nf=False, canonical=False, tag='limit-0'))
    return S


def has_vs(plan):
    if plan.get('op', '').startswith('VectorSearch'):
        return True
    return any(has_vs(c) for c in plan.get('children', []))


def _work(args):
    prop, vecs, layouts, stmts = args
    out = {'evaluations': 0, 'counts': {}, 'violations': [], 'nontrivial': set(), 'errors': [], 'samples': []}

    def cnt(k, n=1):
        out['counts'][k] = out['counts'].get(k, 0) + n
    try:
        rows = [[i + 1, v, 'a' if i % 2 == 0 else 'b'] for i, v in enumerate(vecs)]
        actors = [('exact', sqldiff.get_driver({'name': 'c43e', 'env': {}}), 'prod'), ('rule-removed', sqldiff.get_driver({'name': 'c43e', 'env': {}}), 'rules'),
                  ('indexed-mode-no-index', sqldiff.get_driver({'name': 'c43i', 'env': {'QE_VECTOR_SEARCH': 'indexed'}}), 'prod')]
        for lname, kw in layouts:
            db = {'tables': [table('t', COLS, rows, **kw)]}
            regd = set()
            for _, d, _ in actors:
                if id(d) not in regd:
                    sqldiff.reg_db(d, db)
                    regd.add(id(d))
            keycache = {}
            for s in stmts:
                d0 = actors[0][1]
                kk = (s['metric'], s['q'], s.get('where'))
                if kk not in keycache:
                    r = d0.call({'op': 'sql', 'db': 'd', 'sql': 'SELECT id, %s(v, %s) AS dist FROM t%s' % (s['metric'], s['q'], ' WHERE ' + s['where'] if s.get('where') else '')}, timeout=60)
                    keycache[kk] = r
                kr = keycache[kk]
                if not kr.get('ok'):
                    cnt('distance_query_refused')
                    continue
                keys = {row[0]: row[1] for row in kr['rows']}
                ref_full = norm_rows([[i, k] for i, k in keys.items()], True)
                order = [(1, s['desc'], s['nf'])] + ([(0, False, False)] if s.get('second_id') else [])
                plan = d0.call({'op': 'optplan', 'db': 'd', 'sql': s['sql']}, timeout=60)
                fired = has_vs(plan['plan']) if plan.get('ok') else None
                if fired is not None and s['canonical'] is not None:
                    out['evaluations'] += 1
                    if fired and not s['canonical']:
                        cnt('violation')
                        out['violations'].append({'property': prop, 'kind': 'shape', 'db': db, 'stmt': s, 'layout': lname, 'why': 'the k-NN rewrite fired on a shape outside the canonical one (%s)' % s['tag']})
                        continue
                    cnt('rewrite_fired' if fired else ('rewrite_declined_canonical' if s['canonical'] else 'rewrite_declined'))
                for aname, d, mode in actors:
                    out['evaluations'] += 1
                    req = {'op': 'sql', 'db': 'd', 'sql': s['sql']}
                    if mode == 'rules':
                        req.update({'mode': 'rules', 'rules': PROD_MINUS_VS})
                    r = d.call(req, timeout=60)
                    if not r.get('ok') and r.get('err') in ('Type', 'NotImplemented', 'Plan', 'Bind', 'Parse'):
                        cnt('explicit_refusal:' + aname)
                        continue
                    if not r.get('ok'):
                        why = 'fails: %s %s' % (r.get('err'), (r.get('msg') or '')[:160])
                    else:
                        ic = s.get('idcol', 0)
                        got = [[row[ic], keys.get(row[ic], 'MISSING')] for row in r['rows']]
                        if any(g[1] == 'MISSING' for g in got):
                            why = 'returned an id that is not in the (filtered) table'
                        else:
                            why = compare_result(norm_rows(got, True), ref_full, order, s['k'], s['off'])
                    if why:
                        cnt('violation')
                        if len(out['violations']) < 6:
                            out['violations'].append({'property': prop, 'kind': 'answer', 'db': db, 'stmt': s, 'layout': lname, 'actor': aname, 'why': why, 'got': (r.get('rows') or [])[:10],
                                                      'distances': kr['rows'][:12]})
                    else:
                        cnt('agree:' + aname)
                        if keys and (s['k'] or 0) < len(keys):
                            out['nontrivial'].add(hashlib.sha1(json.dumps([vecs, lname, aname, s['sql']]).encode()).digest()[:8])
                        if not out['samples'] and fired and len(keys) > 3 and aname == 'exact':
                            out['samples'].append({'sql': s['sql'], 'rewrite_fired': fired, 'vectors': vecs, 'rows': r['rows'][:4]})
    except Exception:
        out['errors'].append(traceback.format_exc())
    return out


def run(rep):
    quick = rep.tier == 'quick'
    st = statements(quick)
    contents = [list(m) for m in multisets(VECS[:6], 2 if quick else 3, 0)]
    contents.append(VECS)
    contents.append(VECS * 3)
    layouts = [('mem1', {}), ('parquet', {'storage': 'parquet', 'rg': 2})]
    tasks = []
    for vecs in contents:
        n = len(vecs)
        lay = list(layouts)
        if n >= 3 and (not quick or n == 8):
            lay.append(('mem3', {'batches': [1, 1, n - 2]}))
        small = len(vecs) <= 3
        sts = st if not small else [s for s in st if (s['k'] in (None, 0, 1, 2, 3))]
        for i in range(0, len(sts), 150):
            tasks.append((rep.prop, vecs, lay, sts[i:i + 150]))
    rep.rule = ('vector tables (FixedSizeList<Float32,2>): every multiset of 0..%d vectors from {(1,0),(0,2),(1,1),(-1,2),(0,0),NULL} plus an 8-row and a 24-row table with duplicates (ties), in memory (1 and 3 batches) and Parquet; '
                '%d statements: 4 metrics x %d query vectors x k in %s x OFFSET in {none,1%s}: the canonical shape and variants (vector not selected, aliases + NULLS LAST, literal first, pushed filter) and shapes the rewrite must leave alone '
                '(furthest-first, NULLS FIRST, second sort key, computed projection, no LIMIT, OFFSET only, LIMIT 0); each answered by the default (exact) engine, by the production pipeline without VectorSearchPushdown, and by '
                'QE_VECTOR_SEARCH=indexed over a provider that has no index. Oracle: the ids returned are the ORDER BY/LIMIT/OFFSET slice (up to ties) of the distances the engine itself reports for the rows; '
                'the optimized plan contains a VectorSearch node only for canonical shapes' % (2 if quick else 3, len(st), 3 if quick else 4, '{1,2,100}' if quick else '{1,2,3,5,100}', '' if quick else ',2'))
    with mp.Pool(min(12, os.cpu_count() or 4), initializer=sqldiff._init) as pool:
        for out in pool.imap_unordered(_work, tasks):
            rep.evaluations += out['evaluations']
            rep.merge_counts(out['counts'])
            rep.nontrivial |= out['nontrivial']
            for v in out['violations']:
                rep.violation(v)
            for s in out['samples']:
                rep.add_sample(s)
            for e in out['errors']:
                rep.machinery(e)


def replay(payload):
    env = {'QE_VECTOR_SEARCH': 'indexed'} if payload.get('actor') == 'indexed-mode-no-index' else {}
    d = drv.Driver(env=env)
    try:
        sqldiff.reg_db(d, payload['db'])
        print(d.call({'op': 'optplan', 'db': 'd', 'sql': payload['stmt']['sql']}))
        print(d.call({'op': 'sql', 'db': 'd', 'sql': payload['stmt']['sql'], 'plan': True}))
        print('distances:', payload.get('distances'))
    finally:
        d.close()
    return 1
