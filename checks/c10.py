"""C10 a failing fragment fails the whole query: every fault placement on the in-process transport."""
import hashlib, json, os, struct, traceback
import multiprocessing as mp
from vlib import sqldiff, driver as drv
from vlib.compare import norm_rows, compare_result
from .common import table, F
from .c09 import FCOLS, DCOLS, BIG, DIM

LEVEL = 'fault_enumeration'


def ipc_regions(b):
    """walk an Arrow IPC stream: returns (list of (start,end) framing+metadata regions, offset of the end-of-stream marker or None)."""
    regions, off, eos = [], 0, None
    while off + 8 <= len(b):
        cont, mlen = struct.unpack_from('<Ii', b, off)
        if cont != 0xFFFFFFFF:
            break
        if mlen == 0:
            eos = off
            regions.append((off, off + 8))
            off += 8
            break
        ms = off + 8
        # flatbuffer Message: root table -> vtable -> field 3 (bodyLength)
        root = struct.unpack_from('<I', b, ms)[0]
        tab = ms + root
        vt = tab - struct.unpack_from('<i', b, tab)[0]
        vlen = struct.unpack_from('<H', b, vt)[0]
        body = 0
        if vlen >= 4 + 2 * 4:
            voff = struct.unpack_from('<H', b, vt + 4 + 2 * 3)[0]
            if voff:
                body = struct.unpack_from('<q', b, tab + voff)[0]
        regions.append((off, ms + mlen))
        off = ms + mlen + body
    return regions, eos, off


def _work(args):
    db, sql, n, self_pos, faultsets, prop, baseline = args
    out = {'evaluations': 0, 'counts': {}, 'violations': [], 'nontrivial': set(), 'errors': [], 'samples': [], 'known': {}}
    try:
        d = sqldiff.get_driver({'name': 'default', 'env': {}})
        sqldiff.reg_db(d, db)
        for fs in faultsets:
            out['evaluations'] += 1
            key = 'fault:' + '+'.join(sorted(set(f['kind'] for f in fs['faults'])))
            try:
                r = d.call({'op': 'dist', 'db': 'd', 'sql': sql, 'n': n, 'self_pos': self_pos, 'faults': fs['faults']}, timeout=60)
            except (drv.DriverDied, drv.DriverTimeout) as e:
                # the whole process died (abort) or hung: not an error return
                out['known'].setdefault('corrupt_ipc_metadata_aborts_the_process', {'sql': sql, 'nodes': n, 'faults': fs['faults'], 'outcome': repr(e)})
                out['counts'][key + ':process-died'] = out['counts'].get(key + ':process-died', 0) + 1
                sqldiff.reg_db(d, db)
                continue
            if not r.get('ok'):
                if r.get('err') == 'Panic':
                    out['counts']['violation'] = out['counts'].get('violation', 0) + 1
                    out['violations'].append({'property': prop, 'kind': 'fault', 'db': db, 'sql': sql, 'nodes': n, 'faults': fs['faults'], 'why': 'panic: ' + r.get('msg', '')[:300]})
                else:
                    out['counts'][key + ':failed'] = out['counts'].get(key + ':failed', 0) + 1
                    out['nontrivial'].add(hashlib.sha1(json.dumps([sql, n, fs['faults']], sort_keys=True).encode()).digest()[:8])
                    if len(out['samples']) < 1:
                        out['samples'].append({'sql': sql, 'nodes': n, 'faults': fs['faults'], 'outcome': r.get('msg', '')[:200]})
                continue
            same = compare_result(norm_rows(r['rows'], True), norm_rows(baseline, True), None, None, None) is None
            if fs.get('harmless') and same:
                out['counts'][key + ':harmless-same-answer'] = out['counts'].get(key + ':harmless-same-answer', 0) + 1
                continue
            if not same and len(fs['faults']) == 1 and fs['faults'][0]['kind'] == 'flip' and (len(r['rows']) == len(baseline) or r.get('shape') not in ('Concat', None)):
                # known finding: a flipped metadata byte (null count / buffer layout) decodes to the same number of FRAGMENT rows with different values; nothing checks payload integrity.
                # The coordinator's row-count check pins the fragment row count, so for a concatenated answer the final count must be unchanged; after a merge stage (two-phase, top-n, gather)
                # a changed value (e.g. a group key turned non-NULL) may legitimately change the final count
                out['known'].setdefault('ipc_metadata_bitflip_changes_values_undetected', {'sql': sql, 'nodes': n, 'faults': fs['faults'], 'rows': r['rows'][:8], 'fault_free_rows': baseline[:8]})
                out['counts'][key + ':known-undetected'] = out['counts'].get(key + ':known-undetected', 0) + 1
                continue
            out['counts']['violation'] = out['counts'].get('violation', 0) + 1
            out['counts']['viol:' + key + (':same' if same else ':different')] = out['counts'].get('viol:' + key + (':same' if same else ':different'), 0) + 1
            if len(out['violations']) < 8:
                out['violations'].append({'property': prop, 'kind': 'fault', 'db': db, 'sql': sql, 'nodes': n, 'self_pos': self_pos, 'faults': fs['faults'],
                                          'why': 'the query answered although a fragment failed (%s)' % ('same rows as the fault-free run' if same else 'DIFFERENT rows'),
                                          'rows': r['rows'][:20], 'fault_free_rows': baseline[:20]})
    except Exception:
        out['errors'].append(traceback.format_exc())
    return out


def run(rep):
    quick = rep.tier == 'quick'
    db = {'tables': [table('f', FCOLS, BIG, storage='parquet', nbatches=2, rg=2), table('d', DCOLS, DIM, storage='parquet', rg=2)]}
    stmts = [('scatter-concat', 'SELECT k, m, s FROM f WHERE k > 0'), ('scatter-twophase', 'SELECT g, COUNT(*), SUM(m) FROM f GROUP BY g'),
             ('gather', 'SELECT f.k, d.name FROM f JOIN d ON f.g = d.g')]
    if quick:
        stmts = stmts[:1] + stmts[2:]
    clusters = [(3, 0)] if quick else [(3, 0), (4, 0), (4, 3)]
    d = drv.Driver()
    tasks = []
    nfaults = 0
    try:
        sqldiff.reg_db(d, db)
        for tag, sql in stmts:
            for (n, pos) in clusters:
                probe = d.call({'op': 'dist', 'db': 'd', 'sql': sql, 'n': n, 'self_pos': pos, 'want_payload': True})
                if not probe.get('ok'):
                    rep.machinery('fault-free distributed run failed: %r' % probe)
                    continue
                baseline = probe['rows']
                sends = probe['sends']
                fsets = []
                for s in sends:
                    base = {'table': s['table'], 'shard': s['shard']}
                    for kind in ('err', 'http500', 'digest', 'rows_plus_one'):
                        fsets.append({'faults': [dict(base, kind=kind)]})
                    payload = bytes.fromhex(s['payload_hex'])
                    regions, eos, end = ipc_regions(payload)
                    if end != len(payload) or eos is None:
                        rep.machinery('IPC walker disagrees with the payload length (%d vs %d)' % (end, len(payload)))
                    for k in range(len(payload)):
                        # a cut inside / right at the end-of-stream marker leaves every batch intact: the reader accepts EOF without it
                        harmless = eos is not None and k >= eos
                        fsets.append({'faults': [dict(base, kind='truncate', offset=k)], 'harmless': harmless})
                    for (a, b) in regions:
                        for k in range(a, b):
                            fsets.append({'faults': [dict(base, kind='flip', offset=k)], 'harmless': True})
                # pairs of shards, non-offset kinds crossed
                if not quick:
                    for i in range(len(sends)):
                        for j in range(i + 1, len(sends)):
                            for k1 in ('err', 'digest', 'http500'):
                                for k2 in ('err', 'digest', 'http500'):
                                    fsets.append({'faults': [{'table': sends[i]['table'], 'shard': sends[i]['shard'], 'kind': k1},
                                                             {'table': sends[j]['table'], 'shard': sends[j]['shard'], 'kind': k2}]})
                    fsets.append({'faults': [{'table': s['table'], 'shard': s['shard'], 'kind': 'err'} for s in sends]})
                nfaults += len(fsets)
                for i in range(0, len(fsets), 150):
                    tasks.append((db, sql, n, pos, fsets[i:i + 150], rep.prop, baseline))
                rep.add_sample({'statement': sql, 'nodes': n, 'remote_sends': [{k: s[k] for k in ('table', 'shard', 'len', 'rows')} for s in sends]})
    finally:
        d.close()
    rep.rule = ('statements %s over a 2-file Parquet fact table on clusters %s; the in-process FragmentTransport is wrapped by a fault injector: per remote shard: transport Err, HTTP 500, '
                'digest altered in flight, row count misreported, payload truncated at EVERY byte offset, every byte of the IPC framing + flatbuffer metadata regions XOR 0xFF (regions located by '
                'walking the stream); thorough adds pairs of shards (kinds crossed) and all shards; oracle: the query is an error - or, only for faults that cannot change the decoded batches '
                '(cut inside the end-of-stream marker, a flipped metadata byte the reader tolerates), exactly the fault-free answer; non-trivial = a fault that made the query fail'
                % ([s for s, _ in stmts], clusters))
    rep.assumptions = ['body-buffer corruption is excluded: without checksums no receiver can detect it', 'a metadata flip that still decodes to the same batches is accepted only with an identical answer']
    with mp.Pool(min(12, os.cpu_count() or 4), initializer=sqldiff._init) as pool:
        for out in pool.imap_unordered(_work, tasks):
            rep.evaluations += out['evaluations']
            rep.merge_counts(out['counts'])
            rep.nontrivial |= out['nontrivial']
            for v in out['violations']:
                rep.violation(v)
            for s in out['samples']:
                rep.add_sample(s)
            for e in out['errors']:
                rep.machinery(e)
            for kid, ex in out['known'].items():
                if kid in rep.known:
                    rep.known_hit(kid, ex)
                else:
                    rep.violation({'property': rep.prop, 'kind': 'fault', 'why': 'unlisted finding ' + kid, 'example': ex})
    rep.extra['fault_placements'] = nfaults


def replay(payload):
    d = drv.Driver()
    try:
        sqldiff.reg_db(d, payload['db'])
        print(d.call({'op': 'dist', 'db': 'd', 'sql': payload['sql'], 'n': payload['nodes'], 'self_pos': payload.get('self_pos', 0), 'faults': payload['faults']}))
    finally:
        d.close()
    return 1
