"""C17 an Iceberg snapshot reads exactly its live data files."""
from vlib import native
LEVEL = 'model_checking'
PACKAGES = ('qe-native',)


def run(rep):
    rep.rule = ('breadth-first search over table histories from one initial append, depth 4 (quick) / 6 (thorough), operations {append 1 file, append 2 files, remove any live file (its manifest is rewritten: that entry DELETED, the others EXISTING), '
                'rewrite manifests (all live entries EXISTING in one manifest), rewrite metadata (new metadata file), expire the oldest snapshot}, deduplicated on the model state (manifest structure per snapshot, current pointer); '
                'the harness is an Iceberg writer (metadata.json with snapshots listed newest first, Avro manifest lists and manifests); every state is materialised in URI forms {file:///abs, file:/abs, absolute, table-relative} x discovery '
                '{version-hint N, version-hint vN, newest last-updated-ms with the older files carrying lexically larger names} (full cross product on states with <= 2 snapshots, a rotating cover otherwise) and opened through register_iceberg at the current '
                'snapshot, at every listed snapshot, at an unknown id and at every expired id; oracle: SELECT id returns exactly the ids of the files that are ADDED or EXISTING and not DELETED in that snapshot (each file holds its own ids); '
                'a snapshot with no live file, an unknown or expired id are refused; per state 8 refusal variants on the first live entry of the current snapshot (position / equality delete file, ORC, Avro data file, s3:// manifest list, '
                'hdfs:// manifest, s3:// data file, format-version 3) must be refused')
    native.run(rep, 'c17')
    for k in ('states', 'transitions', 'depth'):
        pass


def replay(payload):
    return native.replay_generic(payload)
