"""C33 memory pool accounting under concurrency: loom over the real src/execution/memory.rs."""
import json, os, subprocess, sys, time

LEVEL = 'model_checking'
PACKAGES = ()
ROOT = os.path.dirname(os.path.dirname(os.path.abspath(__file__)))
LOOM_DIR = os.path.join(ROOT, 'harness-loom')
BIN = os.path.join(ROOT, 'target-loom', 'debug', 'qe-loom')


def build():
    env = dict(os.environ, CARGO_NET_OFFLINE='true')
    r = subprocess.run(['cargo', 'build', '--offline', '-q'], cwd=LOOM_DIR, env=env, stdout=subprocess.PIPE, stderr=subprocess.STDOUT)
    if r.returncode != 0:
        sys.stderr.write(r.stdout.decode(errors='replace')[-3000:])
        return False
    return True


def loom(bound, which='all', max_branches=200000, timeout=3000):
    p = subprocess.run([BIN, str(bound), str(max_branches), which], stdout=subprocess.PIPE, stderr=subprocess.PIPE, timeout=timeout)
    for l in p.stdout.decode(errors='replace').splitlines():
        if l.startswith('{'):
            return json.loads(l)
    raise RuntimeError('qe-loom gave no summary (exit %s): %s' % (p.returncode, p.stderr.decode(errors='replace')[-1500:]))


def run(rep):
    if not build():
        rep.machinery('harness-loom build failed (src/execution/memory.rs no longer compiles under --cfg qe_verif_loom?)')
        return
    runs = [(2, 'all')] if rep.tier == 'quick' else [(2, 'all'), (3, 'all'), (0, 'two')]
    rep.rule = ('loom explores every interleaving (preemption bound 2 quick; 3, and unbounded for the two-thread bodies, thorough) of 41 bodies: all pairs of 6 two-thread programs '
                'and all triples of 4 one/two-op programs over try_allocate / allocate / resize / drop on the real MemoryPool (limit 10, atomics = loom atomics via cfg qe_verif_loom); '
                'oracle per execution: used() equals the sum of live reservations, the grant/deny results and final usage equal those of SOME sequential order of the same operations '
                '(brute-forced), and usage returns to zero after every drop; distinct_nontrivial = distinct (grants, usage) outcomes observed')
    rep.assumptions = ['loom models the C11 orderings the pool uses (SeqCst RMWs, Relaxed loads)', 'reservation lifetimes are extended with transmute inside the harness only; the pool outlives them']
    bounds = []
    for bound, which in runs:
        o = loom(bound, which)
        rep.evaluations += o['executions']
        rep.nontrivial_extra = max(rep.nontrivial_extra, o['distinct_outcomes'])
        bounds.append({'preemption_bound': bound or 'unbounded', 'bodies': o['bodies'], 'executions': o['executions'], 'which': which,
                       'max_executions_per_body': o['max_executions_per_body']})
        rep.add_sample({'body': o['sample_body'], 'preemption_bound': bound or 'unbounded'})
        if o['failure']:
            rep.violation({'property': 'C33', 'kind': 'loom', 'preemption_bound': bound, 'failure': o['failure']})
            break
    rep.extra['runs'] = bounds
    rep.extra['schedules_explored'] = rep.evaluations


def replay(payload):
    print(json.dumps(payload, indent=1))
    print('re-run: ./check C33 (loom exploration is deterministic)')
    return 1
