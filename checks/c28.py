"""C28 CTE references: every reference yields the rows of the nearest enclosing definition; shared CTE == inlined."""
import itertools
from vlib import sqldiff
from vlib.enumr import multisets, rotate
from .common import table

LEVEL = 'exploration'

# distinguishable CTE bodies over t(a,b)
BODIES = {
    'lo': 'SELECT a, b FROM t WHERE a = 1',
    'hi': 'SELECT a, b FROM t WHERE a = 2',
    'nul': 'SELECT a, b FROM t WHERE a IS NULL',
    'agg': 'SELECT a, COUNT(*) AS b FROM t GROUP BY a',
    'all': 'SELECT a, b FROM t',
}


def shapes():
    S = []

    def add(sql, tag, inlined=None):
        S.append((sql, tag, inlined))
    B = BODIES
    for n1 in ('lo', 'agg', 'all'):
        w = 'WITH c AS (%s) ' % B[n1]
        d = '(%s)' % B[n1]
        add(w + 'SELECT a, b FROM c', 'one-ref', 'SELECT a, b FROM %s c' % d)
        add(w + 'SELECT x.a, y.b FROM c x JOIN c y ON x.a = y.a', 'self-join', 'SELECT x.a, y.b FROM %s x JOIN %s y ON x.a = y.a' % (d, d))
        add(w + 'SELECT x.a, y.b, z.b FROM c x, c y, c z WHERE x.a = y.a AND y.a = z.a', 'three-refs',
            'SELECT x.a, y.b, z.b FROM %s x, %s y, %s z WHERE x.a = y.a AND y.a = z.a' % (d, d, d))
        add(w + 'SELECT a, b FROM t WHERE a IN (SELECT a FROM c)', 'ref-in-subquery', 'SELECT a, b FROM t WHERE a IN (SELECT a FROM %s c)' % d)
        add(w + 'SELECT a, b FROM t WHERE EXISTS (SELECT 1 FROM c WHERE c.a = t.a)', 'ref-in-exists', 'SELECT a, b FROM t WHERE EXISTS (SELECT 1 FROM %s c WHERE c.a = t.a)' % d)
        add(w + 'SELECT a, (SELECT COUNT(*) FROM c) AS n FROM t', 'ref-in-scalar', 'SELECT a, (SELECT COUNT(*) FROM %s c) AS n FROM t' % d)
        add(w + 'SELECT a, b FROM c WHERE a IN (SELECT a FROM c)', 'ref-from-and-subquery', 'SELECT a, b FROM %s c WHERE a IN (SELECT a FROM %s c)' % (d, d))
        add(w + 'SELECT a, b FROM c UNION ALL SELECT a, b FROM c', 'ref-both-union-branches', 'SELECT a, b FROM %s c UNION ALL SELECT a, b FROM %s c' % (d, d))
        # references filtered DIFFERENTLY (aliased or not): each reference sees all the CTE's rows, whatever the others filter on
        add(w + 'SELECT x.a, x.b, y.a, y.b FROM c x JOIN c y ON x.b = y.b WHERE x.a >= 2 AND y.a < 2', 'self-join-different-filters',
            'SELECT x.a, x.b, y.a, y.b FROM %s x JOIN %s y ON x.b = y.b WHERE x.a >= 2 AND y.a < 2' % (d, d))
        add(w + 'SELECT x.a, x.b, y.a FROM c x, c y WHERE x.a = 1 AND y.a IS NULL', 'cross-different-filters', 'SELECT x.a, x.b, y.a FROM %s x, %s y WHERE x.a = 1 AND y.a IS NULL' % (d, d))
        add(w + 'SELECT x.a, (SELECT COUNT(*) FROM c) AS n FROM c x WHERE x.a >= 2', 'aliased-filtered-plus-scalar', 'SELECT x.a, (SELECT COUNT(*) FROM %s c) AS n FROM %s x WHERE x.a >= 2' % (d, d))
        add(w + 'SELECT x.a, x.b FROM c x WHERE x.a = 1 AND x.b IN (SELECT b FROM c)', 'aliased-filtered-plus-in', 'SELECT x.a, x.b FROM %s x WHERE x.a = 1 AND x.b IN (SELECT b FROM %s c)' % (d, d))
        add(w + 'SELECT x.a, x.b FROM c x WHERE x.a = 1 UNION ALL SELECT y.a, y.b FROM c y WHERE y.a = 2 UNION ALL SELECT a, b FROM c', 'three-refs-three-filters',
            'SELECT x.a, x.b FROM %s x WHERE x.a = 1 UNION ALL SELECT y.a, y.b FROM %s y WHERE y.a = 2 UNION ALL SELECT a, b FROM %s c' % (d, d, d))
    # two / three CTEs, one referring to an earlier one
    add('WITH c AS (%s), d AS (%s) SELECT c.a, d.b FROM c, d' % (B['lo'], B['hi']), 'two-ctes-cross')
    add('WITH c AS (%s), d AS (SELECT a, b FROM c WHERE b = 1) SELECT a, b FROM d' % B['all'], 'cte-refers-earlier')
    add('WITH c AS (%s), d AS (SELECT a, b FROM c WHERE b = 1), e AS (SELECT a FROM d UNION ALL SELECT a FROM c) SELECT a FROM e' % B['all'], 'three-ctes-chain')
    add('WITH c AS (%s), d AS (%s) SELECT a, b FROM c WHERE a NOT IN (SELECT a FROM d WHERE a IS NOT NULL)' % (B['all'], B['hi']), 'two-ctes-notin')
    add('WITH c AS (%s), d AS (SELECT a, COUNT(*) AS n FROM c GROUP BY a) SELECT c.a, c.b, d.n FROM c JOIN d ON c.a = d.a' % B['all'], 'cte-agg-of-cte')
    # nested WITH re-using the name c: the inner definition must win inside, the outer one outside
    add('WITH c AS (%s) SELECT a, b FROM (WITH c AS (%s) SELECT a, b FROM c) q' % (B['lo'], B['hi']), 'nested-derived-shadow')
    add('WITH c AS (%s) SELECT x.a, y.a FROM (WITH c AS (%s) SELECT a FROM c) x, c y' % (B['lo'], B['hi']), 'nested-derived-then-outer')
    add('WITH c AS (%s) SELECT y.a, x.a FROM c y, (WITH c AS (%s) SELECT a FROM c) x' % (B['lo'], B['hi']), 'outer-then-nested-derived')
    add('WITH c AS (%s) SELECT a, b FROM t WHERE a IN (WITH c AS (%s) SELECT a FROM c) AND b IN (SELECT b FROM c)' % (B['lo'], B['hi']), 'nested-in-subquery-shadow')
    add('WITH c AS (%s), d AS (WITH c AS (%s) SELECT a, b FROM c) SELECT c.a, d.a FROM c, d' % (B['lo'], B['hi']), 'nested-in-cte-body-shadow')
    add('WITH c AS (%s) SELECT a, b FROM (WITH d AS (SELECT a, b FROM c) SELECT a, b FROM d) q' % B['lo'], 'nested-sees-outer')
    # a CTE over a wider table w(k,v,x,z) that is also scanned directly, once or twice, with other columns: the CTE's filter / output columns
    # are read by nothing else (shared-scan caches and projections must still give the CTE its own rows)
    for body, bname in (('SELECT k FROM w WHERE v > 1', 'filter-v'), ('SELECT k FROM w WHERE z = 0 OR v = 0', 'filter-zv'), ('SELECT k, z FROM w WHERE v < 3', 'out-z')):
        wq = 'WITH big AS (%s) ' % body
        dq = '(%s)' % body
        for outer, oname in (('SELECT big.k, t1.x FROM big JOIN w t1 ON big.k = t1.k', 'w-once'),
                             ('SELECT big.k, t1.x, t2.x FROM big JOIN w t1 ON big.k = t1.k JOIN w t2 ON big.k = t2.k', 'w-twice'),
                             ('SELECT big.k, t1.x, t2.k FROM big JOIN w t1 ON big.k = t1.k JOIN w t2 ON t1.x = t2.x', 'w-twice-other-key'),
                             ('SELECT b1.k, b2.k, t1.x FROM big b1 JOIN big b2 ON b1.k = b2.k JOIN w t1 ON b1.k = t1.k JOIN w t2 ON t2.k = t1.k', 'cte-twice-w-twice'),
                             ('SELECT k FROM big WHERE k IN (SELECT x FROM w) AND k IN (SELECT k FROM w WHERE x > 0)', 'w-in-subqueries')):
            add(wq + outer, 'wide-%s-%s' % (bname, oname), outer.replace('FROM big b1 JOIN big b2', 'FROM %s b1 JOIN %s b2' % (dq, dq)).replace('FROM big', 'FROM %s big' % dq))
    # a CTE named like a base table
    add('WITH t AS (%s) SELECT a, b FROM t' % 'SELECT a, b FROM u', 'cte-shadows-table')
    add('WITH u AS (SELECT a, b FROM t WHERE a = 1) SELECT x.a, y.a FROM u x, t y WHERE x.a = y.a', 'cte-named-like-other-table')
    return S


def run(rep):
    quick = rep.tier == 'quick'
    kinds = list(itertools.product([None, 1, 2], [1, 2]))
    tabs = rotate(list(multisets(kinds, 2 if quick else 3, 1)), rep.seed)
    sh = shapes()
    units = []
    for rows in tabs:
        db = {'tables': [table('t', [['a', 'int64'], ['b', 'int64']], [list(r) for r in rows]),
                         table('u', [['a', 'int64'], ['b', 'int64']], [[7, 7], [None, 8]]),
                         table('w', [['k', 'int64'], ['v', 'int64'], ['x', 'int64'], ['z', 'int64']], [[1, 0, 5, 9], [2, 2, 0, 9], [3, 3, 1, 0], [4, 0, 2, 2], [5, 1, 0, 3], [6, 2, 2, 0], [None, 2, None, 0]])]}
        st = []
        for sql, tag, inl in sh:
            d = {'sql': sql, 'tag': tag, 'nontrivial': None}
            if tag.startswith(('nested-derived', 'outer-then-nested', 'nested-in-subquery', 'nested-in-cte-body')):
                # known finding D8: the binder keeps ONE statement-wide CTE map, so an inner WITH c replaces the outer c for the rest of the statement
                d['alts'] = {'cte_scope_global#%d' % i: v for i, v in enumerate(global_scope_variants(sql, tag))}
            st.append(d)
            if inl:
                st.append({'sql': inl, 'ref': sql, 'tag': tag + '|inlined', 'nontrivial': None})
        units.append({'db': db, 'stmts': st})
    rep.rule = ('all multisets of 1..%d rows over t(a in {NULL,1,2}, b in {1,2}); %d statement shapes: 1-3 CTEs (filter / aggregate bodies) referenced 1-3 times in FROM, in IN / EXISTS / scalar '
                'subqueries and in both UNION branches, a CTE referring to an earlier one, nested WITH re-using a name in a derived table / subquery expression / CTE body (before and after an outer '
                'reference), a CTE named like a base table, a CTE over a 4-column table whose own filter / output columns nothing else reads while the table is scanned again once or twice outside it; oracle SQLite 3.40 (lexical scoping), and the same statement with every reference inlined as a derived table' % (2 if quick else 3, len(sh)))
    sqldiff.run(rep, units)


def global_scope_variants(sql, tag):
    """what a name-keyed (not lexically scoped) CTE table computes: all references to c see ONE body - the inner one (last bound wins) or the outer one (first materialized wins)."""
    out = []
    for body in (BODIES['hi'], BODIES['lo']):
        if tag == 'nested-derived-shadow':
            out.append('WITH c AS (%s) SELECT a, b FROM c' % body)
        elif tag == 'nested-derived-then-outer':
            out.append('WITH c AS (%s) SELECT x.a, y.a FROM c x, c y' % body)
        elif tag == 'outer-then-nested-derived':
            out.append('WITH c AS (%s) SELECT y.a, x.a FROM c y, c x' % body)
        elif tag == 'nested-in-subquery-shadow':
            out.append('WITH c AS (%s) SELECT a, b FROM t WHERE a IN (SELECT a FROM c) AND b IN (SELECT b FROM c)' % body)
        elif tag == 'nested-in-cte-body-shadow':
            out.append('WITH c AS (%s) SELECT c.a, d.a FROM c, c d' % body)
    return out


def replay(payload):
    return sqldiff.replay(payload)
