"""C12 LPT assignment: exhaustive multisets of split sizes, brute-force optimum."""
from vlib import native
LEVEL = 'exploration'


def run(rep):
    rep.rule = ('all multisets of split sizes over {0,1,2,3,5,8,13} up to size 8 (quick) / 12 (thorough), presented in a scrambled order, x node counts; '
                'partition / totals / two-call determinism on all of them, the (4/3 - 1/(3N)) bound against a branch-and-bound optimum for '
                'size <= 6, N <= 4 (quick) / size <= 9, N <= 6 (thorough); non-trivial = at least 2 splits and 2 nodes')
    native.run(rep, 'c12')


def replay(payload):
    return native.replay_generic(payload)
