"""C32 join reordering never introduces a cross product: every connected join graph, structure of the optimized plan + answers."""
import hashlib, itertools, json, os, subprocess, traceback
import multiprocessing as mp
from vlib import sqldiff, driver as drv
from .common import table

LEVEL = 'exploration'
NMAX = 7


def connected(n, edges):
    adj = {i: set() for i in range(n)}
    for a, b in edges:
        adj[a].add(b)
        adj[b].add(a)
    seen, st = {0}, [0]
    while st:
        x = st.pop()
        for y in adj[x]:
            if y not in seen:
                seen.add(y)
                st.append(y)
    return len(seen) == n


def labeled_connected(n):
    pairs = list(itertools.combinations(range(n), 2))
    for mask in range(1, 1 << len(pairs)):
        e = [pairs[k] for k in range(len(pairs)) if mask >> k & 1]
        if len(e) >= n - 1 and connected(n, e):
            yield e


def iso_classes(n):
    """one representative per isomorphism class of connected graphs on n nodes (brute force canonical form, n <= 6)"""
    seen, out = set(), []
    perms = list(itertools.permutations(range(n)))
    for e in labeled_connected(n):
        key = tuple(sorted(e))
        if key in seen:
            continue
        out.append(e)
        for p in perms:
            seen.add(tuple(sorted(tuple(sorted((p[a], p[b]))) for a, b in e)))
    return out


def atlas(n):
    """connected graphs on n nodes up to isomorphism from the networkx atlas of the tooling venv (n = 6, 7)"""
    code = ("import networkx as nx, json\nfrom networkx.generators.atlas import graph_atlas_g\n"
            "print(json.dumps([sorted(map(sorted, g.edges())) for g in graph_atlas_g() if g.number_of_nodes() == %d and nx.is_connected(g)]))" % n)
    r = subprocess.run(['python3-vt', '-c', code], capture_output=True, text=True, timeout=300)
    if r.returncode != 0:
        return None
    gs = json.loads(r.stdout)
    out = []
    for g in gs:
        nodes = sorted({x for e in g for x in e})
        ix = {v: i for i, v in enumerate(nodes)}
        out.append([(ix[a], ix[b]) for a, b in g])
    return out


def matchings(n, edges):
    """expected answer: one row per matching M of the graph; table i shows the id of its matched edge (1-based) or 0"""
    rows = []
    m = len(edges)

    def rec(k, used, pick):
        if k == m:
            rows.append([pick.get(i, 0) for i in range(n)])
            return
        rec(k + 1, used, pick)
        a, b = edges[k]
        if a not in used and b not in used:
            p2 = dict(pick)
            p2[a] = p2[b] = k + 1
            rec(k + 1, used | {a, b}, p2)
    rec(0, frozenset(), {})
    return rows


def tab_rows(n, i, edges, big):
    """row 0: all zeros; one row per incident edge e: zeros except the edge's columns = 1 and id = e+1; filler rows never join"""
    cols = [['id%d' % i, 'int64']] + [['c%d_%d' % (i, j), 'int64'] for j in range(n) if j != i] + [['d%d_%d' % (i, j), 'int64'] for j in range(n) if j != i]
    others = [j for j in range(n) if j != i]
    rows = [[0] + [0] * (2 * len(others))]
    for k, (a, b) in enumerate(edges):
        if i in (a, b):
            o = b if a == i else a
            r = [k + 1] + [1 if j == o else 0 for j in others] * 2
            rows.append(r)
    if big:
        for f in range(300 - len(rows)):
            v = 1000 * (i + 1) + f
            rows.append([v] + [v] * (2 * len(others)))
    return cols, rows


def render(n, edges, order, style, composite):
    def pred(a, b):
        s = 't%d.c%d_%d = t%d.c%d_%d' % (a, a, b, b, b, a)
        if composite:
            s += ' AND t%d.d%d_%d = t%d.d%d_%d' % (a, a, b, b, b, a)
        return s
    sel = ', '.join('t%d.id%d' % (i, i) for i in range(n))
    if style == 'comma':
        return 'SELECT %s FROM %s WHERE %s' % (sel, ', '.join('t%d' % i for i in order), ' AND '.join(pred(a, b) for a, b in edges))
    # explicit JOIN ... ON in an order whose every prefix is connected
    placed = [order[0]]
    rest = list(order[1:])
    sql = 'SELECT %s FROM t%d' % (sel, order[0])
    used = set()
    while rest:
        nxt = next(t for t in rest if any((a in placed and b == t) or (b in placed and a == t) for a, b in edges))
        rest.remove(nxt)
        ps = [(a, b) for a, b in edges if (a, b) not in used and ((a in placed and b == nxt) or (b in placed and a == nxt))]
        used |= set(ps)
        sql += ' JOIN t%d ON %s' % (nxt, ' AND '.join(pred(a, b) for a, b in ps))
        placed.append(nxt)
    return sql


def walk(node, acc):
    acc.append(node)
    for c in node.get('children', []):
        walk(c, acc)


def tables_under(node):
    acc = []
    walk(node, acc)
    return sorted(x['table'] for x in acc if x['op'] == 'Scan')


def check_plan(plan, n, edges, composite):
    nodes = []
    walk(plan, nodes)
    scans = sorted(x['table'] for x in nodes if x['op'] == 'Scan')
    if scans != sorted('t%d' % i for i in range(n)):
        return 'the optimized plan scans %s' % scans
    texts = []
    for x in nodes:
        if x['op'] == 'Join':
            if x['join_type'] == 'Cross':
                return 'cross join between %s and %s' % (tables_under(x['children'][0]), tables_under(x['children'][1]))
            if x['join_type'] == 'Inner' and not x['on'] and '=' not in (x.get('filter') or ''):
                return 'join without an equality between %s and %s' % (tables_under(x['children'][0]), tables_under(x['children'][1]))
            for l, r in x['on']:
                texts.append(l + ' = ' + r)
                # each on-pair must relate the two sides
            if x.get('filter'):
                texts.append(x['filter'])
        elif x['op'] == 'Filter':
            texts.append(x['predicate'])
        elif x['op'] == 'Scan' and x.get('filter'):
            texts.append(x['filter'])
    for a, b in edges:
        for pre in (('c', 'd') if composite else ('c',)):
            l, r = '%s%d_%d' % (pre, a, b), '%s%d_%d' % (pre, b, a)
            if not any(l in t and r in t for t in texts):
                return 'the equality %s = %s of the original is not present in any join condition or filter' % (l, r)
    return None


def _work(args):
    prop, cases = args
    out = {'evaluations': 0, 'counts': {}, 'violations': [], 'nontrivial': set(), 'errors': [], 'samples': []}

    def cnt(k, n=1):
        out['counts'][k] = out['counts'].get(k, 0) + n
    try:
        d = sqldiff.get_driver({'name': 'c32', 'env': {}})
        for n, edges, sizes, storage, variants in cases:
            tabs = []
            for i in range(n):
                cols, rows = tab_rows(n, i, edges, sizes[i])
                kw = {'storage': 'parquet', 'rg': 100} if storage == 'parquet' else {}
                tabs.append(table('t%d' % i, cols, rows, **kw))
            sqldiff.reg_db(d, {'tables': tabs})
            want = sorted(json.dumps(r) for r in matchings(n, edges))
            for order, style, composite, execute in variants:
                sql = render(n, edges, order, style, composite)
                out['evaluations'] += 1
                r = d.call({'op': 'optplan', 'db': 'd', 'sql': sql}, timeout=120)
                desc = {'n': n, 'edges': edges, 'sizes': ['300' if s else 'small' for s in sizes], 'storage': storage, 'from_order': list(order), 'style': style, 'composite': composite, 'sql': sql}
                if not r.get('ok'):
                    cnt('violation')
                    out['violations'].append(dict(desc, property=prop, kind='joingraph', why='planning fails: %s %s' % (r.get('err'), (r.get('msg') or '')[:200])))
                    continue
                why = check_plan(r['plan'], n, edges, composite)
                if why is None and execute:
                    x = d.call({'op': 'sql', 'db': 'd', 'sql': sql}, timeout=300)
                    out['evaluations'] += 1
                    if not x.get('ok'):
                        why = 'execution fails: %s %s' % (x.get('err'), (x.get('msg') or '')[:200])
                    elif sorted(json.dumps(y) for y in x['rows']) != want:
                        why = 'the reordered plan returns %d rows, the join graph has %d matchings (expected rows)' % (len(x['rows']), len(want))
                    else:
                        cnt('executed_agree')
                if why:
                    cnt('violation')
                    if len(out['violations']) < 5:
                        out['violations'].append(dict(desc, property=prop, kind='joingraph', why=why, plan=r['plan']))
                else:
                    cnt('structure_ok')
                    out['nontrivial'].add(hashlib.sha1(sql.encode() + json.dumps([sizes, storage]).encode()).digest()[:8])
                    if not out['samples'] and n >= 5 and style == 'comma':
                        out['samples'].append(dict(desc, joins=[[x['join_type'], x['on']] for x in _nodes(r['plan']) if x['op'] == 'Join']))
    except Exception:
        out['errors'].append(traceback.format_exc())
    return out


def _nodes(p):
    acc = []
    walk(p, acc)
    return acc


def size_assignments(n, full):
    if full:
        return [tuple(bool(m >> i & 1) for i in range(n)) for m in range(1 << n)]
    out = [tuple([False] * n), tuple([True] * n)]
    for i in range(n):
        out.append(tuple(j == i for j in range(n)))
        out.append(tuple(j != i for j in range(n)))
    return out


def orders_for(n, all_perms):
    if all_perms:
        return list(itertools.permutations(range(n)))
    base = list(range(n))
    rots = [tuple(base[r:] + base[:r]) for r in range(n)]
    return rots + [tuple(reversed(base))]


def run(rep):
    quick = rep.tier == 'quick'
    graphs = {}
    caps = []
    for n in (2, 3, 4):
        graphs[n] = (list(labeled_connected(n)), 'all labeled connected graphs')
    graphs[5] = (iso_classes(5), 'one graph per isomorphism class') if quick else (list(labeled_connected(5)), 'all labeled connected graphs')
    if not quick:
        for n in (6, 7):
            g = atlas(n)
            if g is None and n == 6:
                g = iso_classes(6)
            if g is None:
                caps.append('n=%d skipped: the graph atlas (networkx in the tooling venv) is not available' % n)
            else:
                graphs[n] = (g, 'one graph per isomorphism class')
    cases = []
    for n, (gs, _) in graphs.items():
        for gi, edges in enumerate(gs):
            edges = [tuple(e) for e in edges]
            if quick and n == 5:
                orders = orders_for(n, False)
            elif n <= 4 or (n == 5 and not quick and len(gs) <= 30):
                orders = orders_for(n, True)
            elif n == 5:
                orders = [tuple(range(n))]      # all labeled graphs: every (class, order) pair arises from relabeling
            else:
                orders = orders_for(n, False) if n == 6 else [tuple(range(n)), tuple(reversed(range(n)))]
            if quick and n == 4:
                orders = orders_for(n, False)
            # memory (no statistics): structure + execution (tables are small)
            var = []
            for o in orders:
                for style in ('comma', 'join'):
                    for comp in (False, True):
                        var.append((o, style, comp, True if (n <= 5 and (comp is False or style == 'comma')) else False))
            cases.append((n, edges, tuple([False] * n), 'mem', var))
            # Parquet with statistics: every (n <= 4) / the extreme size assignments
            assigns = size_assignments(n, n <= (3 if quick else 4))
            if quick and n >= 4:
                assigns = assigns[:2] + assigns[2 + 2 * (gi % n):4 + 2 * (gi % n)]     # all small, all 300, and one relation (rotating with the graph index) big / small
            for sizes in assigns:
                o2 = orders[:2] if n >= 5 else orders[:3]
                var2 = [(o, style, comp, (not any(sizes)) or gi % 5 == 0) for o in o2 for style in ('comma', 'join') for comp in (False, True)]
                if quick and n == 5:
                    var2 = var2[::2]
                cases.append((n, edges, sizes, 'parquet', var2))
    rep.rule = ('join graphs: ' + '; '.join('n=%d: %s (%d)' % (n, how, len(gs)) for n, (gs, how) in sorted(graphs.items())) + '. Relation i has one column pair per possible edge, so no equality is implied by others; '
                'each graph rendered as comma-FROM + WHERE and as JOIN..ON, single and composite (2-column) keys, FROM orders: all permutations (n<=4; quick n=4: rotations + reversal), rotations + reversal (n=5 classes, n=6), identity + reversal (n=7), '
                'identity for all labeled n=5 graphs (relabeling covers the orders); statistics: memory tables (none) and Parquet tables of {small, 300} rows in every assignment (n<=%d) or the extreme assignments (all small, all 300, one 300, one small; quick n>=4: one rotating relation). '
                'Oracle on the optimized logical plan: no Cross join, no inner join without an equality, same multiset of scans, every original equality present in a join condition or filter; '
                'and, executed, the rows equal the analytic answer (one row per matching of the graph - dropping any single equality adds rows)' % (3 if quick else 4))
    rep.caps.extend(caps)
    chunks = [(rep.prop, cases[i:i + 6]) for i in range(0, len(cases), 6)]
    with mp.Pool(min(12, os.cpu_count() or 4), initializer=sqldiff._init) as pool:
        for out in pool.imap_unordered(_work, chunks):
            rep.evaluations += out['evaluations']
            rep.merge_counts(out['counts'])
            rep.nontrivial |= out['nontrivial']
            for v in out['violations']:
                rep.violation(v)
            for s in out['samples']:
                rep.add_sample(s)
            for e in out['errors']:
                rep.machinery(e)
    rep.extra['graphs'] = {str(n): len(gs) for n, (gs, _) in graphs.items()}


def replay(payload):
    d = drv.Driver(env={})
    try:
        n, edges = payload['n'], [tuple(e) for e in payload['edges']]
        sizes = [s == '300' for s in payload['sizes']]
        tabs = []
        for i in range(n):
            cols, rows = tab_rows(n, i, edges, sizes[i])
            kw = {'storage': 'parquet', 'rg': 100} if payload['storage'] == 'parquet' else {}
            tabs.append(table('t%d' % i, cols, rows, **kw))
        sqldiff.reg_db(d, {'tables': tabs})
        r = d.call({'op': 'optplan', 'db': 'd', 'sql': payload['sql']})
        print(json.dumps(r)[:3000])
        print(check_plan(r['plan'], n, edges, payload['composite']) if r.get('ok') else r)
    finally:
        d.close()
    return 1
