"""C39 TPC-H generator determinism and self-consistency."""
from vlib import native
LEVEL = 'exploration'


def run(rep):
    rep.rule = ('scale factors {0.001,0.002,0.005} (quick) / up to 0.05 (thorough) x seeds {0,1,42}: two generations compared batch for batch, row counts against TpchRowCounts, every foreign key '
                '(incl. the composite lineitem -> partsupp) resolved with hash sets, a Parquet write + read-back compared with the in-memory tables, seeds 0 and 1 differ, 4 generators on 4 threads equal '
                'the single-threaded reference; the generator source is scanned for global state (static / thread_rng / OnceLock / SystemTime); non-trivial = a (scale factor, seed) that passed every check')
    rep.assumptions = ['the schedule quantifier is vacuous by construction (each generator owns its StdRng, the module has no statics); the threaded run counts as 4 executions, not interleaving coverage']
    native.run(rep, 'c39')


def replay(payload):
    return native.replay_generic(payload)
