"""C03 optimization never changes the answer: unoptimized vs each rule alone vs the production pipeline."""
import itertools
from vlib import optdiff
from vlib.enumr import multisets, rotate
from . import corpus
from .common import table, F

LEVEL = 'exploration'


def stats_shapes():
    S = []

    def add(sql, tag, **kw):
        d = {'sql': sql, 'tag': tag}
        d.update(kw)
        S.append(d)
    add('SELECT k, d, COUNT(*) AS c, SUM(v) AS sv FROM p GROUP BY k, d', 'group-k-d')
    add('SELECT k, d, s, COUNT(*) AS c FROM p GROUP BY k, d, s', 'group-k-d-s')
    add('SELECT p.k, p.d, q.w, COUNT(*) AS c FROM p JOIN q ON p.k = q.k GROUP BY p.k, p.d, q.w', 'group-over-join')
    add('SELECT p.k, p.d, q.w, SUM(p.v) AS sv FROM p JOIN q ON p.k = q.k GROUP BY p.k, p.d, q.w ORDER BY sv DESC NULLS LAST, p.k NULLS LAST, p.d, q.w LIMIT 2', 'group-over-join+order+limit',
        ref='SELECT p.k, p.d, q.w, SUM(p.v) AS sv FROM p JOIN q ON p.k = q.k GROUP BY p.k, p.d, q.w', order=[(3, True, False), (0, False, False), (1, False, False), (2, False, False)], limit=2)
    add('SELECT q.w, SUM(p.v) AS sv, COUNT(*) AS c FROM p JOIN q ON p.k = q.k GROUP BY q.w', 'eager-agg')
    add('SELECT q.w, MIN(p.v) AS mn, MAX(p.d) AS mx FROM p JOIN q ON p.k = q.k GROUP BY q.w', 'eager-agg-minmax')
    add('SELECT q.w, AVG(p.v) AS av FROM p JOIN q ON p.k = q.k GROUP BY q.w', 'eager-agg-avg', approx=True)
    add('SELECT p.v, q.w FROM p JOIN q ON p.k = q.k AND p.d = q.d', 'packed-join-keys')
    add('SELECT p.k, COUNT(*) AS c FROM p JOIN q ON p.k = q.k AND p.d = q.d GROUP BY p.k', 'packed-join-keys+group')
    add('SELECT p.k, q.w FROM p JOIN q ON p.k = q.k WHERE (p.k = 1 AND q.w = 1) OR (p.k = 2 AND q.w = 2)', 'or-of-conjunctions')
    add('SELECT p.k, q.w FROM p JOIN q ON p.k = q.k WHERE (p.d = 1 AND q.w IN (1, 2)) OR (p.d = 2 AND q.w = 3) OR p.k = 9', 'or-of-conjunctions-3')
    add('SELECT k, SUM(v) AS sv FROM p GROUP BY k HAVING SUM(v) > (SELECT SUM(v) * 0.1 FROM p)', 'having-total')
    add('SELECT p.k, q.w, r.z FROM p JOIN q ON p.k = q.k JOIN r ON q.w = r.w', 'join-chain-3')
    add('SELECT p.k, q.w, r.z FROM r, q, p WHERE p.k = q.k AND q.w = r.w AND r.z > 0', 'join-chain-3-comma')
    add('SELECT p.k, r.z FROM p JOIN q ON p.k = q.k JOIN r ON q.w = r.w JOIN p p2 ON p2.k = r.w', 'join-chain-4')
    add('SELECT k, d FROM p WHERE k IN (SELECT k FROM q WHERE w > 1)', 'semi-join')
    add('SELECT p.k, p.v FROM p JOIN q ON p.k = q.k WHERE EXISTS (SELECT 1 FROM r WHERE r.w = q.w)', 'semi-join-pushdown')
    add('SELECT p.k, p.v FROM p LEFT JOIN q ON p.k = q.k WHERE q.w IS NULL', 'left-join-where-null')
    add('SELECT p.k, q.w FROM p LEFT JOIN q ON p.k = q.k WHERE p.d = 1', 'left-join-where-left')
    add('SELECT p.k, q.w FROM p LEFT JOIN q ON p.k = q.k AND q.w = 2', 'left-join-on-right-pred')
    add('SELECT p.k, q.w FROM p LEFT JOIN q ON p.k = q.k WHERE COALESCE(q.w, 0) = 0', 'left-join-where-coalesce')
    # dimension / fact pair (cust.c_id unique, dense, null-free; ord.o_cust a foreign key inside its range): the functional-dependency group-key
    # reduction, its deferred decoration join under ORDER BY .. LIMIT, and the pruning of the row-preserving key join
    base = 'SELECT c_id, c_name, SUM(o_amt) AS t FROM cust JOIN ord ON c_id = o_cust GROUP BY c_id, c_name'
    add(base, 'fd-group')
    add(base + ' ORDER BY t DESC, c_id LIMIT 2', 'fd-group+topk-key-tiebreak', ref=base, order=[(2, True, False), (0, False, False)], limit=2)
    add(base + ' ORDER BY t DESC LIMIT 2', 'fd-group+topk', ref=base, order=[(2, True, False)], limit=2)
    add(base + ' ORDER BY c_id DESC LIMIT 1', 'fd-group+topk-by-key', ref=base, order=[(0, True, False)], limit=1)
    add('SELECT c_id, c_name, c_seg, COUNT(*) AS n, MAX(o_amt) AS m FROM cust JOIN ord ON c_id = o_cust GROUP BY c_id, c_name, c_seg ORDER BY n DESC, m DESC, c_id LIMIT 3', 'fd-group-3+topk',
        ref='SELECT c_id, c_name, c_seg, COUNT(*) AS n, MAX(o_amt) AS m FROM cust JOIN ord ON c_id = o_cust GROUP BY c_id, c_name, c_seg', order=[(3, True, False), (4, True, False), (0, False, False)], limit=3)
    add('SELECT o_cust, c_name, SUM(o_amt) AS t FROM ord JOIN cust ON o_cust = c_id GROUP BY o_cust, c_name ORDER BY t DESC, o_cust LIMIT 2', 'fd-group-fk-key+topk',
        ref='SELECT o_cust, c_name, SUM(o_amt) AS t FROM ord JOIN cust ON o_cust = c_id GROUP BY o_cust, c_name', order=[(2, True, False), (0, False, False)], limit=2)
    add('SELECT c_id, c_name, SUM(o_amt) AS t FROM cust JOIN ord ON c_id = o_cust JOIN r ON r.w = c_id GROUP BY c_id, c_name ORDER BY t DESC, c_id LIMIT 2', 'fd-group-3-tables+topk',
        ref='SELECT c_id, c_name, SUM(o_amt) AS t FROM cust JOIN ord ON c_id = o_cust JOIN r ON r.w = c_id GROUP BY c_id, c_name', order=[(2, True, False), (0, False, False)], limit=2)
    add('SELECT DISTINCT k FROM p WHERE 1 = 1 AND (k > 0 OR NULL IS NULL)', 'constant-folding')
    add('SELECT k FROM p WHERE k = 1 + 1 AND 2 > 1', 'constant-folding-2')
    return S


def run(rep):
    quick = rep.tier == 'quick'
    units = []
    # Part A: the umbrella corpus on a dirty database, in memory and as Parquet (statistics-aware rule variants)
    st = corpus.statements(1)
    if quick:
        st = [s for i, s in enumerate(st) if i % 3 == rep.seed % 3]
    dbs = corpus.databases(1, 0)
    dirty = dbs[-2]
    dirty_pq = {'tables': [dict(t, storage='parquet', rg=3) for t in dirty['tables']]}
    for db in (dirty, dirty_pq):
        for i in range(0, len(st), 12):
            units.append({'db': db, 'stmts': st[i:i + 12]})
    # Part B: statistics-driven shapes over key multisets whose range exceeds their row count without being unique
    kdom = [1, 2, 5, 9, None]
    kms = list(multisets(kdom, 3 if quick else 4, 1))
    kms = rotate(kms, rep.seed)
    sh = stats_shapes()
    for km in kms:
        prow = [[k, (i % 2) + 1, F([0.5, 2.0, 1.5, 4.0][i % 4]), ['a', 'b'][i % 2]] for i, k in enumerate(km)]
        qrow = [[1, 1, 1], [2, 2, 1], [5, 3, 2], [1, 2, 2], [None, 1, 1]]
        rrow = [[1, 10], [2, 20], [3, 0], [2, 21]]
        for storage in ('parquet', 'mem'):
            kw = {'storage': 'parquet', 'rg': 2} if storage == 'parquet' else {}
            db = {'tables': [table('p', [['k', 'int64'], ['d', 'int64'], ['v', 'float64'], ['s', 'utf8']], prow, **kw),
                             table('q', [['k', 'int64'], ['w', 'int64'], ['d', 'int64']], qrow, **kw),
                             table('r', [['w', 'int64'], ['z', 'int64']], rrow, **kw),
                             table('cust', [['c_id', 'int64'], ['c_name', 'utf8'], ['c_seg', 'int64']], [[1, 'ann', 7], [2, 'bob', 7], [3, 'cy', 8]], **kw),
                             table('ord', [['o_id', 'int64'], ['o_cust', 'int64'], ['o_amt', 'float64']],
                                   # at least 4 orders over the 3 customers: o_cust never LOOKS unique (range < rows), so only the genuinely unique c_id drives the rewrite
                                   # (the unsound uniqueness inference from min/max is C04's / C18's listed finding)
                                   [[10 + i, (k % 3) + 1, F(['1.0', '2.5', '2.5', '4.0'][i % 4])] for i, k in enumerate(km) if k is not None]
                                   + [[20, 1, F('1.0')], [21, 2, F('2.5')], [22, 2, F('0.5')], [23, 3, F('4.0')]], **kw)]}
            units.append({'db': db, 'stmts': sh, 'known_unopt': {'id': 'unoptimized_in_subquery_same_name_capture', 'patterns': ['k IN (SELECT k FROM q']}})
    modes = [(r,) for r in optdiff.RULES] + ['prod']
    rep.rule = ('Part A: %d corpus statements on the dirty database in memory and as Parquet; Part B: %d statistics-driven shapes (group keys over a join tree, eager aggregation, packed group/join '
                'keys, OR-of-conjunctions, HAVING total, 3-4 table join chains, semi-join pushdown, LEFT JOIN predicate placement, constant folding, and a dimension/fact pair whose key is provably unique and dense: functional-dependency group keys with top-k above them) over every key multiset of 1..%d values from '
                '{1,2,5,9,NULL} (ranges exceeding row counts without being unique), Parquet (statistics) and memory; each statement executed unoptimized, with each of the 14 rules alone and with the '
                'production pipeline; oracle: every optimized execution returns the unoptimized rows (sequence where ORDER BY is given, LIMIT slices up to ties); incomparable when the unoptimized plan refuses'
                % (len(st), len(sh), 3 if quick else 4))
    optdiff.run(rep, units, modes, 'rows')


def replay(payload):
    return optdiff.replay(payload)
