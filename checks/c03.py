"""C03 optimization never changes the answer: unoptimized vs each rule alone vs the production pipeline."""
import itertools
from vlib import optdiff
from vlib.enumr import multisets, rotate
from . import corpus
from .common import table, F

LEVEL = 'exploration'


def stats_shapes():
    S = []

    def add(sql, tag, **kw):
        d = {'sql': sql, 'tag': tag}
        d.update(kw)
        S.append(d)
    add('SELECT k, d, COUNT(*) AS c, SUM(v) AS sv FROM p GROUP BY k, d', 'group-k-d')
    add('SELECT k, d, s, COUNT(*) AS c FROM p GROUP BY k, d, s', 'group-k-d-s')
    add('SELECT p.k, p.d, q.w, COUNT(*) AS c FROM p JOIN q ON p.k = q.k GROUP BY p.k, p.d, q.w', 'group-over-join')
    add('SELECT p.k, p.d, q.w, SUM(p.v) AS sv FROM p JOIN q ON p.k = q.k GROUP BY p.k, p.d, q.w ORDER BY sv DESC NULLS LAST, p.k NULLS LAST, p.d, q.w LIMIT 2', 'group-over-join+order+limit',
        ref='SELECT p.k, p.d, q.w, SUM(p.v) AS sv FROM p JOIN q ON p.k = q.k GROUP BY p.k, p.d, q.w', order=[(3, True, False), (0, False, False), (1, False, False), (2, False, False)], limit=2)
    add('SELECT q.w, SUM(p.v) AS sv, COUNT(*) AS c FROM p JOIN q ON p.k = q.k GROUP BY q.w', 'eager-agg')
    add('SELECT q.w, MIN(p.v) AS mn, MAX(p.d) AS mx FROM p JOIN q ON p.k = q.k GROUP BY q.w', 'eager-agg-minmax')
    add('SELECT q.w, AVG(p.v) AS av FROM p JOIN q ON p.k = q.k GROUP BY q.w', 'eager-agg-avg', approx=True)
    add('SELECT p.v, q.w FROM p JOIN q ON p.k = q.k AND p.d = q.d', 'packed-join-keys')
    add('SELECT p.k, COUNT(*) AS c FROM p JOIN q ON p.k = q.k AND p.d = q.d GROUP BY p.k', 'packed-join-keys+group')
    add('SELECT p.k, q.w FROM p JOIN q ON p.k = q.k WHERE (p.k = 1 AND q.w = 1) OR (p.k = 2 AND q.w = 2)', 'or-of-conjunctions')
    add('SELECT p.k, q.w FROM p JOIN q ON p.k = q.k WHERE (p.d = 1 AND q.w IN (1, 2)) OR (p.d = 2 AND q.w = 3) OR p.k = 9', 'or-of-conjunctions-3')
    add('SELECT k, SUM(v) AS sv FROM p GROUP BY k HAVING SUM(v) > (SELECT SUM(v) * 0.1 FROM p)', 'having-total')
    add('SELECT p.k, q.w, r.z FROM p JOIN q ON p.k = q.k JOIN r ON q.w = r.w', 'join-chain-3')
    add('SELECT p.k, q.w, r.z FROM r, q, p WHERE p.k = q.k AND q.w = r.w AND r.z > 0', 'join-chain-3-comma')
    add('SELECT p.k, r.z FROM p JOIN q ON p.k = q.k JOIN r ON q.w = r.w JOIN p p2 ON p2.k = r.w', 'join-chain-4')
    add('SELECT k, d FROM p WHERE k IN (SELECT k FROM q WHERE w > 1)', 'semi-join')
    add('SELECT p.k, p.v FROM p JOIN q ON p.k = q.k WHERE EXISTS (SELECT 1 FROM r WHERE r.w = q.w)', 'semi-join-pushdown')
    # a semi / anti join above an outer join, keyed on the NULL-supplying side: it may not move below the join
    add('SELECT p.k, q.w FROM p LEFT JOIN q ON p.k = q.k WHERE q.w IN (SELECT w FROM r)', 'semi-above-left-join-nullable')
    add('SELECT p.k, q.w FROM p LEFT JOIN q ON p.k = q.k WHERE EXISTS (SELECT 1 FROM r WHERE r.w = q.w)', 'semi-exists-above-left-join-nullable')
    add('SELECT p.k, q.w FROM p LEFT JOIN q ON p.k = q.k WHERE NOT EXISTS (SELECT 1 FROM r WHERE r.w = q.w)', 'anti-above-left-join-nullable')
    add('SELECT p.k, q.w FROM q RIGHT JOIN p ON p.k = q.k WHERE q.w IN (SELECT w FROM r)', 'semi-above-right-join-nullable')
    add('SELECT p.k, q.w FROM p LEFT JOIN q ON p.k = q.k WHERE p.d IN (SELECT w FROM r)', 'semi-above-left-join-preserved')
    add('SELECT p.k, p.v FROM p LEFT JOIN q ON p.k = q.k WHERE q.w IS NULL', 'left-join-where-null')
    add('SELECT p.k, q.w FROM p LEFT JOIN q ON p.k = q.k WHERE p.d = 1', 'left-join-where-left')
    add('SELECT p.k, q.w FROM p LEFT JOIN q ON p.k = q.k AND q.w = 2', 'left-join-on-right-pred')
    add('SELECT p.k, q.w FROM p LEFT JOIN q ON p.k = q.k WHERE COALESCE(q.w, 0) = 0', 'left-join-where-coalesce')
    # dimension / fact pair (cust.c_id unique, dense, null-free; ord.o_cust a foreign key inside its range): the functional-dependency group-key
    # reduction, its deferred decoration join under ORDER BY .. LIMIT, and the pruning of the row-preserving key join
    base = 'SELECT c_id, c_name, SUM(o_amt) AS t FROM cust JOIN ord ON c_id = o_cust GROUP BY c_id, c_name'
    add(base, 'fd-group')
    add(base + ' ORDER BY t DESC, c_id LIMIT 2', 'fd-group+topk-key-tiebreak', ref=base, order=[(2, True, False), (0, False, False)], limit=2)
    add(base + ' ORDER BY t DESC LIMIT 2', 'fd-group+topk', ref=base, order=[(2, True, False)], limit=2)
    add(base + ' ORDER BY c_id DESC LIMIT 1', 'fd-group+topk-by-key', ref=base, order=[(0, True, False)], limit=1)
    add('SELECT c_id, c_name, c_seg, COUNT(*) AS n, MAX(o_amt) AS m FROM cust JOIN ord ON c_id = o_cust GROUP BY c_id, c_name, c_seg ORDER BY n DESC, m DESC, c_id LIMIT 3', 'fd-group-3+topk',
        ref='SELECT c_id, c_name, c_seg, COUNT(*) AS n, MAX(o_amt) AS m FROM cust JOIN ord ON c_id = o_cust GROUP BY c_id, c_name, c_seg', order=[(3, True, False), (4, True, False), (0, False, False)], limit=3)
    add('SELECT o_cust, c_name, SUM(o_amt) AS t FROM ord JOIN cust ON o_cust = c_id GROUP BY o_cust, c_name ORDER BY t DESC, o_cust LIMIT 2', 'fd-group-fk-key+topk',
        ref='SELECT o_cust, c_name, SUM(o_amt) AS t FROM ord JOIN cust ON o_cust = c_id GROUP BY o_cust, c_name', order=[(2, True, False), (0, False, False)], limit=2)
    add('SELECT c_id, c_name, SUM(o_amt) AS t FROM cust JOIN ord ON c_id = o_cust JOIN r ON r.w = c_id GROUP BY c_id, c_name ORDER BY t DESC, c_id LIMIT 2', 'fd-group-3-tables+topk',
        ref='SELECT c_id, c_name, SUM(o_amt) AS t FROM cust JOIN ord ON c_id = o_cust JOIN r ON r.w = c_id GROUP BY c_id, c_name', order=[(2, True, False), (0, False, False)], limit=2)
    # a LIMIT below a filter / join / aggregate is a barrier: no rule may move the outer predicate under it (v is unique per row, so the slice is determined)
    for q in ('SELECT k, d, v FROM p ORDER BY v LIMIT 2', 'SELECT k, d, v FROM p ORDER BY v DESC LIMIT 2 OFFSET 1'):
        add('SELECT k, v FROM (%s) x WHERE d = 2' % q, 'filter-above-limit')
        add('SELECT k, v FROM (%s) x WHERE k > 1' % q, 'filter-above-limit-key')
        add('SELECT x.k, q.w FROM (%s) x JOIN q ON x.k = q.k WHERE x.d = 1' % q, 'join-filter-above-limit')
        add('SELECT COUNT(*) AS c, SUM(v) AS sv FROM (%s) x WHERE d = 1' % q, 'aggregate-above-limit')
        add('SELECT k, d FROM (SELECT k, d FROM (%s) x WHERE d = 2) y WHERE k IS NOT NULL' % q, 'two-filters-above-limit')
    add('SELECT DISTINCT k FROM p WHERE 1 = 1 AND (k > 0 OR NULL IS NULL)', 'constant-folding')
    add('SELECT k FROM p WHERE k = 1 + 1 AND 2 > 1', 'constant-folding-2')
    return S


def run(rep):
    quick = rep.tier == 'quick'
    units = []
    # Part A: the umbrella corpus on a dirty database, in memory and as Parquet (statistics-aware rule variants)
    st = corpus.statements(1)
    if quick:
        st = [s for i, s in enumerate(st) if i % 3 == rep.seed % 3]
    dbs = corpus.databases(1, 0)
    dirty = dbs[-2]
    dirty_pq = {'tables': [dict(t, storage='parquet', rg=3) for t in dirty['tables']]}
    for db in (dirty, dirty_pq):
        for i in range(0, len(st), 12):
            units.append({'db': db, 'stmts': st[i:i + 12]})
    # Part B: statistics-driven shapes over key multisets whose range exceeds their row count without being unique
    kdom = [1, 2, 5, 9, None]
    kms = list(multisets(kdom, 3 if quick else 4, 1))
    kms = rotate(kms, rep.seed)
    sh = stats_shapes()
    for km in kms:
        prow = [[k, (i % 2) + 1, F([0.5, 2.0, 1.5, 4.0][i % 4]), ['a', 'b'][i % 2]] for i, k in enumerate(km)]
        qrow = [[1, 1, 1], [2, 2, 1], [5, 3, 2], [1, 2, 2], [None, 1, 1]]
        rrow = [[1, 10], [2, 20], [3, 0], [2, 21]]
        for storage in ('parquet', 'mem'):
            kw = {'storage': 'parquet', 'rg': 2} if storage == 'parquet' else {}
            db = {'tables': [table('p', [['k', 'int64'], ['d', 'int64'], ['v', 'float64'], ['s', 'utf8']], prow, **kw),
                             table('q', [['k', 'int64'], ['w', 'int64'], ['d', 'int64']], qrow, **kw),
                             table('r', [['w', 'int64'], ['z', 'int64']], rrow, **kw),
                             table('cust', [['c_id', 'int64'], ['c_name', 'utf8'], ['c_seg', 'int64']], [[1, 'ann', 7], [2, 'bob', 7], [3, 'cy', 8]], **kw),
                             table('ord', [['o_id', 'int64'], ['o_cust', 'int64'], ['o_amt', 'float64']],
                                   # at least 4 orders over the 3 customers: o_cust never LOOKS unique (range < rows), so only the genuinely unique c_id drives the rewrite
                                   # (the unsound uniqueness inference from min/max is C04's / C18's listed finding)
                                   [[10 + i, (k % 3) + 1, F(['1.0', '2.5', '2.5', '4.0'][i % 4])] for i, k in enumerate(km) if k is not None]
                                   + [[20, 1, F('1.0')], [21, 2, F('2.5')], [22, 2, F('0.5')], [23, 3, F('4.0')]], **kw)]}
            units.append({'db': db, 'stmts': sh})
    # Part C: two-column integer keys whose four columns have DIFFERENT names and different ranges (statistics looked up per column, nothing widened across
    # the tables): the packing radix must cover the larger side whichever side it is on
    vdom = [0, 1, 2, 5]
    pairs = list(itertools.product(vdom, vdom))
    one = [[p] for p in pairs]
    two = [list(c) for c in itertools.combinations_with_replacement(pairs, 2)]
    sides = [(l, r) for l in one for r in one]
    if quick:
        sides += [(l, r) for l in two for r in one if max(max(x) for x in l) == 5 and max(r[0]) <= 2][:: 2]
    else:
        sides += [(l, r) for l in two for r in one] + [(l, r) for l in one for r in two]
    sides = rotate(sides, rep.seed)
    cstm = [{'sql': q, 'tag': t} for q, t in (
        ('SELECT la, lb, lv, rv FROM l JOIN r ON la = ra AND lb = rb', 'packed-join-distinct-names'),
        ('SELECT la, lb, lv, rv FROM r JOIN l ON rb = lb AND ra = la', 'packed-join-distinct-names-swapped'),
        ('SELECT la, lb, lv, rv FROM l, r WHERE la = ra AND lb = rb AND lv < rv', 'packed-join-comma'),
        ('SELECT la, rb, COUNT(*) AS c FROM l JOIN r ON la = ra AND lb = rb GROUP BY la, rb', 'packed-join+group'),
        ('SELECT la, lb, COUNT(*) AS c, SUM(lv) AS sv FROM l GROUP BY la, lb', 'packed-group-distinct-names'),
        ('SELECT la, rb, COUNT(*) AS c FROM l JOIN r ON la = ra GROUP BY la, rb', 'packed-group-over-join'))]
    cmodes = [('PackedJoinKeys',), ('PackedGroupKeys',), ('JoinReorder',), ('EagerAggregation',), 'prod']
    for i in range(0, len(sides), 8):
        for l, r in sides[i:i + 8]:
            db = {'tables': [table('l', [['la', 'int64'], ['lb', 'int64'], ['lv', 'int64']], [[a, b, 10 + j] for j, (a, b) in enumerate(l)], storage='parquet', rg=2),
                             table('r', [['ra', 'int64'], ['rb', 'int64'], ['rv', 'int64']], [[a, b, 100 + j] for j, (a, b) in enumerate(r)], storage='parquet', rg=2)]}
            units.append({'db': db, 'stmts': cstm, 'modes': cmodes})
    rep.extra['part_c_databases'] = len(sides)
    modes = [(r,) for r in optdiff.RULES] + ['prod']
    rep.rule = ('Part A: %d corpus statements on the dirty database in memory and as Parquet; Part B: %d statistics-driven shapes (group keys over a join tree, eager aggregation, packed group/join '
                'keys, OR-of-conjunctions, HAVING total, 3-4 table join chains, semi-join pushdown, LEFT JOIN predicate placement, filters/joins/aggregates above a LIMIT derived table, constant folding, and a dimension/fact pair whose key is provably unique and dense: functional-dependency group keys with top-k above them) over every key multiset of 1..%d values from '
                '{1,2,5,9,NULL} (ranges exceeding row counts without being unique), Parquet (statistics) and memory; each statement executed unoptimized, with each of the 14 rules alone and with the '
                'production pipeline; oracle: every optimized execution returns the unoptimized rows (sequence where ORDER BY is given, LIMIT slices up to ties); incomparable when the unoptimized plan refuses. Part C: l(la,lb,lv) x r(ra,rb,rv) on Parquet, every pair of key rows over {0,1,2,5}^2 on each side (plus two-row sides), 6 two-key join / group shapes under the packing, reordering and eager-aggregation rules and production'
                % (len(st), len(sh), 3 if quick else 4))
    optdiff.run(rep, units, modes, 'rows')


def replay(payload):
    return optdiff.replay(payload)
