"""C07 answers do not depend on parallelism, batching or scheduling."""
import hashlib, json, os, re, traceback
import multiprocessing as mp
from vlib import sqldiff, driver as drv
from vlib.compare import norm_rows, compare_result
from vlib.enumr import compositions
from .common import table

LEVEL = 'model_checking'

TC = [['a', 'int64'], ['b', 'int64'], ['s', 'utf8']]
UC = [['a', 'int64'], ['c', 'int64']]
T6 = [[1, 10, 'x'], [2, 20, 'y'], [2, None, 'x'], [None, 10, None], [3, 30, 'z'], [1, 10, 'x']]
U4 = [[1, 100], [2, 200], [2, 201], [None, 300]]


def statements():
    S = []

    def add(sql, tag, order=None, limit=None, offset=None):
        st = {'sql': sql, 'tag': tag, 'order': order, 'limit': limit, 'offset': offset}
        if limit is not None or offset is not None:
            st['full'] = re.sub(r'( LIMIT \d+)?( OFFSET \d+)?$', '', sql)
        S.append(st)
    add('SELECT a, b, s FROM t', 'scan')
    add('SELECT a FROM t WHERE b >= 10', 'filter')
    add('SELECT a + 1 AS x, s FROM t WHERE a IS NOT NULL', 'project')
    for n in (1, 3, 5):
        add('SELECT a, b FROM t LIMIT %d' % n, 'limit', limit=n)
    add('SELECT a, b FROM t LIMIT 2 OFFSET 3', 'limit-offset', limit=2, offset=3)
    add('SELECT a, b FROM t WHERE b IS NOT NULL LIMIT 2', 'filter-limit', limit=2)
    add('SELECT a, b FROM t ORDER BY b DESC NULLS LAST, a NULLS LAST LIMIT 3', 'topk', order=[(1, True, False), (0, False, False)], limit=3)
    add('SELECT a, b FROM t ORDER BY a NULLS FIRST, b NULLS FIRST LIMIT 2 OFFSET 2', 'topk-offset', order=[(0, False, True), (1, False, True)], limit=2, offset=2)
    add('SELECT a, s FROM t ORDER BY s NULLS LAST, a NULLS LAST', 'sort', order=[(1, False, False), (0, False, False)])
    add('SELECT a FROM t UNION ALL SELECT a FROM u', 'union-all')
    add('SELECT a FROM t UNION SELECT a FROM u', 'union')
    add('SELECT a FROM t UNION ALL SELECT a FROM u LIMIT 4', 'union-all-limit', limit=4)
    add('SELECT a FROM t INTERSECT SELECT a FROM u', 'intersect')
    add('SELECT a FROM t EXCEPT SELECT a FROM u WHERE c > 150', 'except')
    add('SELECT DISTINCT a FROM t', 'distinct')
    add('SELECT DISTINCT s, b FROM t', 'distinct-2')
    add('SELECT COUNT(*), SUM(b), MIN(s), MAX(a), COUNT(DISTINCT a) FROM t', 'global-agg')
    add('SELECT MIN(a), MAX(a), MIN(b), MAX(b), MIN(s), MAX(s), SUM(a), AVG(b), COUNT(b) FROM t', 'global-minmax')
    add('SELECT MIN(b), MAX(b) FROM t WHERE a = 2', 'global-minmax-filter')
    add('SELECT a, MIN(b) AS mn, MAX(b) AS mx, COUNT(DISTINCT s) AS ds FROM t GROUP BY a', 'group-minmax-distinct')
    add('SELECT s, MIN(a) AS mn, MAX(a) AS mx, SUM(b) AS sb, COUNT(DISTINCT b) AS db FROM t GROUP BY s', 'group-str-minmax-distinct')
    add('SELECT a, MIN(b) AS mn, MAX(s) AS mx FROM t GROUP BY a', 'group-minmax')
    add('SELECT a, COUNT(*) AS c, SUM(b) AS sb FROM t GROUP BY a', 'group')
    add('SELECT s, MIN(b) AS mn, MAX(b) AS mx, AVG(b) AS av FROM t GROUP BY s', 'group-str')
    add('SELECT a, COUNT(*) AS c FROM t GROUP BY a HAVING COUNT(*) > 1', 'having')
    add('SELECT a, COUNT(DISTINCT b) AS c FROM t GROUP BY a', 'group-count-distinct')
    for jt in ('JOIN', 'LEFT JOIN', 'RIGHT JOIN', 'FULL JOIN'):
        add('SELECT t.a, t.b, u.c FROM t %s u ON t.a = u.a' % jt, 'join-' + jt.split()[0].lower())
    add('SELECT t.a, u.c FROM t JOIN u ON t.a = u.a AND t.b < u.c', 'join-filter')
    add('SELECT t.a, u.c FROM t, u WHERE t.b * 10 = u.c', 'cross-filter')
    add('SELECT a, b FROM t WHERE a IN (SELECT a FROM u)', 'semi')
    add('SELECT a, b FROM t WHERE NOT EXISTS (SELECT 1 FROM u WHERE u.a = t.a)', 'anti')
    add('SELECT a, b FROM t WHERE b > (SELECT MIN(c) / 10 FROM u)', 'scalar-subquery')
    add('SELECT t.a, COUNT(*) AS n, SUM(u.c) AS sc FROM t JOIN u ON t.a = u.a GROUP BY t.a', 'join-agg')
    add('SELECT t.a, u.c FROM t JOIN u ON t.a = u.a ORDER BY u.c DESC, t.b NULLS LAST LIMIT 3', 'join-topk', order=[(1, True, False)], limit=3)
    add('SELECT a, b, ROW_NUMBER() OVER (PARTITION BY a ORDER BY b NULLS LAST, s NULLS LAST) AS rn FROM t', 'window-rownumber')
    add('SELECT a, SUM(b) OVER (PARTITION BY a) AS sb FROM t', 'window-sum')
    add('WITH x AS (SELECT a, COUNT(*) AS c FROM t GROUP BY a) SELECT x.a, x.c, u.c FROM x JOIN u ON x.a = u.a', 'cte-join')
    add('SELECT a FROM (SELECT a FROM t UNION ALL SELECT a FROM u) q WHERE a > 1', 'union-subquery-filter')
    add('SELECT a, b FROM t WHERE a = 2 OR b = 10', 'filter-or')
    return S


def _layouts(rows, maxb):
    return [c for c in compositions(len(rows), maxb)]


def mk_db(trows, tb, urows, ub):
    return {'tables': [table('t', TC, trows, batches=tb), table('u', UC, urows, batches=ub)]}


def _judge(st, eng, base):
    full = base[st.get('full', st['sql'])]
    if not base[st['sql']].get('ok') or not full.get('ok'):
        return 'skip'
    if not eng.get('ok'):
        return 'the 1-batch/1-thread run answers but this configuration fails: %s %s' % (eng.get('err'), (eng.get('msg') or '')[:200])
    return compare_result(norm_rows(eng['rows'], True), norm_rows(full['rows'], True), st.get('order'), st.get('limit'), st.get('offset'))


def _baseline(trows, urows, stmts):
    d = sqldiff.get_driver({'name': 'base', 'env': {'RAYON_NUM_THREADS': '1', 'QE_DRIVER_TOKIO_THREADS': '1'}})
    sqldiff.reg_db(d, mk_db(trows, [len(trows)], urows, [len(urows)]), 'base')
    d.call({'op': 'hooks', 'mem_partition_min_rows': None})
    base = {}
    for s in stmts:
        for q in {s['sql'], s.get('full', s['sql'])}:
            if q not in base:
                base[q] = d.call({'op': 'sql', 'db': 'base', 'sql': q}, timeout=120)
    d.call({'op': 'dropdb', 'db': 'base'})
    return base


def _work_cfg(args):
    """part A: batch layouts x threads x partition gate"""
    prop, trows, urows, tlays, ulays, threads, hooks, stmts = args
    out = {'evaluations': 0, 'counts': {}, 'violations': [], 'nontrivial': set(), 'samples': [], 'errors': [], 'plans': {}}
    try:
        base = _baseline(trows, urows, stmts)
        for th in threads:
            d = sqldiff.get_driver({'name': 'th%d' % th, 'env': {'RAYON_NUM_THREADS': str(th), 'QE_DRIVER_TOKIO_THREADS': str(min(th, 4))}})
            for hk in hooks:
                d.call({'op': 'hooks', 'mem_partition_min_rows': hk})
                try:
                    for tb in tlays:
                        for ub in ulays:
                            db = mk_db(trows, tb, urows, ub)
                            sqldiff.reg_db(d, db)
                            for i, s in enumerate(stmts):
                                out['evaluations'] += 1
                                want_plan = (len(tb) + len(ub) + i) % 11 == 0
                                r = d.call({'op': 'sql', 'db': 'd', 'sql': s['sql'], 'plan': want_plan}, timeout=120)
                                if r.get('plan'):
                                    pk = '>'.join(r['plan'])
                                    out['plans'][pk] = out['plans'].get(pk, 0) + 1
                                why = _judge(s, r, base)
                                if why == 'skip':
                                    out['counts']['baseline_refuses'] = out['counts'].get('baseline_refuses', 0) + 1
                                elif why:
                                    out['counts']['violation'] = out['counts'].get('violation', 0) + 1
                                    if len(out['violations']) < 8:
                                        out['violations'].append({'property': prop, 'kind': 'config', 'db': db if len(trows) < 100 else {'note': 'large table', 't_batches': tb, 'u_batches': ub, 'rows': len(trows)},
                                                                  'stmt': s, 'threads': th, 'mem_partition_min_rows': hk, 'why': why,
                                                                  'rows': (r.get('rows') or [])[:20], 'baseline_rows': base[s.get('full', s['sql'])].get('rows', [])[:20]})
                                else:
                                    out['counts']['agree'] = out['counts'].get('agree', 0) + 1
                                    out['nontrivial'].add(hashlib.sha1(json.dumps([len(trows), tb, ub, th, hk, s['sql']]).encode()).digest()[:8])
                finally:
                    d.call({'op': 'hooks', 'mem_partition_min_rows': None})
    except Exception:
        out['errors'].append(traceback.format_exc())
    return out


def _work_sched(args):
    """part B + C: partition contract and poll-order exploration"""
    prop, trows, urows, tb, ub, th, bound, cap, stmts = args
    out = {'evaluations': 0, 'counts': {}, 'violations': [], 'nontrivial': set(), 'samples': [], 'errors': [], 'plans': {}}

    def cnt(k, n=1):
        out['counts'][k] = out['counts'].get(k, 0) + n
    try:
        base = _baseline(trows, urows, stmts)
        d = sqldiff.get_driver({'name': 'sch%d' % th, 'env': {'RAYON_NUM_THREADS': str(th), 'QE_DRIVER_TOKIO_THREADS': '2'}})
        d.call({'op': 'hooks', 'mem_partition_min_rows': 0})
        try:
            db = mk_db(trows, tb, urows, ub)
            sqldiff.reg_db(d, db)
            for s in stmts:
                if not base[s['sql']].get('ok'):
                    continue
                c = d.call({'op': 'contract', 'db': 'd', 'sql': s['sql']}, timeout=120)
                out['evaluations'] += 1
                if not c.get('ok'):
                    out['violations'].append({'property': prop, 'kind': 'contract', 'db': db, 'stmt': s, 'threads': th, 'why': 'planning fails under this layout: %s' % c.get('msg')})
                    continue
                cnt('operator_partitions_executed', c['executed'])
                cnt('multi_partition_operators', c['multi_partition_nodes'])
                why = None
                if c['failures']:
                    why = 'a declared partition cannot be executed: %s' % json.dumps(c['failures'][:3])
                else:
                    why = _judge(s, c, base)
                    if why == 'skip':
                        why = None
                    elif why:
                        why = 'executing the root partitions one after another: ' + why
                if why:
                    cnt('violation')
                    out['violations'].append({'property': prop, 'kind': 'contract', 'db': db, 'stmt': s, 'threads': th, 'why': why, 'contract': {k: v for k, v in c.items() if k != 'rows'}})
                    continue
                cnt('contract_ok')
                # poll-order exploration of every operator that declares >= 2 partitions
                nodes = c['nodes']
                for node in range(nodes):
                    r = d.call({'op': 'sched', 'db': 'd', 'sql': s['sql'], 'node': node, 'bound': bound, 'max_schedules': cap}, timeout=900)
                    b2 = bound
                    while r.get('ok') and r['capped'] and b2 > 0 and all(o.get('ok') for o in r['outcomes']) and len(r['outcomes']) == 1:
                        # the cap cut the depth-first search short: complete the next lower preemption bound instead and say so
                        b2 -= 1
                        cnt('explorations_completed_at_bound_%d_instead' % b2)
                        out['evaluations'] += r['schedules']
                        r = d.call({'op': 'sched', 'db': 'd', 'sql': s['sql'], 'node': node, 'bound': b2, 'max_schedules': cap}, timeout=900)
                    if not r.get('ok'):
                        out['errors'].append('sched: %r' % r)
                        continue
                    if r['partitions'] < 2:
                        continue
                    out['evaluations'] += r['schedules']
                    cnt('schedules', r['schedules'])
                    cnt('diverged_replays', r['diverged'])
                    if r['capped']:
                        cnt('schedule_cap_hit')
                    cnt('explored_operators')
                    pk = '%s[%d parts]' % ('>'.join(r['plan'][:3]), r['partitions'])
                    out['plans'][pk] = out['plans'].get(pk, 0) + r['schedules']
                    outs = r['outcomes']
                    bad = None
                    for o in outs:
                        if not o.get('ok'):
                            bad = ('schedule fails (%s): %s' % ('deadlock' if o.get('deadlock') else 'error', o.get('msg')), o)
                            break
                    if bad is None and node == 0:
                        for o in outs:
                            w = _judge(s, o, base)
                            if w and w != 'skip':
                                bad = ('under this poll order: ' + w, o)
                                break
                    if bad is None and node > 0 and len(outs) > 1:
                        ms = {json.dumps(sorted(json.dumps(x) for x in o['rows'])) for o in outs}
                        if len(ms) > 1:
                            bad = ('operator output differs as a multiset between poll orders', outs[1])
                    if bad:
                        cnt('violation')
                        out['violations'].append({'property': prop, 'kind': 'sched', 'db': db, 'stmt': s, 'threads': th, 'node': node, 'operator': r['plan'][:3], 'why': bad[0],
                                                  'schedule': bad[1].get('example_schedule'), 'rows': (bad[1].get('rows') or [])[:20], 'baseline_rows': base[s.get('full', s['sql'])].get('rows', [])[:20]})
                    else:
                        cnt('schedules_agree', r['schedules'])
                        out['nontrivial'].add(hashlib.sha1(json.dumps([tb, ub, th, s['sql'], node]).encode()).digest()[:8])
                        if len(out['samples']) < 1 and r['schedules'] > 50:
                            out['samples'].append({'sql': s['sql'], 'operator': r['plan'][:3], 'partitions': r['partitions'], 'schedules': r['schedules'], 'max_preemptions': r['max_preemptions'],
                                                   'max_steps': r['max_steps'], 'distinct_outcomes': len(outs)})
        finally:
            d.call({'op': 'hooks', 'mem_partition_min_rows': None})
    except Exception:
        out['errors'].append(traceback.format_exc())
    return out


def run(rep):
    quick = rep.tier == 'quick'
    st = statements()
    tasks = []
    tl = _layouts(T6, 3 if quick else 4)
    ul = _layouts(U4, 2 if quick else 3)
    threads = [1, 2, 3, 16]
    # part A: small tables, hook opens the partition gate; each task = a slice of t layouts
    for i in range(0, len(tl), 2):
        tasks.append(('cfg', (rep.prop, T6, U4, tl[i:i + 2], ul, threads, [None, 0], st)))
    # > 4 batches (parallel aggregation / merge paths), 12 and 24 rows
    T12 = [[r[0], r[1], r[2]] for r in T6] + [[(r[0] or 0) + 3, (r[1] or 0) + 1, (r[2] or 'n') + 'q'] for r in T6]
    for tb in ([2] * 6, [1] * 12, [5, 1, 1, 1, 1, 1, 1, 1]):
        tasks.append(('cfg', (rep.prop, T12, U4, [tb], [[1, 1, 1, 1], [4]], threads, [None, 0], st)))
    # every rotation of the row order: each alignment of the NULLs with the per-thread chunks of consecutive batches
    agg = [x for x in st if x['tag'].startswith(('global', 'group', 'having', 'distinct', 'join-agg'))]
    for r in range(1, 12):
        rot = T12[r:] + T12[:r]
        for tb in ([1] * 12, [2] * 6) if (quick and r % 2) or not quick else ([1] * 12,):
            tasks.append(('cfg', (rep.prop, rot, U4, [tb], [[4]], threads, [0], agg)))
    # row-count gates of the parallel aggregation (> 50,000 rows: batch splitting when batches < threads; > 100,000 rows: morsel-parallel grouped
    # aggregation): 105,000 rows in 1 and in 8 batches under 1, 2 and 16 threads
    huge = [[r[0], r[1], r[2]] for r in T6] * 17500      # 105,000 rows
    hagg = [x for x in st if x['tag'] in ('global-agg', 'global-minmax', 'group', 'group-str', 'group-minmax', 'group-minmax-distinct', 'having', 'distinct')]
    for tb in ([105000], [13125] * 8):
        tasks.insert(0, ('cfg', (rep.prop, huge, U4, [tb], [[4]], [1, 2, 16], [None], hagg)))      # first: the long tasks must not be the tail
    if not quick:
        # production gate (>= 1000 rows) opens without the hook
        big = [[r[0], r[1], r[2]] for r in T6] * 250
        ubig = [[r[0], r[1]] for r in U4] * 2
        for tb in ([1500], [750, 750], [500, 500, 500], [100] * 15, [1, 1499], [300] * 5):
            tasks.append(('cfg', (rep.prop, big, ubig, [tb], [[8], [4, 4]], threads, [None], [s for s in st if 'join' not in s['tag'] and s['tag'] != 'cross-filter'] +
                                  [s for s in st if s['tag'] in ('join-join', 'join-left', 'join-agg')])))
    # part B/C
    bound = 2 if quick else 3
    cap = 3000 if quick else 60000
    sl = [([2, 2, 2], [2, 2]), ([1, 2, 3], [4])] if quick else [([2, 2, 2], [2, 2]), ([1, 2, 3], [4]), ([3, 3], [1, 1, 2]), ([1, 1, 1, 3], [2, 2]), ([6], [1, 3])]
    for tb, ub in sl:
        for th in ([3] if quick else [2, 4]):
            for i in range(0, len(st), 6):
                tasks.append(('sched', (rep.prop, T6, U4, tb, ub, th, bound, cap, st[i:i + 6])))
    rep.rule = ('(A) tables t (6 rows: NULLs, duplicates) and u (4 rows): every composition of t into 1..%d batches x every composition of u into 1..%d batches, plus 12 rows in 6/12/8 batches and, for the aggregate statements, every rotation of those 12 rows over 12 and 6 batches, and 105,000 rows in 1 and 8 batches (the 50,000- and 100,000-row gates of the parallel aggregation)%s; '
                'x RAYON_NUM_THREADS {1,2,3,16} x partition gate {production, open (hook H3)}; %d statements (LIMIT/OFFSET, top-k, sort, UNION [ALL], INTERSECT/EXCEPT, DISTINCT, grouped/global aggregates, '
                'inner/left/right/full/semi/anti joins, scalar subquery, windows, CTE); oracle: answer (multiset, or sequence up to ties under ORDER BY, LIMIT slices up to ties) equals the 1-batch/1-thread answer and never fails. '
                '(B) every declared partition of every operator of every physical plan is executed once on a fresh plan and must not fail; the root partitions concatenated equal the answer. '
                '(C) for every operator declaring >= 2 partitions, all orders in which its partition streams are polled (step = one poll of execute(p) or one poll_next), up to %d preemptions, '
                'each on a fresh plan under a current-thread runtime; oracle: no schedule fails or deadlocks, the root answer equals the baseline, an inner operator yields the same multiset under every order'
                % (3 if quick else 4, 2 if quick else 3, '' if quick else ', and 1500-row tables in 1..15 batches with the production gate', len(st), bound))
    plans = {}
    with mp.Pool(min(12, os.cpu_count() or 4), initializer=sqldiff._init) as pool:
        for out in pool.imap_unordered(_dispatch, tasks):
            rep.evaluations += out['evaluations']
            rep.merge_counts(out['counts'])
            rep.nontrivial |= out['nontrivial']
            for v in out['violations']:
                rep.violation(v)
            for s in out['samples']:
                rep.add_sample(s)
            for e in out['errors']:
                rep.machinery(e)
            for k, n in out['plans'].items():
                plans[k] = plans.get(k, 0) + n
    low = {k: v for k, v in rep.counts.items() if k.startswith('explorations_completed_at_bound_')}
    if low:
        rep.caps.append('max_schedules=%d per operator exploration: %s (all other explorations completed preemption bound %d)' % (cap, json.dumps(low), bound))
    if rep.counts.get('schedule_cap_hit'):
        rep.caps.append('%d explorations still capped at the lowest bound' % rep.counts['schedule_cap_hit'])
    rep.extra['plans_observed'] = dict(sorted(plans.items(), key=lambda kv: -kv[1])[:60])


def _dispatch(task):
    kind, args = task
    return _work_cfg(args) if kind == 'cfg' else _work_sched(args)


def replay(payload):
    env = {'RAYON_NUM_THREADS': str(payload.get('threads', 2))}
    d = drv.Driver(env=env)
    try:
        if 'tables' not in payload.get('db', {}):
            print('large-table configuration: %r' % payload['db'])
            return 1
        sqldiff.reg_db(d, payload['db'])
        if payload['kind'] == 'config':
            d.call({'op': 'hooks', 'mem_partition_min_rows': payload.get('mem_partition_min_rows')})
            print(d.call({'op': 'sql', 'db': 'd', 'sql': payload['stmt']['sql'], 'plan': True}))
        elif payload['kind'] == 'contract':
            d.call({'op': 'hooks', 'mem_partition_min_rows': 0})
            print(d.call({'op': 'contract', 'db': 'd', 'sql': payload['stmt']['sql']}))
        else:
            d.call({'op': 'hooks', 'mem_partition_min_rows': 0})
            for _ in range(2):   # the same schedule twice: identical observations
                print(d.call({'op': 'sched', 'db': 'd', 'sql': payload['stmt']['sql'], 'node': payload['node'], 'schedule': payload['schedule']}))
        print('baseline rows:', payload.get('baseline_rows'))
    finally:
        d.close()
    return 1
