"""C16 peer HTTP responses: every prefix of every response over a loopback socket."""
from vlib import native
LEVEL = 'fault_enumeration'


def run(rep):
    rep.rule = ('responses = {4 status lines} x {no Content-Length, exact, exact+1, exact-1, 0, abc, 2^64, duplicate same, duplicate different, lower-case + X-QE-Rows} x '
                '{4 bodies incl. one containing CRLFCRLF and one of 300 bytes}; fault = the peer sends only the first k bytes (every k; quick thins k > 90 to every 7th) in one or two '
                'writes and closes, or sends k bytes and never closes (client timeout 200 ms); delivered by a scripted TCP server on loopback to http_client::get; '
                'oracle: reference framing - Err when the header terminator/status is missing or the body is shorter than an agreed declared length, otherwise exactly the '
                'reference (status, X-QE-Rows, body); no panic; returns within timeout + slack; non-trivial = distinct byte prefix with a definite verdict')
    rep.assumptions = ['loopback TCP delivers the written bytes before FIN', 'timing slack 150-400 ms over the 200 ms client timeout absorbs scheduler noise']
    native.run(rep, 'c16')


def replay(payload):
    return native.replay_generic(payload)
