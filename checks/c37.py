"""C37 vector encodings round-trip; SIMD helpers match Arrow."""
from vlib import native
LEVEL = 'exploration'


def run(rep):
    rep.rule = ('every array of length 0..5 (quick) / 6 (thorough) over {NULL, v1, v2} for Int64/Int32/Float64 (0.5, -0.0)/Utf8/Boolean, also sliced at offset 1; structured families (constant, all NULL, '
                'alternating, runs of period 3 and 7, a single NULL first/middle/last, a final run of length 1) for every length 1..130; oracle: encode_optimal(a).decode() equals a in values, '
                'validity, length and (dictionary aside) type; filter_simd / compare_simd (6 ops) / add_simd / multiply_simd / sum_simd / count_simd over all equal-length pairs of the short arrays '
                'equal arrow::compute::filter, cmp::*, numeric::*_wrapping, sum, non-null count; non-trivial = an array of length >= 2 / a kernel comparison that ran')
    native.run(rep, 'c37')


def replay(payload):
    return native.replay_generic(payload)
