"""C08 running out of memory budget never changes an answer."""
import hashlib, json, os, re, traceback
import multiprocessing as mp
from vlib import sqldiff, driver as drv
from vlib.compare import norm_rows, compare_result
from .common import table, D, F

LEVEL = 'exploration'

WC = [['i', 'int64'], ['f', 'float64'], ['s', 'utf8'], ['d', 'date32'], ['b', 'bool']]
XC = [['i', 'int64'], ['x', 'int32']]
W12 = [
    [3, F(1.5), 'pear', D('2024-03-01'), True], [1, F(-2.0), 'apple', D('2023-01-15'), False], [None, F(0.0), None, D('2024-03-01'), None],
    [2, None, 'fig', None, True], [3, F(1.5), 'pear', D('2022-12-31'), False], [7, F(10.25), 'zebra', D('2025-07-04'), None],
    [None, None, 'apple', None, False], [5, F(-0.5), '', D('2024-02-29'), True], [1, F(3.0), 'Apple', D('2023-01-15'), True],
    [4, F(1.5), 'kiwi', D('2021-06-30'), False], [2, F(7.0), None, D('2024-03-01'), True], [6, F(-9.5), 'fig', D('2020-01-01'), None],
]
X6 = [[1, 10], [2, 20], [2, 21], [None, 30], [8, 80], [3, 31]]
KEYS = {'i': 0, 'f': 1, 's': 2, 'd': 3, 'b': 4}


def statements(quick):
    S = []

    def add(sql, tag, order=None, limit=None, offset=None):
        st = {'sql': sql, 'tag': tag, 'order': order, 'limit': limit, 'offset': offset}
        if limit is not None or offset is not None:
            st['full'] = re.sub(r'( LIMIT \d+)?( OFFSET \d+)?$', '', sql)
        S.append(st)
    cols = 'i, f, s, d, b'
    # ORDER BY: every key type x direction x NULLS placement, alone and with a second key
    for k, idx in KEYS.items():
        for desc in (False, True):
            for nf in (False, True):
                spec = '%s %s NULLS %s' % (k, 'DESC' if desc else 'ASC', 'FIRST' if nf else 'LAST')
                add('SELECT %s FROM w ORDER BY %s' % (cols, spec), 'sort-' + k, order=[(idx, desc, nf)])
                add('SELECT %s FROM w ORDER BY %s LIMIT 4' % (cols, spec), 'topk-' + k, order=[(idx, desc, nf)], limit=4)
                if not quick or (desc != nf):
                    add('SELECT %s FROM w ORDER BY %s LIMIT 3 OFFSET 5' % (cols, spec), 'topk-offset-' + k, order=[(idx, desc, nf)], limit=3, offset=5)
                k2 = 'i' if k != 'i' else 's'
                spec2 = spec + ', %s %s NULLS %s' % (k2, 'ASC' if desc else 'DESC', 'LAST' if nf else 'FIRST')
                add('SELECT %s FROM w ORDER BY %s' % (cols, spec2), 'sort2-' + k, order=[(idx, desc, nf), (KEYS[k2], not desc, not nf)])
    add('SELECT i, s FROM w ORDER BY i', 'sort-default-nulls', order=[(0, False, False)])
    add('SELECT i, s FROM w ORDER BY i DESC', 'sort-default-nulls-desc', order=[(0, True, False)])   # the engine's default is NULLS LAST in both directions (C22)
    add('SELECT i + 1 AS e, UPPER(s) AS u FROM w ORDER BY e DESC NULLS LAST, u NULLS FIRST', 'sort-expr', order=[(0, True, False), (1, False, True)])
    # joins
    add('SELECT w.i, w.s, x.x FROM w JOIN x ON w.i = x.i', 'join-inner')
    add('SELECT w.i, w.s, x.x FROM w LEFT JOIN x ON w.i = x.i', 'join-left')
    add('SELECT w.i, w.s, x.x FROM w RIGHT JOIN x ON w.i = x.i', 'join-right')
    add('SELECT w.i, w.s, x.x FROM w FULL JOIN x ON w.i = x.i', 'join-full')
    add('SELECT w.i, w.s FROM w WHERE w.i IN (SELECT i FROM x)', 'join-semi')
    add('SELECT w.i, w.s FROM w WHERE NOT EXISTS (SELECT 1 FROM x WHERE x.i = w.i)', 'join-anti')
    add('SELECT w.i, x.x FROM w JOIN x ON w.i = x.i AND w.f < x.x', 'join-filter')
    add('SELECT a.s, b.s FROM w a JOIN w b ON a.s = b.s', 'join-string-key')
    add('SELECT a.i, b.i FROM w a JOIN w b ON a.d = b.d', 'join-date-key')
    add('SELECT a.i, b.i FROM w a JOIN w b ON a.f = b.f', 'join-double-key')
    add('SELECT a.i, b.i FROM w a JOIN w b ON a.b = b.b', 'join-bool-key')
    add('SELECT a.i, b.i FROM w a JOIN w b ON a.i = b.i AND a.s = b.s', 'join-two-keys')
    add('SELECT w.i, x.x FROM w JOIN x ON w.i = x.i ORDER BY x.x DESC, w.s NULLS LAST LIMIT 5', 'join-topk', order=[(1, True, False)], limit=5)
    # aggregates
    add('SELECT COUNT(*), COUNT(i), SUM(i), MIN(s), MAX(d), AVG(f), COUNT(DISTINCT s) FROM w', 'agg-global')
    for k in KEYS:
        add('SELECT %s, COUNT(*) AS c, SUM(i) AS si, MIN(f) AS mf, MAX(s) AS ms FROM w GROUP BY %s' % (k, k), 'agg-group-' + k)
    add('SELECT s, b, COUNT(*) AS c, AVG(f) AS af FROM w GROUP BY s, b', 'agg-group-two')
    add('SELECT i, COUNT(DISTINCT s) AS c FROM w GROUP BY i', 'agg-count-distinct')
    add('SELECT d, AVG(f) AS a FROM w GROUP BY d HAVING COUNT(*) > 1', 'agg-having')
    add('SELECT DISTINCT s, b FROM w', 'distinct')
    add('SELECT w.s, COUNT(*) AS c, SUM(x.x) AS sx FROM w JOIN x ON w.i = x.i GROUP BY w.s', 'join-agg')
    add('SELECT i, COUNT(*) AS c FROM w GROUP BY i ORDER BY c DESC, i NULLS LAST LIMIT 3', 'agg-topk', order=[(1, True, False), (0, False, False)], limit=3)
    add('SELECT s FROM w UNION SELECT CAST(x AS VARCHAR) FROM x', 'union-distinct')
    return S


def limits_for(t):
    """a memory limit m whose spill threshold (m * 0.8) as usize is exactly t"""
    m = int(t / 0.8)
    for c in (m - 1, m, m + 1, m + 2):
        if c >= 0 and int(c * 0.8) == t:
            return c
    raise AssertionError(t)


def _work(args):
    prop, wb, xb, reps, stmts, tmax, settle, parts = args
    out = {'evaluations': 0, 'counts': {}, 'violations': [], 'nontrivial': set(), 'samples': [], 'errors': [], 'thresholds': 0, 'spilled_evals': 0, 'max_settle': 0, 'unsettled': 0}

    def cnt(k, n=1):
        out['counts'][k] = out['counts'].get(k, 0) + n
    try:
        d = sqldiff.get_driver({'name': 'c08', 'env': {}})
        wrows = W12 * reps
        xrows = X6 * (2 if reps > 1 else 1)
        wbb = [b * reps for b in wb]
        xbb = [b * (2 if reps > 1 else 1) for b in xb]
        db = {'tables': [table('w', WC, wrows, batches=wbb), table('x', XC, xrows, batches=xbb)]}
        sqldiff.reg_db(d, db, 'unl')
        base = {}
        for s in stmts:
            for q in {s['sql'], s.get('full', s['sql'])}:
                if q not in base:
                    base[q] = d.call({'op': 'sql', 'db': 'unl', 'sql': q}, timeout=120)
        d.call({'op': 'dropdb', 'db': 'unl'})
        quiet = {s['sql']: 0 for s in stmts}      # consecutive thresholds without a spill
        active = [s for s in stmts if base[s['sql']].get('ok') and base[s.get('full', s['sql'])].get('ok')]
        cnt('baseline_refuses', len(stmts) - len(active))
        t = 0
        while active and t <= tmax:
            m = limits_for(t)
            ctx = {'mem_limit': m}
            if parts:
                ctx['spill_partitions'] = parts
            sqldiff.reg_db(d, dict(db, ctx=ctx))
            prev = 0
            still = []
            for s in active:
                out['evaluations'] += 1
                r = d.call({'op': 'sql', 'db': 'd', 'sql': s['sql']}, timeout=120)
                why = None
                if not r.get('ok'):
                    if r.get('err') in ('panic', 'Internal', None) or 'panic' in str(r.get('msg', '')).lower():
                        why = 'not an explicit error: %s %s' % (r.get('err'), (r.get('msg') or '')[:200])
                    else:
                        cnt('explicit_error')
                    spilled = 1
                else:
                    sp = r.get('spilled', 0)
                    spilled = sp - prev
                    prev = sp
                    why = compare_result(norm_rows(r['rows'], False), norm_rows(base[s.get('full', s['sql'])]['rows'], False), s.get('order'), s.get('limit'), s.get('offset'))
                    if why is None and s.get('order') is None and s.get('limit') is None and len(r['rows']) != len(base[s['sql']]['rows']):
                        why = 'row count differs'
                if why:
                    cnt('violation')
                    if len([v for v in out['violations'] if v['stmt']['tag'] == s['tag']]) < 2:
                        out['violations'].append({'property': prop, 'kind': 'memlimit', 'db': db, 'stmt': s, 'mem_limit': m, 'threshold': t, 'spill_partitions': parts, 'why': why,
                                                  'rows': (r.get('rows') or [])[:24], 'unlimited_rows': base[s.get('full', s['sql'])]['rows'][:24]})
                elif r.get('ok'):
                    cnt('agree_spilled' if spilled else 'agree_in_memory')
                    if spilled:
                        out['spilled_evals'] += 1
                        out['nontrivial'].add(hashlib.sha1(json.dumps([wbb, xbb, parts, t, s['sql']]).encode()).digest()[:8])
                        if not out['samples'] and t > 40:
                            out['samples'].append({'sql': s['sql'], 'mem_limit': m, 'threshold_bytes': t, 'spilled_bytes': spilled, 'w_batches': wbb, 'rows': len(r['rows'])})
                quiet[s['sql']] = 0 if spilled else quiet[s['sql']] + 1
                if quiet[s['sql']] < settle:
                    still.append(s)
                else:
                    out['max_settle'] = max(out['max_settle'], t - settle + 1)
            active = still
            t += 1
        out['thresholds'] = t
        out['unsettled'] = len(active)
    except Exception:
        out['errors'].append(traceback.format_exc())
    return out


def run(rep):
    quick = rep.tier == 'quick'
    st = statements(quick)
    if quick:
        lays = [([12], [6], 1, None), ([4, 4, 4], [3, 3], 1, None), ([1] * 12, [1] * 6, 1, None)]
        tmax, settle = 2500, 24
    else:
        lays = [([12], [6], 1, None), ([4, 4, 4], [3, 3], 1, None), ([1] * 12, [1] * 6, 1, None), ([6, 6], [6], 1, 2), ([2] * 6, [2, 2, 2], 1, 4),
                ([1] * 12, [1] * 6, 3, None), ([3, 3, 3, 3], [6], 3, 2)]
        tmax, settle = 20000, 48
    tasks = []
    for wb, xb, reps, parts in lays:
        for i in range(0, len(st), 8):
            tasks.append((rep.prop, wb, xb, reps, st[i:i + 8], tmax, settle, parts))
    rep.rule = ('tables w (12 rows: int/double/string/date/boolean columns with NULLs, duplicates, empty string, case variants) and x (6 rows) in batch layouts %s; %d statements: ORDER BY on every key type x ASC/DESC x NULLS FIRST/LAST '
                '(alone, with a second key, with LIMIT and LIMIT/OFFSET), inner/left/right/full/semi/anti joins on every key type, grouped/global/DISTINCT aggregates, join+sort, join+aggregate; '
                'memory limits: for EVERY spill threshold t = 0, 1, 2, ... bytes (limit m with (m*0.8) as usize == t) ascending until the statement has run %d consecutive thresholds without spilling '
                '(spill decisions are monotone in t, so every decision outcome of `size > threshold` on this input is visited); oracle: the answer under the limit equals the unlimited answer '
                '(sequence up to ties under ORDER BY, LIMIT slices up to ties) or the query fails with an explicit error'
                % (json.dumps([(l[0] if l[2] == 1 else [b * l[2] for b in l[0]]) for l in lays]), len(st), settle))
    thr = 0
    with mp.Pool(min(14, os.cpu_count() or 4), initializer=sqldiff._init) as pool:
        for out in pool.imap_unordered(_work, tasks):
            rep.evaluations += out['evaluations']
            rep.merge_counts(out['counts'])
            rep.nontrivial |= out['nontrivial']
            for v in out['violations']:
                rep.violation(v)
            for s in out['samples']:
                rep.add_sample(s)
            for e in out['errors']:
                rep.machinery(e)
            thr = max(thr, out['thresholds'])
            if out['unsettled']:
                rep.caps.append('%d statements still spilling at threshold cap %d' % (out['unsettled'], tmax))
            rep.extra['highest_threshold_with_a_spill'] = max(rep.extra.get('highest_threshold_with_a_spill', 0), out['max_settle'])
    rep.extra['thresholds_enumerated_up_to'] = thr


def replay(payload):
    d = drv.Driver(env={})
    try:
        ctx = {'mem_limit': payload['mem_limit']}
        if payload.get('spill_partitions'):
            ctx['spill_partitions'] = payload['spill_partitions']
        sqldiff.reg_db(d, dict(payload['db'], ctx=ctx))
        print(d.call({'op': 'sql', 'db': 'd', 'sql': payload['stmt']['sql'], 'plan': True}))
        print('unlimited rows:', payload.get('unlimited_rows'))
    finally:
        d.close()
    return 1
