"""C30 the reported result schema describes the returned rows."""
import hashlib, json, os, traceback
import multiprocessing as mp
from vlib import sqldiff, driver as drv
from . import corpus
from .c26 import specs as window_specs
from .common import table

LEVEL = 'exploration'


def extra_statements():
    S = []
    for (w, tag, _) in window_specs(True)[::9]:
        S.append({'sql': 'SELECT a, %s AS w FROM t' % w.replace('PARTITION BY p', 'PARTITION BY a').replace('ORDER BY o', 'ORDER BY b').replace(', id', ', s').replace('(v', '(b'), 'tag': 'window'})
    S += [{'sql': q, 'tag': tag} for q, tag in [
        ('VALUES (1, \'a\'), (2, NULL)', 'values'), ('SELECT * FROM (VALUES (1, 0.5), (2, NULL)) v', 'values-derived'),
        ('SELECT a FROM t UNION ALL VALUES (1)', 'union-values'), ('SELECT a, b FROM t UNION SELECT a, a FROM u', 'union'),
        ('SELECT a, b, COUNT(*) FROM t GROUP BY ROLLUP (a, b)', 'rollup'), ('SELECT a, GROUPING(a), SUM(b) FROM t GROUP BY CUBE (a)', 'cube'),
        ('SELECT 1 AS one, \'x\' AS s, NULL AS n, TRUE AS t, 0.5 AS f, DATE \'2024-02-29\' AS d', 'literals'),
        ('SELECT a, s || \'x\' AS sx, UPPER(s) AS us, LENGTH(s) AS ls, ABS(b) AS ab, CAST(a AS DOUBLE) AS ad, CAST(b AS VARCHAR) AS bs FROM t', 'functions'),
        ('SELECT t.a, u.c, u.d FROM t JOIN u ON t.a = u.a', 'join-both'), ('SELECT * FROM t JOIN u ON t.a = u.a', 'join-star'), ('SELECT t.*, u.c FROM t LEFT JOIN u ON t.a = u.a', 'join-tstar'),
        ('SELECT x.a, y.a FROM t x JOIN t y ON x.a = y.b', 'self-join-same-names'), ('SELECT a AS k, a AS k2, b AS k FROM t', 'duplicate-aliases'),
        ('SELECT COUNT(*), COUNT(*) FROM t', 'duplicate-exprs'), ('SELECT a, (SELECT MAX(c) FROM u) AS m FROM t', 'scalar-subquery'),
        ('WITH c AS (SELECT a, COUNT(*) AS n FROM t GROUP BY a) SELECT * FROM c', 'cte-star'), ('SELECT q.* FROM (SELECT a, b + 1 AS b1 FROM t) q', 'derived-star'),
        ('SELECT a, AVG(b), SUM(b), MIN(s), MAX(a), COUNT(DISTINCT s) FROM t GROUP BY a', 'aggregates'), ('SELECT AVG(c), SUM(c), MIN(d), MAX(d) FROM u', 'aggregates-double-date'),
        ('SELECT a FROM t ORDER BY b LIMIT 2', 'order-by-unselected'), ('SELECT DISTINCT s FROM t ORDER BY s', 'distinct-order'),
        ('SELECT a / 2 AS h, a % 2 AS m, a * 1.5 AS f FROM t', 'arithmetic-types'), ('SELECT CASE WHEN a = 1 THEN 1 ELSE 0.5 END AS mixed FROM t', 'case-mixed-types'),
        ('SELECT COALESCE(b, 0.5) AS cb FROM t', 'coalesce-mixed'), ('SELECT a IS NULL AS n, a = 1 AS e, a IN (1, 2) AS i FROM t', 'boolean-exprs')]]
    # one result assembled from physically different sources: every ordered pair of branch kinds under UNION ALL (a join hands build-side
    # strings up dictionary-encoded, VALUES / aggregates / scans build plain arrays, integer widths differ), bare and inside a derived table
    branches = [
        ('scan', 'SELECT a, s FROM t'), ('filter', 'SELECT a, s FROM t WHERE a IS NOT NULL'),
        ('join-build-string', 'SELECT t.a, x.s FROM t JOIN t x ON t.a = x.a'), ('join-probe-string', 'SELECT x.a, t.s FROM t JOIN t x ON t.a = x.a'),
        ('left-join', 'SELECT t.a, x.s FROM t LEFT JOIN t x ON t.b = x.a'), ('aggregate', 'SELECT a, MIN(s) FROM t GROUP BY a'), ('values', "VALUES (1, 'v')"),
        ('distinct', 'SELECT DISTINCT a, s FROM t'), ('case', "SELECT a, CASE WHEN a = 1 THEN s ELSE 'z' END FROM t"), ('int32', 'SELECT CAST(a AS INTEGER), s FROM t'),
        ('semi', 'SELECT a, s FROM t WHERE a IN (SELECT a FROM u)'), ('window', 'SELECT a, MAX(s) OVER (PARTITION BY a) FROM t'),
    ]
    for (n1, b1) in branches:
        for (n2, b2) in branches:
            if n1 == n2:
                continue
            S.append({'sql': '%s UNION ALL %s' % (b1, b2), 'tag': 'union-all:%s+%s' % (n1, n2)})
        S.append({'sql': 'SELECT * FROM (%s UNION ALL SELECT a, s FROM t) q' % b1, 'tag': 'derived-union-all:%s' % n1})
        S.append({'sql': 'SELECT a, s FROM t UNION ALL %s UNION ALL SELECT a, s FROM t' % b1, 'tag': 'union-all-3:%s' % n1})
    S += [{'sql': q, 'tag': tag} for q, tag in [
        ('SELECT CASE WHEN a = 1 THEN CAST(a AS INTEGER) ELSE b END AS w FROM t', 'case-int-widths'), ('SELECT COALESCE(CAST(a AS INTEGER), b) AS w FROM t', 'coalesce-int-widths'),
        ('SELECT CAST(a AS INTEGER) AS k FROM t UNION SELECT b FROM t', 'union-int-widths'), ('SELECT a FROM t UNION ALL SELECT c FROM u', 'union-all-int-double')]]
    return S


def _same(a, b):
    return [(c[0], c[1]) for c in a] == [(c[0], c[1]) for c in b]


def _work(args):
    db, stmts, prop = args
    out = {'evaluations': 0, 'counts': {}, 'violations': [], 'nontrivial': set(), 'samples': [], 'errors': []}

    def cnt(k):
        out['counts'][k] = out['counts'].get(k, 0) + 1
    try:
        d = sqldiff.get_driver({'name': 'default', 'env': {}})
        sqldiff.reg_db(d, db)
        for s in stmts:
            try:
                r = d.call({'op': 'sql', 'db': 'd', 'sql': s['sql'], 'plan': True}, timeout=60)
            except (drv.DriverDied, drv.DriverTimeout):
                sqldiff.reg_db(d, db)
                cnt('crashed')
                continue
            out['evaluations'] += 1
            if not r.get('ok'):
                cnt('refused_or_error')
                continue
            why = None
            cols = r['cols']
            for bs in r.get('batch_schemas', []):
                if not _same(bs, cols):
                    why = 'a returned batch has schema %s but the result reports %s' % (bs, cols)
            if why is None and r.get('plan_schema') is not None and not _same(r['plan_schema'], cols):
                why = 'physical_plan(sql).schema() is %s but the result reports %s' % (r['plan_schema'], cols)
            if why is None and r['rows'] and any(len(row) != len(cols) for row in r['rows']):
                why = 'row width differs from the reported column count'
            if why:
                cnt('violation')
                if len(out['violations']) < 8:
                    out['violations'].append({'property': prop, 'kind': 'schema', 'db': db, 'stmt': s, 'why': why})
            else:
                cnt('consistent')
                if r['rows']:
                    out['nontrivial'].add(hashlib.sha1(s['sql'].encode() + json.dumps(db['tables'][0].get('storage', 'm')).encode()).digest()[:8])
                if len(out['samples']) < 1 and r['rows']:
                    out['samples'].append({'sql': s['sql'], 'reported': cols, 'batch_schemas': r.get('batch_schemas')})
    except Exception:
        out['errors'].append(traceback.format_exc())
    return out


def run(rep):
    quick = rep.tier == 'quick'
    st = corpus.statements(1 if quick else 2) + extra_statements()
    dbs = corpus.databases(1, 0)
    dirty, dirty3 = dbs[-2], dbs[-1]
    dirty_pq = {'tables': [dict(t, storage='parquet', rg=3) for t in dirty['tables']]}
    empty = {'tables': [dict(t, rows=[]) for t in dirty['tables']]}
    tasks = []
    for db in (dirty, dirty3, dirty_pq, empty):
        for i in range(0, len(st), 40):
            tasks.append((db, st[i:i + 40], rep.prop))
    rep.rule = ('%d statements (the umbrella corpus plus windows, VALUES, grouping sets, literals, functions, star expansions, duplicate aliases, mixed-type CASE/COALESCE, and UNION ALL of every ordered pair of 12 physically different branch kinds (scan, join with build-side / probe-side strings, aggregate, VALUES, window, ...)) over the dirty database in '
                'memory (1 and 3 batches), as Parquet, and empty; oracle: every returned batch schema and physical_plan(sql).schema() equal QueryResult.schema in column count, names and types '
                '(nullability ignored; dictionary vs plain string is a difference); non-trivial = a statement that returned rows' % len(st))
    rep.assumptions = ['the Flight GetSchema comparison is part of C34, not of this check']
    with mp.Pool(min(12, os.cpu_count() or 4), initializer=sqldiff._init) as pool:
        for out in pool.imap_unordered(_work, tasks):
            rep.evaluations += out['evaluations']
            rep.merge_counts(out['counts'])
            rep.nontrivial |= out['nontrivial']
            for v in out['violations']:
                rep.violation(v)
            for s in out['samples']:
                rep.add_sample(s)
            for e in out['errors']:
                rep.machinery(e)


def replay(payload):
    d = drv.Driver()
    try:
        sqldiff.reg_db(d, payload['db'])
        print(d.call({'op': 'sql', 'db': 'd', 'sql': payload['stmt']['sql'], 'plan': True}))
    finally:
        d.close()
    return 1
