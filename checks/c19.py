"""C19 rewritten files are never served from a stale cache: every history of write / query / rewrite / query on one path."""
import hashlib, itertools, json, os, shutil, traceback
import multiprocessing as mp
from vlib import sqldiff, driver as drv
from vlib.compare import norm_rows, multiset_eq
from vlib.report import known_ids

LEVEL = 'model_checking'

COLS = [['k', 'int64'], ['s', 'utf8']]
# A and B: same schema, row count and value widths (equal encoded length, checked at run time); C: other length and row-group layout
CONTENT = {
    'A': ([[1, 'aa'], [2, 'bb'], [3, 'aa'], [4, 'cc']], 1 << 20),
    'B': ([[5, 'dd'], [6, 'ee'], [7, 'dd'], [8, 'ff']], 1 << 20),
    'C': ([[11, 'x'], [12, 'y'], [13, 'x'], [14, 'z'], [15, 'x'], [16, 'w']], 2),
    # D: strings stored without a Parquet dictionary (the sidecar then stores the column plain, not dictionary-typed)
    'D': ([[21, 'pp'], [22, 'qq'], [23, 'pp'], [24, 'rr']], 1 << 20),
}
NO_DICT = {'D'}
QUERIES = ['SELECT k, s FROM t', 'SELECT COUNT(*), SUM(k) FROM t WHERE k > 2', 'SELECT s, COUNT(*) FROM t GROUP BY s']
T0 = 1_700_000_000 * 10**9            # base mtime (ns), on a whole second
POLICIES = {'same-mtime': 0, 'same-second': 500_000_000, 'two-seconds-later': 2_000_000_000}
ACTORS = {'off': {'QE_IPC_CACHE': '0'}, 'build': {'QE_IPC_CACHE': '1'}, 'auto': {}}

KNOWN = {}   # id -> predicate(write preceding the failing query, actor, why); nothing is listed: both stale-cache defects found here were repaired


def expected(content, q):
    import sqlite3
    c = sqlite3.connect(':memory:')
    c.execute('CREATE TABLE t(k INTEGER, s TEXT)')
    c.executemany('INSERT INTO t VALUES (?,?)', CONTENT[content][0])
    return [list(r) for r in c.execute(q).fetchall()]


def histories(depth):
    """W Q (W Q)* with depth writes; first write: content A or C at T0"""
    w_first = [{'content': c, 'policy': None, 'how': 'overwrite'} for c in ('A', 'C')]
    qs = [{'q': qi, 'actor': a, 'reg': r} for qi in range(len(QUERIES)) for a in ACTORS for r in ('reuse', 'fresh')]

    def rec(cur_content, left):
        if left == 0:
            yield []
            return
        for c in CONTENT:
            if c == cur_content:
                continue
            for pol in POLICIES:
                for how in ('overwrite', 'rename'):
                    w = {'content': c, 'policy': pol, 'how': how}
                    for q in qs:
                        for rest in rec(c, left - 1):
                            yield [('W', w), ('Q', q)] + rest
    for w in w_first:
        for q in qs:
            for rest in rec(w['content'], depth - 1):
                yield [('W', w), ('Q', q)] + rest


def run_history(hidx, hist, root, drivers, lens):
    """returns list of (step index, actor, write, why, got, want)"""
    d = os.path.join(root, 'h%d' % hidx)
    shutil.rmtree(d, ignore_errors=True)
    os.makedirs(os.path.join(d, 't'))
    path = os.path.join(d, 't', 'part-0.parquet')
    tmpdir = os.path.join(d, 'tmp')
    os.makedirs(tmpdir)
    mtime = T0
    cur = None
    last_w = None
    registered = set()
    bad = []
    try:
        for i, (kind, op) in enumerate(hist):
            if kind == 'W':
                rows, rg = CONTENT[op['content']]
                target = path if op['how'] == 'overwrite' else os.path.join(tmpdir, 'new.parquet')
                r = drivers['off'].call({'op': 'pq_write', 'path': target, 'cols': COLS, 'rows': rows, 'rg': rg, 'dict': op['content'] not in NO_DICT})
                if not r.get('ok'):
                    raise RuntimeError('pq_write: %r' % r)
                lens[op['content']] = r['len']
                prev_len = lens.get(cur)
                if op['policy'] is not None:
                    mtime = mtime + POLICIES[op['policy']]
                os.utime(target, ns=(mtime, mtime))
                if target != path:
                    os.rename(target, path)
                last_w = dict(op, same_len=(prev_len == r['len']), step=i)
                cur = op['content']
            else:
                a = op['actor']
                dv = drivers[a]
                dbn = 'h'
                if op['reg'] == 'fresh' or a not in registered:
                    dv.call({'op': 'newdb', 'db': dbn})
                    r = dv.call({'op': 'reg_path', 'db': dbn, 'table': 't', 'path': os.path.join(d, 't')})
                    if not r.get('ok'):
                        bad.append((i, a, last_w, 'register fails after the rewrite: %s' % r.get('msg'), None, None))
                        continue
                    registered.add(a)
                q = QUERIES[op['q']]
                r = dv.call({'op': 'sql', 'db': dbn, 'sql': q}, timeout=60)
                want = expected(cur, q)
                if not r.get('ok'):
                    bad.append((i, a, last_w, 'query fails after the rewrite: %s: %s' % (r.get('err'), (r.get('msg') or '')[:160]), None, want))
                elif not multiset_eq(norm_rows(r['rows'], False), norm_rows(want, False)):
                    stale = [c for c in CONTENT if c != cur and multiset_eq(norm_rows(r['rows'], False), norm_rows(expected(c, q), False))]
                    bad.append((i, a, last_w, 'answer is not the current content%s' % (' (it is the answer for replaced content %s)' % stale[0] if stale else ''), r['rows'][:8], want))
    finally:
        for a in registered:
            try:
                drivers[a].call({'op': 'dropdb', 'db': 'h'})
            except Exception:
                pass
        shutil.rmtree(d, ignore_errors=True)
    return bad


def _work(args):
    prop, start, hists, known = args
    out = {'evaluations': 0, 'counts': {}, 'violations': [], 'nontrivial': 0, 'known': {}, 'errors': [], 'samples': [], 'lens': {}}
    try:
        drivers = {a: sqldiff.get_driver({'name': 'c19' + a, 'env': env}) for a, env in ACTORS.items()}
        root = os.path.join('/verif/work', 'c19-%d' % os.getpid())
        os.makedirs(root, exist_ok=True)
        lens = {}
        for j, h in enumerate(hists):
            out['evaluations'] += 1
            bad = run_history(start + j, h, root, drivers, lens)
            nq = sum(1 for k, _ in h if k == 'Q')
            out['counts']['queries'] = out['counts'].get('queries', 0) + nq
            if not bad:
                out['counts']['history_ok'] = out['counts'].get('history_ok', 0) + 1
                out['nontrivial'] += 1
                continue
            # only the FIRST deviation of a history is classified: later ones may be consequences
            i, actor, w, why, got, want = bad[0]
            kid = None
            if w is not None and w.get('policy') is not None:
                for k, pred in KNOWN.items():
                    if k in known and pred(w, actor, why):
                        kid = k
                        break
            payload = {'property': prop, 'kind': 'history', 'history': h, 'failing_step': i, 'actor': actor, 'preceding_write': w, 'why': why, 'got': got, 'want': want}
            if kid:
                out['counts']['known:' + kid] = out['counts'].get('known:' + kid, 0) + 1
                out['known'].setdefault(kid, payload)
            else:
                out['counts']['violation'] = out['counts'].get('violation', 0) + 1
                if len(out['violations']) < 6:
                    out['violations'].append(payload)
        out['lens'] = lens
        shutil.rmtree(root, ignore_errors=True)
    except Exception:
        out['errors'].append(traceback.format_exc())
    return out


def run(rep):
    quick = rep.tier == 'quick'
    depth = 2 if quick else 3
    H = list(histories(depth))
    if not quick:
        # depth 3 is 324 x larger: keep the histories in which one actor reuses its provider across all three queries, and every 50th other
        H = [h for n, h in enumerate(H) if (h[1][1]['actor'] == h[3][1]['actor'] == h[5][1]['actor'] and h[1][1]['reg'] == h[3][1]['reg'] == 'reuse') or n % 50 == rep.seed % 50]
    known = set(known_ids(rep.prop))
    rep.rule = ('histories W Q (W Q)^%d on one Parquet path in a fresh directory each: first write content A or C at a whole-second mtime; every rewrite = other content {A, B (equal encoded length to A), C (other length and row-group layout), D (strings without a Parquet dictionary)} '
                'x mtime policy {same mtime, +0.5 s (same whole second), +2 s} x method {overwrite in place, write elsewhere + rename}; every query = one of 3 statements (scan, filtered aggregate, GROUP BY) '
                'x actor process {QE_IPC_CACHE=0, =1 (builds sidecars), unset/auto (uses sidecars left by the builder)} x {reuse the registered provider, register anew}; '
                'reference model: the current content; oracle: every query returns the current content and does not fail; the first deviation of a history is classified. %s'
                % (depth - 1, 'all %d histories' % len(H) if quick else '%d histories: all in which one actor carries its registered provider and caches through the first two queries, every 50th of the rest (rotated by seed)' % len(H)))
    if not quick:
        rep.caps.append('depth-3 histories: complete for same-actor reuse chains, every 50th otherwise')
    chunks = [(rep.prop, i, H[i:i + 60], known) for i in range(0, len(H), 60)]
    lens = {}
    with mp.Pool(min(12, os.cpu_count() or 4), initializer=sqldiff._init) as pool:
        for out in pool.imap_unordered(_work, chunks):
            rep.evaluations += out['evaluations']
            rep.merge_counts(out['counts'])
            rep.nontrivial_extra += out['nontrivial']
            for v in out['violations']:
                rep.violation(v)
            for k, ex in out['known'].items():
                rep.known_hit(k, ex)
            for e in out['errors']:
                rep.machinery(e)
            lens.update(out['lens'])
    rep.extra['encoded_lengths'] = lens
    if lens.get('A') != lens.get('B'):
        rep.machinery('contents A and B do not have the same encoded length: %r' % lens)
    rep.add_sample({'history': H[len(H) // 3], 'encoded_lengths': lens})


def replay(payload):
    drivers = {a: drv.Driver(env=env) for a, env in ACTORS.items()}
    try:
        root = '/verif/work/c19-replay-%d' % os.getpid()
        os.makedirs(root, exist_ok=True)
        for _ in range(2):
            print(run_history(0, [tuple(x) for x in payload['history']], root, drivers, {}))
        shutil.rmtree(root, ignore_errors=True)
    finally:
        for d in drivers.values():
            d.close()
    return 1
