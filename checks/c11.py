"""C11 split enumeration over forged footers."""
from vlib import native
LEVEL = 'exploration'


def run(rep):
    rep.rule = ('every sequence of <= 2 (quick) / 3 (thorough; length-3 sequences over the reduced kinds rows {0,1,1000} x bytes {0,4MiB-1,4MiB,4MiB+1,2^40}) row groups over rows {0,1,2,3,7,1000} x bytes {0,1,5,4MiB-1,4MiB,4MiB+1,64MiB,64MiB+1,2^40}, cut into 1..3 '
                'footer-only Parquet files in every way, x node counts {1,2,3,8,64} (quick) / {1..12,16,31,32,64} (thorough); oracle: per row group contiguous disjoint ranges from 0 summing to '
                'num_rows, no empty split, exact byte sum, canonical order, invariance under every file-list permutation and a second mount directory, digest changes under every '
                'single-attribute edit (rename, rows+1, bytes+1, row-group index shift); non-trivial = at least 2 splits')
    rep.assumptions = ['footers forged with parquet::ParquetMetaDataWriter are read like real files (enumeration reads footers only)']
    native.run(rep, 'c11')


def replay(payload):
    return native.replay_generic(payload)
