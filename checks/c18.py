"""C18 Parquet table statistics are sound bounds."""
from vlib import native
LEVEL = 'exploration'
PACKAGES = ('qe-native',)


def run(rep):
    rep.rule = ('real Parquet tables with columns int64/int32/date32/float64/utf8: every multiset of 0..3 (quick) / 0..4 (thorough) rows over 9 row kinds (i64/i32 MIN and MAX, -1, 0, 2^40, NULL in each column, '
                'an all-NULL row, NaN/+-inf, duplicates) plus one 18-row table, every composition of the rows into 1..3 files, row-group sizes {1,2,1000}, writer statistics {chunk; page and none for rg=2}; '
                'oracle: statistics().row_count == rows scanned, total_byte_size == sum of file sizes, null_count == Some(n) implies n exact, every non-NULL integer/date value within [min_i64, max_i64], '
                'no integer bounds on non-integer columns, computing statistics never panics; and for every column the estimate calls unique (null_count 0, ndv_est >= row_count) the statements '
                'SELECT col, other, COUNT(*) GROUP BY col, other must return the groups of the scanned rows (an estimate must not decide an answer)')
    native.run(rep, 'c18')


def replay(payload):
    return native.replay_generic(payload)
