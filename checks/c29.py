"""C29 no SQL input crashes or hangs the engine."""
import hashlib, itertools, json, os, re, traceback
import multiprocessing as mp
from vlib import sqldiff, driver as drv
from .common import table

LEVEL = 'exploration'

TOKENS = ['SELECT', '*', 'a', 't', 'FROM', 'WHERE', '(', ')', ',', '=', '1', 'NULL', "'x'", 'AND', 'NOT', 'IN', 'GROUP BY', 'ORDER BY', 'LIMIT', 'UNION', 'WITH', 'AS', 'JOIN', 'ON']
BYTES = [b"'", b'"', b'\x00', b'\xff', b';', b'-', b'(', b'a', b'1', b' ', b'\n', b'\\']
DB = {'tables': [table('t', [['a', 'int64'], ['s', 'utf8']], [[1, 'x'], [None, None], [2, 'y']]), table('u', [['a', 'int64'], ['b', 'float64']], [[1, ['f', '0.5']]])]}
SLOW_MS = 30000
# known finding deep_cte_chain_overflows_the_stack: only this statement shape, only at depth >= 500, only as a SIGABRT (Rust's stack-overflow handler)
CTE_CHAIN = re.compile(r'^WITH c0 AS \(SELECT a FROM t\)((?:, c\d+ AS \(SELECT a FROM c\d+\))*) SELECT a FROM c(\d+)$')


def known_deep_cte(sql, cls):
    m = CTE_CHAIN.match(sql)
    return bool(m) and int(m.group(2)) + 1 >= 500 and cls.startswith('DIED:DriverDied(-6)')


KNOWN_HUGE = {'SELECT REPEAT(s, 1000000000) FROM t', 'SELECT LPAD(s, 2000000000, s) FROM t', 'SELECT SUBSTRING(s, -5, 100000000000) FROM t'}


def depth_families(N):
    fam = {}
    fam['nested parentheses'] = lambda n: 'SELECT ' + '(' * n + '1' + ')' * n
    fam['nested scalar subqueries'] = lambda n: 'SELECT ' + '(SELECT ' * n + '1' + ')' * n
    fam['AND chain'] = lambda n: 'SELECT a FROM t WHERE ' + ' AND '.join(['a = %d' % i for i in range(n)])
    fam['OR chain'] = lambda n: 'SELECT a FROM t WHERE ' + ' OR '.join(['a = %d' % i for i in range(n)])
    fam['+ chain'] = lambda n: 'SELECT ' + ' + '.join(['1'] * n)
    fam['UNION chain'] = lambda n: ' UNION ALL '.join(['SELECT a FROM t'] * n)
    fam['join chain'] = lambda n: 'SELECT t0.a FROM t t0 ' + ' '.join('JOIN t t%d ON t%d.a = t%d.a' % (i, i, i - 1) for i in range(1, n + 1))
    fam['CTE chain'] = lambda n: 'WITH c0 AS (SELECT a FROM t)' + ''.join(', c%d AS (SELECT a FROM c%d)' % (i, i - 1) for i in range(1, n)) + ' SELECT a FROM c%d' % (n - 1)
    fam['long numeric literal'] = lambda n: 'SELECT ' + '9' * n
    fam['long decimal literal'] = lambda n: 'SELECT 1.' + '9' * n
    fam['long string literal'] = lambda n: "SELECT '" + 'x' * n + "'"
    fam['long identifier'] = lambda n: 'SELECT ' + 'c' * n + ' FROM t'
    fam['IN list'] = lambda n: 'SELECT a FROM t WHERE a IN (' + ', '.join(str(i) for i in range(n)) + ')'
    fam['CASE arms'] = lambda n: 'SELECT CASE ' + ' '.join('WHEN a = %d THEN %d' % (i, i) for i in range(n)) + ' ELSE 0 END FROM t'
    fam['NOT chain'] = lambda n: 'SELECT a FROM t WHERE ' + 'NOT ' * n + 'a = 1'
    fam['unary minus chain'] = lambda n: 'SELECT ' + '- ' * n + '1'
    fam['nested derived tables'] = lambda n: 'SELECT a FROM ' + '(SELECT a FROM ' * n + 't' + ') q' * n
    fam['nested function calls'] = lambda n: 'SELECT ' + 'ABS(' * n + 'a' + ')' * n + ' FROM t'
    out = []
    # polynomial-cost families get a smaller N (a 400-way join is minutes of legitimate planning work, not a hang)
    caps = {'join chain': 120 if N <= 400 else 300, 'nested scalar subqueries': 60, 'UNION chain': min(N, 1000)}
    for name, f in fam.items():
        top = min(N, caps.get(name, N))
        # every n up to 400, then every 25th: thresholds (stack depth, size gates) are monotone in n, the step only coarsens where one is located
        for n in list(range(1, min(top, 400) + 1)) + list(range(425, top + 1, 25)):
            out.append((name, n, f(n)))
    if N < 1000:
        # sentinels beyond the quick bound, so the quick tier also exercises the deep-plan regime of every chain that reaches the planner
        for name in ('CTE chain', 'AND chain', '+ chain', 'IN list', 'CASE arms'):
            for n in (1000, 2000):
                out.append((name, n, fam[name](n)))
    return out


def mistyped():
    out = []
    leaves = ["a = 'x'", "s = 1", "zz = 1", "a = 1 AND s", "SUM(a) > 1", "a IN ('x', 1)", "s LIKE 1", "a BETWEEN 'a' AND 2", "a + s", "COALESCE(a, s)", "ABS()", "ABS(a, a)",
              "NOSUCHFN(a)", "a = (SELECT a, s FROM t)", "a IN (SELECT a, s FROM t)", "CAST(s AS BIGINT) = 1", "CAST(a AS NOSUCHTYPE) = 1", "a / 0 = 1", "a % 0 = 1", "1 / 0 = 1",
              "s || a = 'x'", "a IS TRUE", "EXISTS (SELECT 1 FROM nosuch)", "a = ALL (SELECT a FROM t)", "ROW_NUMBER() OVER () = 1", "a = ?", "a = $1"]
    for l in leaves:
        out.append('SELECT a FROM t WHERE %s' % l)
        out.append('SELECT %s FROM t' % l.split(' = ')[0])
        out.append('SELECT a FROM t GROUP BY a HAVING %s' % l)
        out.append('SELECT a FROM t ORDER BY %s' % l.split(' = ')[0])
        out.append('SELECT t.a FROM t JOIN u ON %s' % l)
    out += ['SELECT * FROM nosuch', 'SELECT nosuch.* FROM t', 'SELECT a FROM t, t', 'SELECT a FROM t JOIN t ON a = a', 'SELECT a FROM t LIMIT -1', 'SELECT a FROM t LIMIT 99999999999999999999',
            'SELECT a FROM t OFFSET -1', 'SELECT a FROM t ORDER BY 99', 'SELECT a FROM t GROUP BY 99', 'SELECT a, COUNT(*) FROM t', 'SELECT COUNT(COUNT(a)) FROM t', 'INSERT INTO t VALUES (1)',
            'DROP TABLE t', 'CREATE TABLE x (a INT)', 'UPDATE t SET a = 1', 'DELETE FROM t', 'EXPLAIN SELECT 1', 'SELECT 1; SELECT 2', '', ';', 'SELECT', 'SELECT 9223372036854775808',
            'SELECT -9223372036854775808', 'SELECT 9223372036854775807 + 1', 'SELECT 1e400', "SELECT DATE '2024-13-45'", "SELECT DATE 'x'", "SELECT INTERVAL '1' DAY",
            'SELECT a FROM t WHERE a IN ()', 'SELECT a FROM t UNION SELECT a, s FROM t', 'SELECT a FROM t INTERSECT SELECT s FROM t', 'WITH c AS (SELECT a FROM c) SELECT * FROM c',
            'WITH RECURSIVE c AS (SELECT 1 UNION ALL SELECT a + 1 FROM c) SELECT * FROM c', 'SELECT * FROM t t1, t t1', 'SELECT a AS x, s AS x FROM t ORDER BY x',
            'SELECT SUBSTRING(s, -5, 100000000000) FROM t', 'SELECT REPEAT(s, 1000000000) FROM t', 'SELECT LPAD(s, 2000000000, s) FROM t', 'SELECT POWER(10, 400)', 'SELECT a FROM t TABLESAMPLE (10)',
            'SELECT NTILE(0) OVER (ORDER BY a) FROM t', 'SELECT LAG(a, -1) OVER (ORDER BY a) FROM t', 'SELECT NTH_VALUE(a, 0) OVER (ORDER BY a) FROM t',
            'SELECT SUM(a) OVER (ORDER BY a ROWS BETWEEN 1 FOLLOWING AND 1 PRECEDING) FROM t', 'SELECT a FROM t GROUP BY GROUPING SETS (())', 'VALUES (1), (1, 2)', 'SELECT * FROM (VALUES (1), (\'x\')) v']
    return out


def _work(args):
    fam, stmts, prop, encoded = args
    import time as _t
    t0 = _t.time()
    out = {'evaluations': 0, 'counts': {}, 'violations': [], 'classes': set(), 'errors': [], 'samples': [], 'retime': []}
    try:
        d = sqldiff.get_driver({'name': 'default', 'env': {}})

        def ensure():
            sqldiff.reg_db(d, DB)
        ensure()

        def run_batch(batch):
            try:
                r = d.call({'op': 'sql_many', 'db': 'd', 'sqls': batch}, timeout=SLOW_MS / 1000.0 + 5 if len(batch) == 1 else 150)
                if not r.get('ok'):
                    raise RuntimeError(str(r))
                return r['res']
            except (drv.DriverDied, drv.DriverTimeout) as e:
                ensure()
                if len(batch) == 1:
                    return [['DIED:%r' % (e,), -1]]
                # re-run one by one (each with its own limit) to name the statement
                res = []
                for q in batch:
                    res += run_batch([q])
                return res
        step = 5 if fam.startswith('depth') else 200
        for i in range(0, len(stmts), step):
            batch = stmts[i:i + step]
            res = run_batch(batch)
            for sql, (cls, ms) in zip(batch, res):
                out['evaluations'] += 1
                key = cls.split(':')[0] + (':' + cls.split(':')[1] if cls.startswith('E:') else '')
                out['counts'][key] = out['counts'].get(key, 0) + 1
                out['classes'].add(hashlib.sha1(sql.encode('utf-8', 'surrogateescape')).digest()[:8] if cls.startswith(('ok', 'E:')) else b'')
                bad = None
                if cls.startswith('PANIC'):
                    bad = 'panic: ' + cls[6:300]
                elif cls.startswith('DIED:DriverTimeout') and sql not in KNOWN_HUGE:
                    out['retime'].append((fam, sql, int(SLOW_MS + 5000)))       # no answer within the single-statement limit, in the pool: decided alone
                    continue
                elif cls.startswith('DIED'):
                    bad = 'the engine process died or hung on this statement: ' + cls
                elif ms > SLOW_MS:
                    # wall time inside a 12-process pool on a shared machine is not evidence of a hang: re-timed alone by the parent once the pool is done
                    out['retime'].append((fam, sql, ms))
                    continue
                if bad and known_deep_cte(sql, cls):
                    out['known'] = out.get('known', {})
                    out['known'].setdefault('deep_cte_chain_overflows_the_stack', {'sql': sql[:80] + ' ...', 'ctes': int(CTE_CHAIN.match(sql).group(2)) + 1, 'outcome': cls[:60]})
                    out['counts']['known'] = out['counts'].get('known', 0) + 1
                    continue
                if bad and sql in KNOWN_HUGE:
                    out['known'] = out.get('known', {})
                    out['known'].setdefault('string_function_result_size_unbounded', {'sql': sql, 'outcome': bad[:160]})
                    out['counts']['known'] = out['counts'].get('known', 0) + 1
                    continue
                if bad:
                    out['counts']['violation'] = out['counts'].get('violation', 0) + 1
                    if len(out['violations']) < 6:
                        out['violations'].append({'property': prop, 'kind': 'crash', 'family': fam, 'sql': sql if len(sql) < 400 else sql[:200] + ' ...[%d chars]... ' % len(sql) + sql[-100:],
                                                  'sql_len': len(sql), 'why': bad})
                elif len(out['samples']) < 1 and cls.startswith('E:'):
                    out['samples'].append({'family': fam, 'sql': sql[:120], 'outcome': cls})
    except Exception:
        out['errors'].append(traceback.format_exc())
    out['classes'].discard(b'')
    out['secs'] = (fam, len(stmts), round(_t.time() - t0, 1))
    return out


def run(rep):
    quick = rep.tier == 'quick'
    L = 4 if quick else 5
    N = 400 if quick else 3000
    tasks = []
    # (a) all token strings up to length L
    toks = []
    for n in range(1, L + 1):
        for combo in itertools.product(TOKENS, repeat=n):
            toks.append(' '.join(combo))
    k = (rep.seed * 7919) % max(1, len(toks))
    toks = toks[k:] + toks[:k]
    for i in range(0, len(toks), 4000):
        tasks.append(('token strings', toks[i:i + 4000], rep.prop, False))
    # (b) all byte strings up to length 3 (4 thorough) over 12 bytes, decoded permissively (the engine API takes &str: invalid UTF-8 cannot reach it; 0xFF is sent as U+00FF and as the replacement char)
    bs = []
    for n in range(1, (3 if quick else 4) + 1):
        for combo in itertools.product(BYTES, repeat=n):
            raw = b''.join(combo)
            bs.append(raw.decode('latin-1'))
            bs.append('SELECT ' + raw.decode('utf-8', 'replace'))
    for i in range(0, len(bs), 2000):
        tasks.append(('byte strings', bs[i:i + 2000], rep.prop, True))
    # (c) mistyped / unsupported statements
    ms = mistyped()
    slow_first = [q for q in ms if q in KNOWN_HUGE]
    for q in slow_first:
        tasks.insert(0, ('mistyped and unsupported', [q], rep.prop, False))      # tens of seconds each: alone and first
    ms = [q for q in ms if q not in KNOWN_HUGE]
    for i in range(0, len(ms), 20):
        tasks.append(('mistyped and unsupported', ms[i:i + 20], rep.prop, False))
    # (d) depth families, every n in 1..N
    byfam = {}
    for name, n, sql in depth_families(N):
        byfam.setdefault(name, []).append(sql)
    dtasks = []
    for name, sqls in byfam.items():
        k = max(1, len(sqls) // 20)
        for i in range(k):
            dtasks.append(('depth: ' + name, sqls[i::k], rep.prop, False))      # interleaved: every task gets small and large n alike
    tasks = tasks[:len(slow_first)] + dtasks + tasks[len(slow_first):]              # the slow statements and families first
    rep.rule = ('(a) every token string of length <= %d over a %d-token SQL alphabet (%d statements); (b) every string of <= %d bytes over 12 hostile bytes, bare and after SELECT; (c) %d mistyped / '
                'unsupported / boundary statements; (d) %d parametric depth families (nesting, chains, long literals, IN lists, CASE arms, joins, CTEs), every n in 1..min(%d, 400) and every 25th above (quick: plus n = 1000 and 2000 for the five chains that reach the planner); each executed against a '
                'two-table catalog in the real engine (subprocess, default stacks); oracle: Ok or Err within %d ms (a statement slower than that inside the 12-process pool is re-timed alone, with the limit scaled by 1.5 x load-per-core up to 5x, before it counts), no panic, the process survives; distinct_nontrivial = distinct statements with a '
                'definite Ok/Err outcome' % (L, len(TOKENS), len(toks), 3 if quick else 4, len(mistyped()), len(byfam), N, SLOW_MS))
    retime, slowest = [], []
    with mp.Pool(min(12, os.cpu_count() or 4), initializer=sqldiff._init) as pool:
        for out in pool.imap_unordered(_work, tasks):
            retime += out['retime']
            slowest.append(out['secs'])
            rep.evaluations += out['evaluations']
            rep.merge_counts(out['counts'])
            rep.nontrivial |= out['classes']
            for v in out['violations']:
                rep.violation(v)
            for s in out['samples']:
                rep.add_sample(s)
            for e in out['errors']:
                rep.machinery(e)
            for kid, ex in out.get('known', {}).items():
                if kid in rep.known:
                    rep.known_hit(kid, ex)
                else:
                    rep.violation({'property': rep.prop, 'kind': 'crash', 'why': 'unlisted finding ' + kid, 'example': ex})
    rep.extra['slowest_tasks'] = sorted(slowest, key=lambda x: -x[2])[:6]
    # statements that were slow inside the pool, again, one at a time with nothing else of this check running
    if retime:
        d = drv.Driver()
        try:
            sqldiff.reg_db(d, DB)
            for fam, sql, ms0 in retime:
                # the limit alone scales with what else the machine is doing (1-minute load per core), up to 5x: a hang never answers, a loaded machine answers late
                scale = min(5.0, max(1.0, 1.5 * os.getloadavg()[0] / (os.cpu_count() or 1)))
                limit_ms = SLOW_MS * scale
                try:
                    cls, ms = d.call({'op': 'sql_many', 'db': 'd', 'sqls': [sql]}, timeout=limit_ms / 1000.0 + 5)['res'][0]
                except (drv.DriverDied, drv.DriverTimeout) as e:
                    cls, ms = 'DIED:%r' % (e,), -1
                    d.close()
                    d = drv.Driver()
                    sqldiff.reg_db(d, DB)
                bad = ms > limit_ms or cls.startswith(('DIED', 'PANIC'))
                known = sql in KNOWN_HUGE
                rep.merge_counts({'retimed alone': 1, ('known' if known else 'violation') if bad else 'retimed alone: within the limit': 1})
                ex = {'sql': sql if len(sql) < 400 else sql[:200] + ' ...[%d chars]... ' % len(sql) + sql[-100:], 'outcome': 'took %d ms in the pool, %s alone' % (ms0, cls[:40] if ms < 0 else '%d ms' % ms) + ' (limit alone %d ms at load %.1f)' % (limit_ms, os.getloadavg()[0])}
                if bad and known:
                    rep.known_hit('string_function_result_size_unbounded', ex)
                elif bad:
                    rep.violation({'property': rep.prop, 'kind': 'crash', 'family': fam, 'sql': ex['sql'], 'sql_len': len(sql), 'why': ex['outcome']})
        finally:
            d.close()


def replay(payload):
    d = drv.Driver()
    try:
        sqldiff.reg_db(d, DB)
        print(payload['sql'][:300])
        try:
            print(d.call({'op': 'sql_many', 'db': 'd', 'sqls': [payload['sql']]}, timeout=30))
        except Exception as e:
            print('driver:', repr(e))
    finally:
        d.close()
    return 1
