"""C22 joins: every join type over all small key tables, NULL keys, duplicates, residual predicates."""
import itertools
from vlib import sqldiff
from vlib.enumr import multisets, rotate
from .common import table, D

LEVEL = 'exploration'

KEYDOM = {
    'int64': [None, 1, 2],
    'int32': [None, 1, 2],
    'utf8': [None, 'a', 'b'],
    'date32': [None, D('2024-01-01'), D('2024-01-02')],
}


def join_stmts(nkeys):
    on = ' AND '.join('l.k%d = r.k%d' % (i, i) for i in range(nkeys))
    residuals = ['', ' AND l.p < r.q', ' AND r.q IS NULL', ' AND l.k0 = 1', ' AND r.q <> 1']
    st = []

    def S(sql, tag, **kw):
        d = {'sql': sql, 'tag': tag, 'strict': True, 'nontrivial': None}
        d.update(kw)
        st.append(d)
    for jt in ('INNER', 'LEFT', 'RIGHT', 'FULL'):
        for res in residuals:
            S('SELECT l.p, r.q FROM l %s JOIN r ON %s%s' % (jt, on, res), '%s%s' % (jt, '+residual' if res else ''))
        S('SELECT l.p, r.q FROM l %s JOIN r ON %s WHERE l.p < r.q' % (jt, on), jt + '+where')
        S('SELECT l.p, r.q FROM l %s JOIN r ON %s WHERE r.q IS NULL' % (jt, on), jt + '+where-null')
        S('SELECT l.p, r.q FROM l %s JOIN r ON %s WHERE l.p IS NULL OR r.q > 0' % (jt, on), jt + '+where-or')
        # WHERE over ONE side only: it may move below the join only on the side the join preserves (never into the NULL-supplying side)
        for pred, ptag in (('l.p IS NULL', 'left-null'), ('l.p >= 1', 'left'), ('l.k0 IS NOT NULL', 'left-key'), ('r.q >= 1', 'right'), ('r.k0 IS NULL', 'right-key-null'),
                           ('l.p >= 1 AND r.q IS NULL', 'left-and-right-null'), ('l.p IS NULL AND r.q >= 1', 'left-null-and-right')):
            S('SELECT l.p, r.q FROM l %s JOIN r ON %s WHERE %s' % (jt, on, pred), '%s+where-%s' % (jt, ptag))
        S('SELECT COUNT(*), COUNT(l.p), COUNT(r.q) FROM l %s JOIN r ON %s WHERE l.p >= 1' % (jt, on), jt + '+where-left+count')
        # a semi / anti join (IN, EXISTS, NOT EXISTS) ABOVE the join, keyed on one side: it filters the joined rows, NULL-extended ones included,
        # and may move below the join only on a side the join preserves
        for side, col, tab in (('right', 'r.q', 'r'), ('left', 'l.p', 'l')):
            c = col.split('.')[1]
            S('SELECT l.p, r.q FROM l %s JOIN r ON %s WHERE %s IN (SELECT x.%s FROM %s x WHERE x.%s >= 1)' % (jt, on, col, c, tab, c), '%s+semi-in-%s' % (jt, side), strict=False)
            S('SELECT l.p, r.q FROM l %s JOIN r ON %s WHERE EXISTS (SELECT 1 FROM %s x WHERE x.%s = %s)' % (jt, on, tab, c, col), '%s+semi-exists-%s' % (jt, side), strict=False)
            S('SELECT l.p, r.q FROM l %s JOIN r ON %s WHERE NOT EXISTS (SELECT 1 FROM %s x WHERE x.%s = %s)' % (jt, on, tab, c, col), '%s+anti-notexists-%s' % (jt, side), strict=False)
    # USING: the named columns equated pairwise, one from each side
    using = ', '.join('k%d' % i for i in range(nkeys))
    for jt in ('INNER', 'LEFT', 'RIGHT', 'FULL'):
        S('SELECT l.p, r.q FROM l %s JOIN r USING (%s)' % (jt, using), jt + '+using', strict=False)
        S('SELECT x.p, y.q FROM l x %s JOIN r y USING (%s) WHERE y.q >= 1 OR x.p >= 1' % (jt, using), jt + '+using-aliased', strict=False)
    S('SELECT l.p, r.q FROM l CROSS JOIN r', 'CROSS')
    S('SELECT l.p, r.q FROM l, r WHERE %s' % on, 'comma-inner')
    for res in ('', ' AND l.p < r.q', ' AND r.q <> 1'):
        S('SELECT l.p FROM l WHERE EXISTS (SELECT 1 FROM r WHERE %s%s)' % (on.replace('l.k', 'l.k').replace('= r.k', '= r.k'), res), 'SEMI-exists' + ('+residual' if res else ''))
        S('SELECT l.p FROM l WHERE NOT EXISTS (SELECT 1 FROM r WHERE %s%s)' % (on, res), 'ANTI-notexists' + ('+residual' if res else ''))
    if nkeys == 1:
        S('SELECT l.p FROM l WHERE l.k0 IN (SELECT r.k0 FROM r)', 'SEMI-in')
    # right side an aggregate subquery
    S('SELECT l.p, a.c FROM l LEFT JOIN (SELECT k0, COUNT(*) AS c FROM r GROUP BY k0) a ON l.k0 = a.k0', 'LEFT-agg-subquery')
    S('SELECT l.p, a.c FROM l JOIN (SELECT k0, COUNT(*) AS c FROM r GROUP BY k0) a ON l.k0 = a.k0', 'INNER-agg-subquery')
    return st


def run(rep):
    quick = rep.tier == 'quick'
    typings = [(['int64'], ['int64']), (['int32'], ['int64']), (['utf8'], ['utf8']), (['date32'], ['date32'])] if quick else \
        [(['int64'], ['int64']), (['int32'], ['int64']), (['utf8'], ['utf8']), (['date32'], ['date32']),
         (['int64', 'utf8'], ['int64', 'utf8']), (['int32', 'int64'], ['int64', 'int64'])]
    maxrows = 2 if quick else 3
    units = []
    for lt, rt in typings:
        nk = len(lt)
        if nk == 1:
            lkeys = [(v,) for v in KEYDOM[lt[0]]]
            rkeys = [(v,) for v in KEYDOM[rt[0]]]
        else:
            lkeys = [(a, b) for a in KEYDOM[lt[0]] for b in KEYDOM[lt[1]][:2]]
            rkeys = [(a, b) for a in KEYDOM[rt[0]] for b in KEYDOM[rt[1]][:2]]
        mr = maxrows if nk == 1 else 2
        ltabs = list(multisets(lkeys, mr))
        rtabs = list(multisets(rkeys, mr))
        pairs = rotate([(a, b) for a in ltabs for b in rtabs], rep.seed)
        st = join_stmts(nk)
        lcols = [['k%d' % i, t] for i, t in enumerate(lt)] + [['p', 'int64']]
        rcols = [['k%d' % i, t] for i, t in enumerate(rt)] + [['q', 'int64']]
        for (lr, rr) in pairs:
            lrows = [list(k) + [i] for i, k in enumerate(lr)]
            rrows = [list(k) + [i] for i, k in enumerate(rr)]
            layouts = [('mem', {}, {})]
            if lt == ['int64'] or not quick:
                layouts.append(('parquet-right', {}, {'storage': 'parquet', 'rg': 1}))
                layouts.append(('parquet-left', {'storage': 'parquet', 'rg': 2}, {}))
            for lname, lkw, rkw in layouts:
                db = {'tables': [table('l', lcols, lrows, **lkw), table('r', rcols, rrows, **rkw)]}
                ss = st
                if lname != 'mem':
                    ss = [s for s in st if 'where' not in s['tag'] and 'agg' not in s['tag']] if quick else st
                ss = [dict(s, want_plan=(i % 40 == 0)) for i, s in enumerate(ss)]
                units.append({'db': db, 'stmts': ss})
        # asymmetric sizes: the planner builds LEFT/SEMI/ANTI joins on the right side only when left rows > 2 x right rows, and a
        # runtime key filter prunes a Parquet probe side from a small build side: a 40-row side (every key value, duplicates; also as 40 one-row batches, above the 32-batch threshold of the batch-parallel probe) against
        # every 1-row and every 2-row side, in both orientations
        if nk == 1 and (lt == ['int64'] or not quick):
            big = [lkeys[i % len(lkeys)] for i in range(40 if True else 5)]
            smalls = list(multisets(rkeys, 2, 1))
            for sm in smalls:
                for (lr, rr) in ((big, list(sm)), (list(sm), big)):
                    lrows = [list(k) + [i] for i, k in enumerate(lr)]
                    rrows = [list(k) + [i] for i, k in enumerate(rr)]
                    for lname, lkw, rkw in [('mem', {}, {}), ('parquet-right', {}, {'storage': 'parquet', 'rg': 1}), ('parquet-left', {'storage': 'parquet', 'rg': 2}, {}),
                                            ('parquet-both', {'storage': 'parquet', 'rg': 2}, {'storage': 'parquet', 'rg': 1}), ('mem-one-row-batches', {'batches': [1] * len(lrows)}, {'batches': [1] * len(rrows)})]:
                        db = {'tables': [table('l', lcols, lrows, **lkw), table('r', rcols, rrows, **rkw)]}
                        units.append({'db': db, 'stmts': [dict(x, want_plan=(j % 15 == 0)) for j, x in enumerate(st)]})
    # size gates of the probe (> 1,000 and > 10,000 probe rows select the parallel / vectorized probes; >= 100,000 build rows the partitioned build):
    # generated tables with NULL keys (every 13th / 11th row) and ~100 duplicates per key, either side large, memory (1 and 40 batches) and Parquet
    def gen(n, mod, nul):
        return [[None if i % nul == 0 else i % mod, i] for i in range(n)]
    big_units = []
    st1 = join_stmts(1)
    keep = ('INNER', 'INNER+residual', 'LEFT', 'LEFT+residual', 'RIGHT+residual', 'FULL', 'FULL+residual', 'SEMI-exists', 'SEMI-exists+residual', 'ANTI-notexists', 'ANTI-notexists+residual', 'SEMI-in', 'LEFT+where-null')
    seen_tag = {}
    big_st = []
    for x in st1:
        n = seen_tag.get(x['tag'], 0)
        seen_tag[x['tag']] = n + 1
        if x['tag'] in keep and n < 2:      # at most two residual predicates per join type
            big_st.append(dict(x, want_plan=(len(big_st) % 5 == 0)))
    cols1l = [['k0', 'int64'], ['p', 'int64']]
    cols1r = [['k0', 'int64'], ['q', 'int64']]
    plan = [((1200, 60), ['mem', 'mem-40-batches', 'parquet-both']), ((10500, 150), ['mem', 'parquet-both']), ((150, 10500), ['mem'])]
    if not quick:
        plan = [((1200, 60), ['mem', 'mem-40-batches', 'parquet-both']), ((10500, 150), ['mem', 'mem-40-batches', 'parquet-both']), ((150, 10500), ['mem', 'mem-40-batches', 'parquet-both']),
                ((2000, 100100), ['mem', 'parquet-both']), ((100100, 300), ['mem', 'parquet-both'])]
    for (nl, nr), lay_names in plan:
        lrows, rrows = gen(nl, 97, 13), gen(nr, 89 if nr < 50000 else 100003, 11)
        lays = {'mem': ({}, {}), 'mem-40-batches': ({'batches': [nl // 40] * 39 + [nl - (nl // 40) * 39]}, {}), 'parquet-both': ({'storage': 'parquet', 'rg': 1000}, {'storage': 'parquet', 'rg': 1000})}
        for lname in lay_names:
            lkw, rkw = lays[lname]
            db = {'tables': [table('l', cols1l, lrows, **lkw), table('r', cols1r, rrows, **rkw)]}
            h = (len(big_st) + 2) // 3
            for c in range(0, len(big_st), h):
                big_units.append({'db': db, 'stmts': big_st[c:c + h]})
    rep.rule = ('all pairs of tables with <= %d rows over key tuples (typings %s; values NULL + 2) and unique payloads; INNER/LEFT/RIGHT/FULL with residual ON predicates and WHERE placement (predicates over both sides, over the left side only and over the right side only, NULL tests included; IN / EXISTS / NOT EXISTS above the join keyed on either side), '
                'USING, CROSS, comma join, EXISTS / NOT EXISTS / IN, joins against an aggregate subquery; memory and Parquet on either side; plus a 40-row side against every 1- and 2-row side in both orientations and four storage layouts (build-side choice, runtime key filter); plus generated tables of 1,200 / 10,500 (quick) and 100,100 (thorough) rows on either side with NULL and ~100x duplicated keys (the probe-size and build-size gates), memory in 1 and 40 batches and Parquet; oracle SQLite 3.40; Execution errors are violations; '
                'non-trivial = reference answer non-empty' % (maxrows, typings))
    sqldiff.run(rep, big_units + units)      # the heavy units first: they would otherwise be the tail of the run


def replay(payload):
    return sqldiff.replay(payload)
