"""C42 cpulist parsing and workers_for."""
from vlib import native
LEVEL = 'exploration'


def run(rep):
    rep.rule = ('every subset of CPU ids {0..9,63,64,255} of size <= 4 (quick) / 5 (thorough), rendered in every grouping into ranges/singletons, every token order '
                '(<= 4 tokens) x 3 whitespace styles x trailing newline, with duplicates, an overlapping range and each junk token at every position; '
                'workers_for(w,m) for all w,m in 0..70; oracle: the sorted set / 1 <= r <= max(m,1), r <= max(w,1); non-trivial = distinct text denoting >= 2 CPUs')
    native.run(rep, 'c42')


def replay(payload):
    return native.replay_generic(payload)
