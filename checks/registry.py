"""Per-property metadata for MANIFEST.json (tools/gen_manifest.py)."""

E1 = 'sqldiff (qe-driver + SQLite reference)'

CHECKS = {
    'C02': dict(category='exploration', engine=E1, design='3/C02',
                technique='bounded-exhaustive enumeration of boolean expression trees over a universal NULL table, differential against SQLite',
                text='Every boolean tree of depth <= 2 (quick) / 3 (thorough) over 12 NULL-sensitive leaves is evaluated on all 27 NULL/non-NULL operand combinations in WHERE, value, HAVING, ON and CASE positions, interpreter and compiled, memory and Parquet; exhaustive inside that bound.',
                note='SQLite 3.40 is the reference for Kleene logic; trees deeper than the bound and leaves outside the alphabet are not covered.'),
    'C24': dict(category='exploration', engine=E1, design='3/C24',
                technique='bounded-exhaustive enumeration of input multiset pairs x set operators, oracle = Counter arithmetic',
                text='All pairs of inputs with <= 3 rows over {NULL,1,2} (1 and 2 columns in thorough) for every set operator and quantifier, nested once and under ORDER BY/LIMIT; exhaustive inside that bound.',
                note='Reference is python Counter arithmetic cross-checked by SQLite for the non-ALL forms; known findings are matched by an explicit deviant model (semi/anti-join on =).'),
    'C44': dict(category='exploration', engine=E1, design='3/C44',
                technique='bounded-exhaustive enumeration of VALUES lists, oracle = the listed rows',
                text='All VALUES lists of 1..2 (quick) / 1..3 (thorough) rows over typed literal domains with NULLs, bare, as derived table, under aggregate/WHERE/ORDER BY/UNION/JOIN/IN.',
                note='Untyped all-NULL columns and column-alias lists are outside the promise (errors accepted there).'),
}

PENDING_REASON = 'check not built yet in this round (planned in DESIGN.md section 3); not claimed until it exists'
