"""Per-property metadata for MANIFEST.json (tools/gen_manifest.py)."""

E1 = 'sqldiff (qe-driver + SQLite reference)'

CHECKS = {
    'C02': dict(category='exploration', engine=E1, design='3/C02',
                technique='bounded-exhaustive enumeration of boolean expression trees over a universal NULL table, differential against SQLite',
                text='Every boolean tree of depth <= 2 (quick) / 3 (thorough) over 12 NULL-sensitive leaves is evaluated on all 27 NULL/non-NULL operand combinations in WHERE, value, HAVING, ON and CASE positions, interpreter and compiled, memory and Parquet; exhaustive inside that bound.',
                note='SQLite 3.40 is the reference for Kleene logic; trees deeper than the bound and leaves outside the alphabet are not covered.'),
    'C24': dict(category='exploration', engine=E1, design='3/C24',
                technique='bounded-exhaustive enumeration of input multiset pairs x set operators, oracle = Counter arithmetic',
                text='All pairs of inputs with <= 3 rows over {NULL,1,2} (1 and 2 columns in thorough) for every set operator and quantifier, nested once and under ORDER BY/LIMIT; exhaustive inside that bound.',
                note='Reference is python Counter arithmetic cross-checked by SQLite for the non-ALL forms; known findings are matched by an explicit deviant model (semi/anti-join on =).'),
    'C44': dict(category='exploration', engine=E1, design='3/C44',
                technique='bounded-exhaustive enumeration of VALUES lists, oracle = the listed rows',
                text='All VALUES lists of 1..2 (quick) / 1..3 (thorough) rows over typed literal domains with NULLs, bare, as derived table, under aggregate/WHERE/ORDER BY/UNION/JOIN/IN.',
                note='Untyped all-NULL columns and column-alias lists are outside the promise (errors accepted there).'),
}

E2 = 'native (qe-native exhaustive checkers on the real functions)'

CHECKS.update({
    'C21': dict(category='exploration', engine=E1, design='3/C21',
                technique='bounded-exhaustive enumeration of tables x aggregate statements x forced aggregation paths, differential against SQLite',
                text='All multisets of <= 3 rows over (g,v) in {NULL,x,y}^2 for 2 (quick) / 12 (thorough) typings, every aggregate (pairs in thorough), global/grouped/emptied/filtered/above LEFT JOIN, on memory 1 batch, memory 6 batches, Parquet row-group-per-row with morsel on/off, and a 1-byte memory limit (spill path).',
                note='SQLite is the reference; the dense-range disjoint path (hook H2) and >64k-group parallel merge are not reached by these tiny tables.'),
    'C11': dict(category='exploration', engine=E2, design='3/C11',
                technique='exhaustive enumeration of forged Parquet footer inventories x node counts, reference coverage/invariance/digest-sensitivity oracle',
                text='Every sequence of <= 2 (quick) / 3 (thorough) row groups over boundary row counts and byte sizes (0..2^40), cut into 1..3 files, for node counts {1,2,3,8,64} / 1..64: contiguous exact cover, exact byte sum, canonical order, invariance under every file permutation and a second mount path, digest change under every single-attribute edit.',
                note='Footers are forged (no data pages); enumeration reads footers only. A 64-bit digest cannot be collision-free in principle; only single-attribute edits are enumerated.'),
    'C12': dict(category='exploration', engine=E2, design='3/C12',
                technique='exhaustive enumeration of split-size multisets x node counts, brute-force optimal makespan',
                text='All multisets of <= 8/12 split sizes over {0,1,2,3,5,8,13}: partition, totals, two-call determinism; the (4/3 - 1/(3N)) bound against a branch-and-bound optimum for <= 6 splits x <= 4 nodes (quick) / <= 9 x <= 6 (thorough).',
                note='Sizes are small integers; the bound is checked in exact integer arithmetic.'),
    'C15': dict(category='model_checking', engine=E2, design='3/C15',
                technique='explicit-state BFS over operation histories executed on the real Membership object, compared with a reference model',
                text='BFS to depth 4 (quick) / 6 (thorough) over set_members(every subset of 5 addresses incl. two spellings of self, a port-only difference, an unresolvable name), record_up/down, resolve errors; every transition runs on a real Membership rebuilt by replay and is compared field by field with a reference map plus the stated invariants.',
                note='State key drops generation/timestamps/failures>2 (checked per transition instead); name resolution answers come from /etc/hosts of the sandbox.'),
    'C16': dict(category='fault_enumeration', engine=E2, design='3/C16',
                technique='exhaustive truncation-point enumeration of scripted HTTP responses over a real loopback socket',
                text='~150 responses (status lines x Content-Length variants x bodies) cut at every byte offset (quick thins offsets > 90), written in one or two segments, closed or held open; the real http_client must return the reference parse or an error, never a short body, never late.',
                note='Loopback only; timing slack 150-400 ms over the 200 ms timeout.'),
    'C38': dict(category='exploration', engine=E2, design='3/C38',
                technique='exhaustive enumeration of dimensions x lane patterns x NULL masks x slices against an f64 reference formula',
                text='Dimensions 1..40 plus every 8-lane/power-of-two boundary to 1024 (quick) / all 1..1024 (thorough), 5 lane patterns, 1..4 rows with every NULL mask (NaN-poisoned), slice offsets 0/1/3, literal and column query, 4 kinds; mismatched dimensions must be errors.',
                note='Values are small exactly-representable floats; tolerance 1e-5 relative; zero-vector cosine follows the code convention.'),
    'C40': dict(category='exploration', engine=E2, design='3/C40',
                technique='exhaustive enumeration of short strings over a special-character alphabet through the real formatter, strict CSV/JSON re-parse',
                text='All strings of length <= 3 (quick) / 4 (thorough) over 10 special characters as cells, under plain and hostile column names, beside NULL/number/boolean cells, in grids and as one large result; the output must re-parse to exactly the displayed cells.',
                note='Function level on src/cli/output.rs included by #[path]; REPL wiring in main.rs is outside the quick tier.'),
    'C41': dict(category='exploration', engine=E2, design='3/C41',
                technique='exhaustive enumeration of chunkings of short bodies and of all byte strings up to a length, against a reference RFC 7230 decoder',
                text='Every body of length <= 4 x every chunking x extensions x hex styles; every byte string of length <= 7 (quick) / 9 (thorough) over 8 framing-relevant bytes; huge sizes; the real dechunk (hook H6) must agree with the reference and never panic.',
                note='Leniencies the RFC leaves open (leading +, inner whitespace, trailers) are outside the alphabet.'),
    'C42': dict(category='exploration', engine=E2, design='3/C42',
                technique='exhaustive enumeration of CPU-id sets x renderings (grouping, order, whitespace, junk) and of all (work, pool) pairs',
                text='Every subset of 13 CPU ids of size <= 4 (quick) / 5 (thorough) in every range grouping, token order and whitespace style, with duplicates, overlaps and junk tokens at every position; workers_for over all pairs in 0..70.',
                note='parse_cpulist reached through hook H5.'),
})

E4 = 'loom (harness-loom, real memory.rs under cfg qe_verif_loom)'
CHECKS['C33'] = dict(category='model_checking', engine=E4, design='3/C33',
    technique='loom: exhaustive (preemption-bounded) interleaving exploration of the real MemoryPool, linearizability oracle by brute force',
    text='41 two- and three-thread bodies of try_allocate/allocate/resize/drop on the real pool with loom atomics; every interleaving within preemption bound 2 (quick) / 3 and unbounded for two threads (thorough); each execution must be explainable by a sequential order and account exactly.',
    note='Only src/execution/memory.rs is compiled under loom (via #[path]); memory-ordering effects are those loom models.')
CHECKS.update({
    'C22': dict(category='exploration', engine=E1, design='3/C22',
                technique='bounded-exhaustive enumeration of table pairs x join statements, differential against SQLite',
                text='All pairs of tables with <= 2 (quick) / 3 (thorough) rows over NULL + 2 key values for int64/int64, int32/int64, utf8 (quick) plus date and two-column keys (thorough), every join type with residual ON predicates, WHERE placement, EXISTS/NOT EXISTS/IN and joins against an aggregate subquery, memory and Parquet on either side.',
                note='SQLite 3.40 reference; build-side flips by size (x1000 replicas) and runtime-filter wiring (hook H1) are thorough-tier axes.'),
    'C23': dict(category='exploration', engine=E1, design='3/C23',
                technique='bounded-exhaustive enumeration of outer/inner tables x subquery shapes x three executions, differential against SQLite',
                text='Every single outer row and every two-row outer with a repeated correlation value (quick) / all outers of <= 3 rows (thorough) against every inner table of <= 2/3 rows over {NULL,1,2}^2; [NOT] EXISTS, [NOT] IN, scalar MIN/MAX/COUNT/SUM subqueries, correlated or not, in WHERE and SELECT; executed with the production optimizer, without the decorrelation rules, and unoptimized.',
                note='SQLite 3.40 reference; a known finding (same-named inner column captures the outer reference inside IN) is matched by an explicit deviant statement.'),
    'C25': dict(category='exploration', engine=E1, design='3/C25',
                technique='bounded-exhaustive enumeration of tables x ORDER BY specs x LIMIT/OFFSET pairs x sort paths, sortedness + slice oracle',
                text='All multisets of 1..3 (quick) / 4 (thorough) rows with NULLs and ties for 2 (quick) / 5 (thorough) key types, 18 ORDER BY specs, 15 / 42 LIMIT-OFFSET pairs, on one batch, three batches and a 1-byte memory limit (spilled sort), plus ordinal/alias/expression keys.',
                note='The oracle checks sortedness under the stated keys (default NULLS LAST) and the slice up to ties against the SQLite multiset.'),
})
CHECKS.update({
    'C26': dict(category='exploration', engine=E1, design='3/C26',
                technique='bounded-exhaustive enumeration of tables x window specifications, differential against SQLite',
                text='All multisets of 1..2 (quick) / 3 (thorough) rows over (p,o,v) with NULLs plus six five-row tables with ties; ~400 window specifications: ranking, offset, value and aggregate functions, with/without PARTITION BY, ORDER BY ASC/DESC NULLS FIRST/LAST, every legal ROWS and RANGE frame over 5 bounds, two windows, a named window.',
                note='Functions that depend on row order get a unique last ORDER BY key (ties would make the answer non-deterministic); default NULL placement in window ORDER BY is not compared.'),
    'C27': dict(category='exploration', engine=E1, design='3/C27',
                technique='bounded-exhaustive enumeration of tables x grouping-set lists, oracle = union of per-set GROUP BY',
                text='All multisets of 0..2 (quick) / 3 (thorough) rows over (a,b,c) in {NULL,1}^3; every GROUPING SETS list of 1..3 sets incl. the empty and repeated sets over 1-2 (quick) / 3 (thorough) columns, ROLLUP and CUBE over 1..3 columns, with and without GROUPING().',
                note='The oracle is the definition (UNION ALL of plain GROUP BYs with the bitmask computed from set membership), each branch run by SQLite.'),
    'C28': dict(category='exploration', engine=E1, design='3/C28',
                technique='bounded-exhaustive enumeration of tables x CTE statement shapes, differential against SQLite and against the inlined statement',
                text='All multisets of 1..2 (quick) / 3 (thorough) rows; 41 shapes: 1-3 CTEs referenced 1-3 times in FROM, IN/EXISTS/scalar subqueries and UNION branches, chains, nested WITH re-using a name at every nesting position, CTE names equal to table names; production vs. every reference inlined.',
                note='SQLite implements lexical CTE scoping; the known name-keyed scoping finding is matched against explicit one-body variants.'),
})
E5 = 'distdiff (qe-driver dist op: real coordinator + in-process FragmentTransport)'
CHECKS.update({
    'C09': dict(category='exploration', engine=E5, design='3/C09',
                technique='bounded-exhaustive enumeration of statements x Parquet layouts x cluster shapes, distributed vs single-node differential',
                text='~110 statements covering Concat/TwoPhase/TopN/Gather and refusals over fact tables (8-row with NULL/duplicate keys, empty, 1-2 rows) in 3 (quick) / 6 (thorough) file x row-group layouts, cluster sizes 1,2,3,8 with the initiator first and last (quick) / 1..8 (thorough); execute_any_distributed must equal ctx.sql on the same context.',
                note='Transport is the in-process FragmentTransport over the real execute_fragment/encode_ipc/decode_ipc; sockets are C16/C34/C35.'),
    'C10': dict(category='fault_enumeration', engine=E5, design='3/C10',
                technique='exhaustive fault-placement enumeration on the fragment transport (every truncation offset, every metadata byte flip, error kinds, placements)',
                text='For scatter and gather statements on 3-node (quick) / 3- and 4-node (thorough) clusters: per remote shard a transport error, HTTP 500, altered digest, misreported row count, truncation at every byte, XOR of every framing/metadata byte; thorough adds all pairs and all shards. The query must fail, or return exactly the fault-free answer where the fault cannot change the decoded batches.',
                note='Body-buffer corruption is undetectable without checksums and excluded; two known findings (abort on corrupt metadata, value-changing metadata flips) are listed.'),
    'C45': dict(category='exploration', engine=E5, design='3/C45',
                technique='bounded-exhaustive enumeration of statements where each column is read in exactly one syntactic position, plan inspection + distributed vs single-node differential',
                text='15 templates x every ordered pair of three 4-column tables x 8 (quick) / 24 (thorough) column permutations: plan_gather must list every table and column the statement mentions (for statements that take the gather path) and the distributed run must bind and equal ctx.sql.',
                note='The label "columns the statement mentions" comes from the generator; over-gathering is accepted.'),
})
CHECKS.update({
    'C13': dict(category='exploration', engine=E2, design='3/C13',
                technique='exhaustive enumeration of Parquet layouts x node counts x projections x filters, union-of-shards oracle',
                text='Real Parquet tables of up to 12-13 uniquely numbered rows in every layout (1..3 files x row-group size 1/2/5/all), 1..6 (quick) / 1..8 (thorough) nodes so sub-row-group ranges occur, 7 projections x 8 filters through the exact shard contexts the coordinator builds; the multiset union of the shard answers must equal the whole-table answer.',
                note='Queries go through ctx.sql on each shard context, i.e. through the same scan path (projection, pushed filter, pruning) a fragment uses.'),
    'C14': dict(category='exploration', engine=E2, design='3/C14',
                technique='exhaustive enumeration of single-attribute table-copy differences x shard counts x indices x digests on the real execute_fragment',
                text='3 base tables x 8 worker copies (2 that must be split-identical, 6 differing in one split-relevant attribute) x shard counts x every shard index incl. out of range x {initiator, worker, zero} digests: a fragment runs iff the index is in range and the digest is the worker\'s own.',
                note='Byte-size-only differences are produced with wider strings in real files rather than forged footers.'),
})
CHECKS.update({
    'C05': dict(category='exploration', engine=E2, design='3/C05',
                technique='exhaustive enumeration of row-group contents x predicates on real one-row-group Parquet files, decode-and-evaluate oracle',
                text='Every multiset of 1..2 (quick) / 3 (thorough) boundary values for int32/int64/double/utf8/date32 columns against ~900 (quick) / several thousand (thorough) predicates built from 45 literals of every kind the pruner matches on; a skipped group must contain no TRUE row, a dropped filter must have every row TRUE.',
                note='Row-level truth is the interpreter (evaluate_expr); NaN-in-data cases are a listed known finding (Parquet statistics do not cover NaN).'),
    'C37': dict(category='exploration', engine=E2, design='3/C37',
                technique='exhaustive enumeration of short arrays with NULLs plus structured families for every length up to 130, round-trip and Arrow-kernel oracles',
                text='All arrays of length <= 5/6 over {NULL,v1,v2} for five types (also sliced), nine run/constant/NULL-position families for lengths 1..130; encode_optimal(..).decode() must equal the input and the six SIMD helpers must equal the Arrow kernels on all equal-length pairs.',
                note='Dictionary-typed results are compared after casting to the value type.'),
    'C39': dict(category='exploration', engine=E2, design='3/C39',
                technique='enumeration of scale factors x seeds with regeneration, Parquet round trip, foreign-key resolution and threaded regeneration',
                text='Scale factors 0.001-0.005 (quick) / -0.05 (thorough) x 3 seeds: two runs equal, row counts equal TpchRowCounts, ten foreign keys resolve, Parquet write/read equals memory, threads equal the reference; source scanned for global state.',
                note='The schedule quantifier is vacuous by construction (no shared state); one deliberate dangling key range is a listed known finding.'),
})
CHECKS['C29'] = dict(category='exploration', engine=E1, design='3/C29',
    technique='exhaustive enumeration of token strings / byte strings up to a length and of parametric depth families for every n, executed in a supervised engine subprocess',
    text='All token strings of length <= 4 (quick, 345k) / 5 (thorough, 8M) over a 24-token SQL alphabet, all strings of <= 3/4 hostile bytes, ~200 mistyped/unsupported/boundary statements, 18 depth families for every n in 1..400 (quick) / 3000 (thorough): each must return Ok or Err within 30 s without a panic and without killing the process.',
    note='Invalid UTF-8 cannot reach the &str API; join chains are capped at 120/300 relations (planning cost there is polynomial work, not a hang); one known finding (unbounded string function results).')
PENDING_REASON = 'check not built yet in this round (planned in DESIGN.md section 3); not claimed until it exists'
