"""C13 shard scans reassemble the table exactly."""
from vlib import native
LEVEL = 'exploration'


def run(rep):
    rep.rule = ('real Parquet tables of {1,5,12} (quick) / {0,1,2,5,12,13} (thorough) uniquely numbered rows in every layout {1..3 files} x row-group size {1,2,5,all}; node counts 1..6 / 1..8 '
                '(sub-row-group ranges occur whenever nodes exceed row groups); through splits_of + assign_lpt + shard_context exactly as the coordinator builds them; 7 projections x 8 filters '
                '(incl. one pruning every row group and one keeping all); oracle: the multiset union over the shards of the query equals the whole-table answer, parquet_files() is None for every shard, '
                'COUNT(*) over the shards sums to the table; non-trivial = non-empty answer on more than one node')
    native.run(rep, 'c13')


def replay(payload):
    return native.replay_generic(payload)
