"""Shared table builders for the SQL checks."""
import itertools


def D(s):
    return ['d', s]


def F(x):
    return ['f', repr(float(x))]


def table(name, cols, rows, **kw):
    t = {'name': name, 'cols': [list(c) for c in cols], 'rows': [list(r) for r in rows]}
    t.update(kw)
    return t


def universal(name, cols, domains, with_id=True, **kw):
    """every combination of the domains once, plus a unique id column."""
    rows = []
    for i, combo in enumerate(itertools.product(*domains)):
        rows.append(([i] if with_id else []) + list(combo))
    c = ([['id', 'int64']] if with_id else []) + [list(x) for x in cols]
    return table(name, c, rows, **kw)


def sql_lit(v):
    if v is None:
        return 'NULL'
    if isinstance(v, bool):
        return 'TRUE' if v else 'FALSE'
    if isinstance(v, list) and v[0] == 'd':
        return "DATE '%s'" % v[1]
    if isinstance(v, list) and v[0] == 'f':
        return v[1]
    if isinstance(v, str):
        return "'" + v.replace("'", "''") + "'"
    return str(v)


def chunks(lst, n):
    for i in range(0, len(lst), n):
        yield lst[i:i + n]
