"""Shared statement corpus (the C01 umbrella grammar), used by C01, C03, C30, C31.

Tables: t(a BIGINT, b BIGINT, s VARCHAR), u(a BIGINT, c DOUBLE, d DATE).
Every statement is a dict for vlib.sqldiff: sql, ref (reference SQL without LIMIT/OFFSET), order, limit, offset, approx, tag.
"""
import itertools

FROMS = [
    ('t', 'FROM t', ['t.a', 't.b', 't.s'], 'single'),
    ('join', 'FROM t JOIN u ON t.a = u.a', ['t.a', 't.b', 't.s', 'u.c', 'u.d'], 'inner-join'),
    ('left', 'FROM t LEFT JOIN u ON t.a = u.a', ['t.a', 't.b', 't.s', 'u.c', 'u.d'], 'left-join'),
    ('comma', 'FROM t, u WHERE t.a = u.a', ['t.a', 't.b', 't.s', 'u.c', 'u.d'], 'comma-join'),
    # the WHERE predicates below are over t: the NULL-supplying side of a RIGHT join, one of the two of a FULL join
    ('right', 'FROM t RIGHT JOIN u ON t.a = u.a', ['t.a', 't.b', 't.s', 'u.c', 'u.d'], 'right-join'),
    ('full', 'FROM t FULL JOIN u ON t.a = u.a', ['t.a', 't.b', 't.s', 'u.c', 'u.d'], 'full-join'),
    # an equi key AND a non-equi residual in ON, filtered from outside: flattening the join must keep both
    ('joinres', 'FROM t JOIN u ON t.a = u.a AND t.b < u.c + 1', ['t.a', 't.b', 't.s', 'u.c', 'u.d'], 'inner-join-residual'),
]
UPREDS = ['u.c IS NULL', 'u.c > 1', 'u.a IS NOT NULL AND t.b IS NULL']
PREDS = ['t.a = 1', 't.a <> t.b', 't.b IS NULL', 't.a IN (1, 2)', 't.a BETWEEN 1 AND t.b', "t.s LIKE 'a%'", 't.a = 1 OR t.b = 2', 'NOT (t.a = 1 AND t.b = 2)',
         't.a IS NOT NULL AND t.b > 1', "t.s IN ('a', 'B')", 't.a + t.b > 2', "COALESCE(t.s, 'z') <> 'a'"]
PROJS = [('cols', 't.a, t.b, t.s'), ('arith', 't.a, t.a + t.b AS ab, t.b * 2 AS b2, t.a - 1 AS am'), ('case', "t.a, CASE WHEN t.a = 1 THEN 'one' WHEN t.b = 2 THEN 'two' ELSE t.s END AS c"),
         ('coalesce', 't.a, COALESCE(t.b, t.a, 0) AS cb, COALESCE(t.s, \'-\') AS cs'), ('case-operand', "CASE t.a WHEN 1 THEN 10 WHEN 2 THEN 20 END AS k, t.s"),
         ('nullif', 'NULLIF(t.a, 1) AS n, t.b')]
AGGS = ['COUNT(*)', 'COUNT(t.b)', 'SUM(t.b)', 'MIN(t.b)', 'MAX(t.s)', 'AVG(t.b)', 'COUNT(DISTINCT t.b)']
SUBQS = ['t.a IN (SELECT a FROM u)', 't.a NOT IN (SELECT a FROM u WHERE a IS NOT NULL)', 'EXISTS (SELECT 1 FROM u WHERE u.a = t.a)', 'NOT EXISTS (SELECT 1 FROM u WHERE u.a = t.a)',
         't.b > (SELECT MIN(a) FROM u)', 't.b = (SELECT COUNT(*) FROM u WHERE u.a = t.a)']
SETOPS = ['UNION', 'UNION ALL', 'INTERSECT', 'EXCEPT']


def _mk(sql, tag, ref=None, order=None, limit=None, offset=None, approx=False, alts=None):
    d = {'sql': sql, 'tag': tag}
    if ref:
        d['ref'] = ref
    if order is not None:
        d['order'] = order
    if limit is not None:
        d['limit'] = limit
    if offset is not None:
        d['offset'] = offset
    if approx:
        d['approx'] = True
    if alts:
        d['alts'] = alts
    return d


def where_join(frm, pred):
    if pred is None:
        return frm
    return frm + (' AND ' if ' WHERE ' in frm else ' WHERE ') + '(' + pred + ')'


def statements(level):
    """level 1: at most one optional clause beyond FROM/WHERE; level 2: two; level 3: adds three-clause combinations."""
    S = []
    for fname, frm, cols, ftag in FROMS:
        preds = [None] + PREDS if fname == 't' else [None] + PREDS[:5] + UPREDS
        for pred in preds:
            base = where_join(frm, pred)
            ptag = ftag + ('+where' if pred else '')
            # projections
            for pname, proj in PROJS if (fname == 't' or pred is None) else PROJS[:2]:
                S.append(_mk('SELECT %s %s' % (proj, base), ptag + '|proj-' + pname))
            if fname != 't':
                S.append(_mk('SELECT t.a, u.c, u.d %s' % base, ptag + '|proj-both-sides'))
            # DISTINCT
            S.append(_mk('SELECT DISTINCT t.a, t.s %s' % base, ptag + '|distinct'))
            # GROUP BY + HAVING
            for ag in (AGGS if (fname == 't' and pred is None) else AGGS[:3]):
                approx = ag.startswith('AVG')
                S.append(_mk('SELECT t.a, %s AS g %s GROUP BY t.a' % (ag, base), ptag + '|group', approx=approx))
                if level >= 2 or pred is None:
                    S.append(_mk('SELECT t.a, %s AS g %s GROUP BY t.a HAVING COUNT(*) > 1' % (ag, base), ptag + '|group+having', approx=approx))
                S.append(_mk('SELECT %s AS g %s' % (ag, base), ptag + '|global-agg', approx=approx))
            # ORDER BY / LIMIT / OFFSET
            for (otext, order) in [('t.a NULLS FIRST, t.b DESC NULLS LAST, t.s', [(0, False, True), (1, True, False), (2, False, False)]),
                                   ('t.b DESC NULLS FIRST, t.a, t.s NULLS FIRST', [(1, True, True), (0, False, False), (2, False, True)])]:
                for lim, off in ([(None, None), (2, None), (1, 1), (0, None), (5, 2)] if (pred is None or level >= 2) else [(2, None)]):
                    tail = ('' if lim is None else ' LIMIT %d' % lim) + ('' if off is None else ' OFFSET %d' % off)
                    S.append(_mk('SELECT t.a, t.b, t.s %s ORDER BY %s%s' % (base, otext, tail), ptag + '|order' + ('+limit' if lim is not None else ''),
                                 ref='SELECT t.a, t.b, t.s %s' % base, order=order, limit=lim, offset=off))
            if level >= 2:
                S.append(_mk('SELECT t.a, COUNT(*) AS c %s GROUP BY t.a ORDER BY c DESC, t.a NULLS LAST LIMIT 2' % base, ptag + '|group+order+limit',
                             ref='SELECT t.a, COUNT(*) AS c %s GROUP BY t.a' % base, order=[(1, True, False), (0, False, False)], limit=2))
                S.append(_mk('SELECT DISTINCT t.b %s ORDER BY t.b NULLS FIRST LIMIT 2' % base, ptag + '|distinct+order+limit',
                             ref='SELECT DISTINCT t.b %s' % base, order=[(0, False, True)], limit=2))
    # subqueries (on the single table)
    for sq in SUBQS:
        for pred in [None, 't.b IS NOT NULL']:
            w = ' AND '.join([p for p in (sq, pred) if p])
            S.append(_mk('SELECT t.a, t.b FROM t WHERE %s' % w, 'subquery'))
        S.append(_mk('SELECT t.a, COUNT(*) AS c FROM t WHERE %s GROUP BY t.a' % sq, 'subquery+group'))
    S.append(_mk('SELECT t.a, (SELECT MAX(c) FROM u WHERE u.a = t.a) AS m FROM t', 'scalar-subquery-select'))
    S.append(_mk('SELECT t.a, (SELECT COUNT(*) FROM u) AS n FROM t', 'scalar-subquery-uncorr'))
    # set operations (known C24 findings have their own check; here only forms whose semantics do not involve NULL/duplicate subtleties are compared strictly)
    for op in SETOPS:
        S.append(_mk('SELECT a FROM t WHERE a IS NOT NULL %s SELECT a FROM u WHERE a IS NOT NULL' % op, 'setop-' + op.replace(' ', '-'),
                     alts=None))
        S.append(_mk('SELECT a, b FROM t WHERE a = 1 %s SELECT a, b FROM t WHERE b = 2' % op, 'setop2-' + op.replace(' ', '-')))
    S.append(_mk('SELECT a FROM t UNION ALL SELECT a FROM u ORDER BY a NULLS LAST LIMIT 3', 'setop+order+limit', ref='SELECT a FROM t UNION ALL SELECT a FROM u', order=[(0, False, False)], limit=3))
    # derived tables and CTEs
    S.append(_mk('SELECT q.a, q.n FROM (SELECT a, COUNT(*) AS n FROM t GROUP BY a) q WHERE q.n > 0', 'derived-agg'))
    S.append(_mk('SELECT x.a, y.c FROM (SELECT a, b FROM t WHERE b IS NOT NULL) x JOIN (SELECT a, c FROM u) y ON x.a = y.a', 'derived-join'))
    S.append(_mk('WITH c AS (SELECT a, SUM(b) AS sb FROM t GROUP BY a) SELECT c.a, c.sb, u.c FROM c LEFT JOIN u ON c.a = u.a', 'cte-join'))
    # a derived table / CTE whose output REUSES an input column's name for a different value, filtered from outside: the outer predicate means the computed value
    S.append(_mk('SELECT q.a, q.b FROM (SELECT a, b + 1 AS b FROM t) q WHERE q.b = 2', 'derived-shadow-arith'))
    S.append(_mk('SELECT a, b FROM (SELECT b AS a, a AS b FROM t) q WHERE a = 1', 'derived-shadow-swap'))
    S.append(_mk('SELECT a, b FROM (SELECT a, COALESCE(b, 0) AS b FROM t) q WHERE b = 0', 'derived-shadow-coalesce'))
    S.append(_mk('SELECT a, c FROM (SELECT t.a, COALESCE(u.c, 0) AS c FROM t LEFT JOIN u ON t.a = u.a) q WHERE c = 0', 'derived-shadow-coalesce-outer-join'))
    S.append(_mk('SELECT a, c FROM (SELECT u.a, COALESCE(t.b, 0) AS c FROM t RIGHT JOIN u ON t.a = u.a) q WHERE c = 0', 'derived-shadow-coalesce-right-join'))
    S.append(_mk('SELECT a, b FROM (SELECT a, COUNT(*) AS b FROM t GROUP BY a) q WHERE b = 1', 'derived-shadow-aggregate'))
    S.append(_mk('WITH q AS (SELECT a, -b AS b FROM t) SELECT a, b FROM q WHERE b < 0', 'cte-shadow-arith'))
    S.append(_mk('SELECT a FROM (SELECT a, a * 0 AS s FROM t) q WHERE s = 0', 'derived-shadow-other-type'))
    S.append(_mk('SELECT a, b FROM (SELECT a, b FROM (SELECT a, a AS b FROM t) x WHERE b = 1) y WHERE a = b', 'derived-shadow-nested'))
    S.append(_mk("SELECT a, s FROM (SELECT a, CASE WHEN s IS NULL THEN 'n' ELSE s END AS s FROM t) q WHERE s = 'n'", 'derived-shadow-case'))
    # ON with an equi key and a residual, a WHERE over a column that is neither projected nor joined on (a projection lands between the filtered scan and the join)
    for w in ("t.s <> 'ab'", 't.s IS NOT NULL', 'u.d IS NOT NULL', "t.s <> 'ab' AND u.d IS NOT NULL"):
        S.append(_mk('SELECT t.a, u.c FROM t JOIN u ON t.a = u.a AND t.b < u.c + 1 WHERE %s' % w, 'join-residual+unprojected-filter'))
        S.append(_mk('SELECT t.a, u.c FROM t JOIN u ON t.a = u.a AND t.b < u.c + 1 WHERE %s ORDER BY u.c DESC NULLS LAST, t.a LIMIT 2' % w, 'join-residual+unprojected-filter+topk',
                     ref='SELECT t.a, u.c FROM t JOIN u ON t.a = u.a AND t.b < u.c + 1 WHERE %s' % w, order=[(1, True, False), (0, False, False)], limit=2))
        S.append(_mk('SELECT COUNT(*) AS n FROM t JOIN u ON t.a = u.a AND t.b <> u.c WHERE %s' % w, 'join-residual+unprojected-filter+count'))
    S.append(_mk("SELECT t.a, u.c FROM u JOIN t ON u.a = t.a AND u.c + 1 > t.b WHERE t.s <> 'ab'", 'join-residual+unprojected-filter-swapped'))
    # date / double columns of u
    S.append(_mk("SELECT a, c, d FROM u WHERE d >= DATE '2024-01-01' AND c < 2.0", 'date-double-filter'))
    S.append(_mk('SELECT d, SUM(c) AS sc, COUNT(*) AS n FROM u GROUP BY d', 'date-group'))
    S.append(_mk('SELECT a, c * 2 AS c2, c + a AS ca FROM u ORDER BY d DESC NULLS LAST, a', 'double-arith+order-by-unselected', ref='SELECT a, c * 2 AS c2, c + a AS ca FROM u'))
    return S


def databases(level, seed=0):
    """(name, dbspec) list. level 1: t with <= 2 rows over 5 row kinds x u with <= 1 row over 3 kinds + a dirty 5-row database; level 2: u with <= 2 rows and t <= 3 rows."""
    from vlib.enumr import multisets, rotate
    from .common import table, D, F
    tk = [(1, 1, 'a'), (1, 2, None), (2, None, 'B'), (None, 1, 'a'), (None, None, None)]
    uk = [(1, F(0.5), D('2024-02-29')), (2, None, D('2023-12-31')), (None, F(2.0), None)]
    tmax, umax = (2, 1) if level == 1 else (3, 2)
    out = []
    tcols = [['a', 'int64'], ['b', 'int64'], ['s', 'utf8']]
    ucols = [['a', 'int64'], ['c', 'float64'], ['d', 'date32']]
    for tr in multisets(tk, tmax):
        for ur in multisets(uk, umax):
            out.append({'tables': [table('t', tcols, [list(r) for r in tr]), table('u', ucols, [list(r) for r in ur])]})
    dirty_t = [[1, 1, 'a'], [1, 1, 'a'], [1, 2, 'ab'], [2, None, 'B'], [None, 2, None], [None, None, ''], [2, 2, 'a']]
    dirty_u = [[1, F(0.5), D('2024-02-29')], [1, F(-1.5), D('2024-02-29')], [2, None, None], [None, F(2.0), D('2023-12-31')], [5, F(0.0), D('2024-02-29')]]
    out.append({'tables': [table('t', tcols, dirty_t), table('u', ucols, dirty_u)]})
    out.append({'tables': [table('t', tcols, dirty_t, nbatches=3), table('u', ucols, dirty_u, nbatches=2)]})
    return rotate(out, seed)
