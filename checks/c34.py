"""C34 Flight and HTTP return the same answer."""
from vlib import native
LEVEL = 'exploration'
PACKAGES = ('qe-native',)


def run(rep):
    rep.rule = ('real serve nodes (clusters of 1..2 quick / 1..3 thorough members) over generated Parquet tables of 9,000 / 20,000 rows; 15 statements (scans, filters that keep nothing, aggregates, joins, expressions, and '
                'ORDER BY k LIMIT n for n in {1, 4095, 4096, 4097, 8192, 8193}) x mode {default, auto, off, force}: the statement goes through GetFlightInfo + DoGet (arrow-flight client) and through POST /sql; '
                'oracle: same schema (GetFlightInfo, DoGet stream and HTTP body), same rows (sequence under ORDER BY, multiset otherwise), no Flight message above 4096 rows, the metadata trailer is the last message, '
                'its row count equals the rows streamed, its distribution decision / shard count / skip reason equal the x-qe-* headers; invalid statements are refused by both doors; '
                'tickets: every proper prefix of a minted ticket, 7 version values, missing fields, unknown mode, non-JSON, invalid UTF-8, empty, a JSON array and a > 1 MiB ticket must be refused; the minted ticket must be served')
    native.run(rep, 'c34')


def replay(payload):
    return native.replay_generic(payload)
