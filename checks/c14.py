"""C14 nodes that disagree about the data refuse to answer."""
from vlib import native
LEVEL = 'exploration'


def run(rep):
    rep.rule = ("3 base tables (1-3 Parquet files, mixed row-group sizes) x 8 worker copies differing from the initiator in exactly one attribute (identical elsewhere, files in reverse order - must NOT differ; "
                "file renamed, row-group size, one row more, one row fewer, wider strings, extra file - must differ) x shard_count 1..3 (quick) / 1..4 (thorough) x shard_index 0..shard_count+1 x "
                "digest in {initiator's, worker's own, 0}; oracle: execute_fragment is Ok iff the index is in range and the digest is the one the worker computes (so the initiator's digest is "
                "accepted iff the copies are split-identical), returned rows belong to the worker's table and the in-range shards cover it; non-trivial = a refused request")
    native.run(rep, 'c14')


def replay(payload):
    return native.replay_generic(payload)
