"""C15 membership view: BFS over operation histories on the real Membership object."""
from vlib import native
LEVEL = 'model_checking'


def run(rep):
    rep.rule = ('explicit-state BFS: a state is the history reaching it, deduplicated on the canonical observable view (sorted peers with status/id/flight/min(failures,2)/has_error, '
                'resolved, has_resolve_error); alphabet = set_members(S) for every S subset of 5 addresses (+3 lists with duplicates), record_up(x) with and without id/flight, '
                'record_down(x), record_resolve_error; depth 4 (quick) / 6 (thorough); every transition is executed on a real Membership rebuilt by replay and compared with a '
                'reference map, plus the invariants (one self, never a peer, sorted unique, generation monotone and advancing on set change, same-set re-resolve keeps probe state)')
    rep.assumptions = ['localhost resolves to 127.0.0.1 through /etc/hosts; 127.0.0.2 is not bound to a local interface',
                       'dropping generation/timestamps/failures>2 from the state key is sound: no method reads them to decide behaviour (they are checked per transition)']
    native.run(rep, 'c15')


def replay(payload):
    return native.replay_generic(payload)
