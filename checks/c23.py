"""C23 subqueries: EXISTS / IN / scalar, correlated or not, three executions (production, no decorrelation, unoptimized)."""
import itertools
from vlib import sqldiff
from vlib.enumr import multisets, rotate
from .common import table

LEVEL = 'exploration'

NODECORR = ['ConstantFolding', 'DeriveOrPredicates', 'PredicatePushdown', 'SemiJoinPushdown', 'JoinReorder', 'PredicatePushdown',
            'HavingTotalCse', 'GroupKeyReduction', 'EagerAggregation', 'PackedGroupKeys', 'PackedJoinKeys', 'ProjectionPushdown']


def shapes(deep):
    S = []

    def add(sql, tag):
        S.append((sql, tag))
    for neg in ('', 'NOT '):
        add('SELECT a, b FROM t WHERE %sEXISTS (SELECT 1 FROM u WHERE u.x = t.a)' % neg, neg + 'exists-corr')
        add('SELECT a, b FROM t WHERE %sEXISTS (SELECT 1 FROM u WHERE u.c > 1)' % neg, neg + 'exists-uncorr')
        add('SELECT a, b FROM t WHERE %sEXISTS (SELECT 1 FROM u WHERE u.x = t.a AND u.c = t.b)' % neg, neg + 'exists-corr2')
        add('SELECT a, b FROM t WHERE %sEXISTS (SELECT 1 FROM u WHERE u.x = t.a AND u.c > t.b)' % neg, neg + 'exists-corr-noneq')
        add('SELECT a, b FROM t WHERE a %sIN (SELECT x FROM u)' % neg, neg + 'in-uncorr')
        add('SELECT a, b FROM t WHERE b %sIN (SELECT c FROM u WHERE u.x = t.a)' % neg, neg + 'in-corr')
        add('SELECT a, b FROM t WHERE a %sIN (SELECT x FROM u WHERE c IS NOT NULL)' % neg, neg + 'in-uncorr-filtered')
    for op in ('=', '<', '>='):
        for agg in ('MIN(c)', 'MAX(c)', 'COUNT(c)', 'COUNT(*)', 'SUM(c)'):
            add('SELECT a, b FROM t WHERE b %s (SELECT %s FROM u WHERE u.x = t.a)' % (op, agg), 'scalar-corr-%s' % agg.split('(')[0])
            if op == '=':
                add('SELECT a, b FROM t WHERE b %s (SELECT %s FROM u)' % (op, agg), 'scalar-uncorr-%s' % agg.split('(')[0])
    for agg in ('MIN(c)', 'MAX(c)', 'COUNT(c)', 'COUNT(*)', 'SUM(c)'):
        add('SELECT a, (SELECT %s FROM u WHERE u.x = t.a) AS s FROM t' % agg, 'scalar-select-corr-%s' % agg.split('(')[0])
        add('SELECT a, (SELECT %s FROM u) AS s FROM t' % agg, 'scalar-select-uncorr-%s' % agg.split('(')[0])
    # the inner table has a column with the SAME NAME as the outer correlation column
    for neg in ('', 'NOT '):
        add('SELECT a, b FROM t WHERE %sEXISTS (SELECT 1 FROM v WHERE v.a = t.a)' % neg, neg + 'samename-exists')
        add('SELECT a, b FROM t WHERE b %sIN (SELECT c FROM v WHERE v.a = t.a)' % neg, neg + 'samename-in')
    add('SELECT a, (SELECT MAX(c) FROM v WHERE v.a = t.a) AS s FROM t', 'samename-scalar-select')
    add('SELECT a, b FROM t WHERE b = (SELECT MAX(c) FROM v WHERE v.a = t.a)', 'samename-scalar')
    # the inner table w(x,b) has a column named like an OUTER column and uses it unqualified: it is the inner column (innermost scope wins)
    add('SELECT a, (SELECT COUNT(b) FROM w WHERE w.x = t.a) AS s FROM t', 'innername-scalar-select-count')
    add('SELECT a, (SELECT MAX(b) FROM w WHERE w.x > t.b) AS s FROM t', 'innername-scalar-select-max')
    add('SELECT a, b FROM t WHERE b >= (SELECT MIN(b) FROM w WHERE w.x = t.a)', 'innername-scalar')
    add('SELECT a, b FROM t WHERE b > (SELECT MIN(w.x) FROM w WHERE w.b = t.a)', 'innername-operand-vs-correlation-key')
    add('SELECT a, b FROM t WHERE b >= (SELECT MIN(b) FROM w WHERE w.b = t.a)', 'innername-operand-and-argument')
    for neg in ('', 'NOT '):
        add('SELECT a, b FROM t WHERE %sEXISTS (SELECT 1 FROM w WHERE b = t.a)' % neg, neg + 'innername-exists')
        add('SELECT a, b FROM t WHERE a %sIN (SELECT b FROM w WHERE x >= t.b)' % neg, neg + 'innername-in')
    # a subquery predicate ABOVE an outer join, keyed on the NULL-supplying or on the preserved side: the semi / anti join it becomes filters the joined rows
    for jt in ('LEFT', 'RIGHT', 'FULL'):
        for col in ('u.c', 't.b'):
            tagc = 'nullable' if (col == 'u.c') == (jt == 'LEFT') or jt == 'FULL' else 'preserved'
            add('SELECT t.a, t.b, u.c FROM t %s JOIN u ON t.a = u.x WHERE %s IN (SELECT c FROM v)' % (jt, col), 'in-above-%s-join-%s' % (jt, tagc))
            add('SELECT t.a, t.b, u.c FROM t %s JOIN u ON t.a = u.x WHERE EXISTS (SELECT 1 FROM v WHERE v.c = %s)' % (jt, col), 'exists-above-%s-join-%s' % (jt, tagc))
            add('SELECT t.a, t.b, u.c FROM t %s JOIN u ON t.a = u.x WHERE NOT EXISTS (SELECT 1 FROM v WHERE v.c = %s)' % (jt, col), 'notexists-above-%s-join-%s' % (jt, tagc))
    if deep:
        base = ['EXISTS (SELECT 1 FROM u WHERE u.x = t.a)', 'a IN (SELECT x FROM u)', 'b NOT IN (SELECT c FROM u)', 'b = (SELECT MAX(c) FROM u WHERE u.x = t.a)',
                'NOT EXISTS (SELECT 1 FROM u WHERE u.c = t.b)']
        for x, y in itertools.permutations(base, 2):
            for op in ('AND', 'OR'):
                add('SELECT a, b FROM t WHERE (%s) %s (%s)' % (x, op, y), 'combined-' + op)
    return S


def known_alts(sql, tag):
    # known finding: inside an IN subquery an outer reference (t.a, t.b) is captured by the inner table's column of the same name
    if 'samename-in' in tag:
        return {'in_subquery_outer_ref_captured_by_same_named_inner_column': sql.replace('v.a = t.a', 'v.a = v.a')}
    if 'innername-in' in tag:
        return {'in_subquery_outer_ref_captured_by_same_named_inner_column': sql.replace('x >= t.b', 'x >= w.b')}
    return None


def run(rep):
    quick = rep.tier == 'quick'
    dom = [None, 1, 2]
    kinds = list(itertools.product(dom, dom))
    tmax, umax = (2, 2) if quick else (3, 3)
    if quick:
        # every single outer row, plus the two-row outers that repeat a correlation value (duplicate correlation values)
        dupkinds = [(None, None), (1, 1), (1, 2), (2, 1)]
        ttabs = [[k] for k in kinds] + [list(m) for m in multisets(dupkinds, 2, 2)]
    else:
        ttabs = list(multisets(kinds, tmax, 1))
    utabs = list(multisets(kinds, umax, 0))
    if quick:
        allpairs = [(a, b) for a in ttabs for b in utabs]
    else:
        # the full 3 x 3 product (48,000 table pairs x ~450 statements) does not finish: every pair with <= 2 rows a side, every 3-row outer
        # against every inner of <= 1 row, and every 1-row outer against every 3-row inner
        allpairs = [(a, b) for a in ttabs for b in utabs if (len(a) <= 2 and len(b) <= 2) or (len(a) == 3 and len(b) <= 1) or (len(a) == 1 and len(b) == 3)]
    pairs = rotate(allpairs, rep.seed)
    sh = shapes(not quick)
    units = []
    for (tr, ur) in pairs:
        db = {'tables': [table('t', [['a', 'int64'], ['b', 'int64']], [list(r) for r in tr]),
                         table('u', [['x', 'int64'], ['c', 'int64']], [list(r) for r in ur]),
                         table('v', [['a', 'int64'], ['c', 'int64']], [list(r) for r in ur]),
                         table('w', [['x', 'int64'], ['b', 'int64']], [list(r) for r in ur])]}
        st = []
        for sql, tag in sh:
            alts = known_alts(sql, tag)
            st.append({'sql': sql, 'tag': tag, 'mode': 'prod', 'nontrivial': True, 'alts': alts})
            st.append({'sql': sql, 'tag': tag + '|nodecorr', 'mode': 'rules', 'rules': NODECORR, 'nontrivial': True, 'alts': alts})
            if quick and 'scalar' in tag:
                continue
            st.append({'sql': sql, 'tag': tag + '|noopt', 'mode': 'noopt', 'nontrivial': True, 'alts': alts})
        units.append({'db': db, 'stmts': st})
    # storage: the same shapes over Parquet with one and two rows per row group (every inner scan declares several partitions), larger fixed tables
    big_t = [[k, ((k * 7) % 5 if k % 4 else None) if k is not None else 2] for k in [None, 1, 2, 3, 4, 5, 6, 2, 3]]
    big_u = [[(i * 3) % 7 if i % 5 else None, i % 4 if i % 3 else None] for i in range(11)]
    pq_units = []
    for rg in (1, 2):
        kw = {'storage': 'parquet', 'rg': rg}
        db = {'tables': [table('t', [['a', 'int64'], ['b', 'int64']], big_t, **kw), table('u', [['x', 'int64'], ['c', 'int64']], big_u, **kw),
                         table('v', [['a', 'int64'], ['c', 'int64']], big_u, **kw), table('w', [['x', 'int64'], ['b', 'int64']], big_u, **kw)]}
        st = []
        for sql, tag in sh:
            alts = known_alts(sql, tag)
            for mode, extra in (('prod', {}), ('rules', {'rules': NODECORR}), ('noopt', {})):
                st.append(dict({'sql': sql, 'tag': tag + '|parquet-rg%d|%s' % (rg, mode), 'mode': mode, 'nontrivial': True, 'alts': alts}, **extra))
        for i in range(0, len(st), 40):
            pq_units.append({'db': db, 'stmts': st[i:i + 40]})
    units = pq_units + units
    rep.rule = ('outer t(a,b) = multisets of 1..%d rows, inner u(x,c) = multisets of 0..%d rows over {NULL,1,2}^2 (quick: every pair listed; thorough: every pair with <= 2 rows a side, 3-row outers with <= 1-row inners, 1-row outers with 3-row inners); [NOT] EXISTS (correlated on 1-2 equalities, on an inequality, '
                'uncorrelated), [NOT] IN (correlated / uncorrelated), scalar MIN/MAX/COUNT/SUM subqueries under =,<,>= in WHERE and in the SELECT list%s; an inner table that re-uses an outer column name unqualified; IN / EXISTS / NOT EXISTS above LEFT / RIGHT / FULL joins keyed on either side; all shapes again over 9- and 11-row Parquet tables with 1 and 2 rows per row group; three executions each: production '
                'optimizer, production without FlattenDependentJoin/SubqueryDecorrelation (row-by-row executor), bound plan unoptimized; oracle SQLite 3.40' % (tmax, umax, '' if quick else ', pairs combined with AND/OR'))
    sqldiff.run(rep, units)


def replay(payload):
    return sqldiff.replay(payload)
