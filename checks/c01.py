"""C01 SQL answers agree with standard SQL semantics: the umbrella (composition) check."""
from vlib import sqldiff
from . import corpus

LEVEL = 'exploration'


def run(rep):
    quick = rep.tier == 'quick'
    level = 1 if quick else 2
    st = corpus.statements(level)
    dbs = corpus.databases(level, rep.seed)
    units = []
    for db in dbs:
        for i in range(0, len(st), 130):
            units.append({'db': db, 'stmts': st[i:i + 130]})
    rep.rule = ('%d statements of the umbrella grammar (FROM t | inner / left / comma join with u; optional WHERE from 12 predicates; projections with arithmetic / CASE / COALESCE / NULLIF; DISTINCT; '
                'GROUP BY + 7 aggregates [+ HAVING]; ORDER BY 3 keys with NULLS FIRST/LAST x LIMIT/OFFSET; IN / EXISTS / scalar subqueries; UNION/INTERSECT/EXCEPT; derived tables, CTE; date and '
                'double columns), at most %d optional clause(s) beyond FROM/WHERE, x %d databases (all t with <= %d rows over 5 row kinds x all u with <= %d rows over 3 kinds, plus a 7-row dirty '
                'database in 1 and in 3 batches); oracle SQLite 3.40 with the comparison rules of DESIGN 2.1; an error is acceptable, a different answer is not'
                % (len(st), level, len(dbs), 2 if quick else 3, 1 if quick else 2))
    sqldiff.run(rep, units)


def replay(payload):
    return sqldiff.replay(payload)
