"""C25 ORDER BY / LIMIT / OFFSET on the full-sort, fused top-k and spilled paths."""
import itertools
from vlib import sqldiff
from vlib.enumr import multisets, rotate
from .common import table, D, F

LEVEL = 'exploration'

XDOM = {
    'int64': [None, 1, 2],
    'float64': [None, F(0.5), F(2.0)],
    'utf8': [None, 'a', 'b'],
    'date32': [None, D('2024-01-01'), D('2024-01-02')],
    'bool': [None, False, True],
}


def specs():
    out = []
    for d1 in ('ASC', 'DESC'):
        for n1 in ('', ' NULLS FIRST', ' NULLS LAST'):
            nf = n1 == ' NULLS FIRST'
            out.append(('x %s%s' % (d1, n1), [(0, d1 == 'DESC', nf)]))
            for d2 in ('ASC', 'DESC'):
                out.append(('x %s%s, y %s' % (d1, n1, d2), [(0, d1 == 'DESC', nf), (1, d2 == 'DESC', False)]))
    return out


def run(rep):
    quick = rep.tier == 'quick'
    maxrows = 3 if quick else 4
    limits = [None, 0, 1, 2, 5] if quick else [None, 0, 1, 2, 5, 6, 100]
    offsets = [None, 1, 4] if quick else [None, 0, 1, 4, 5, 6]
    types = ['int64', 'utf8'] if quick else list(XDOM)
    units = []
    sp = specs()
    for xt in types:
        kinds = list(itertools.product(XDOM[xt], [1, 2]))
        tables = rotate(list(multisets(kinds, maxrows, 1)), rep.seed)
        layouts = [('1batch', {}, {}), ('spill', {}, {'mem_limit': 1})]
        if xt == 'int64' or not quick:
            layouts.append(('3batches', {'nbatches': 3}, {}))
        for rows in tables:
            rows = [list(r) for r in rows]
            for lname, kw, ctx in layouts:
                if 'nbatches' in kw and len(rows) < 2:
                    continue
                db = {'tables': [table('t', [['x', xt], ['y', 'int64']], rows, **kw)]}
                if ctx:
                    db['ctx'] = ctx
                st = []
                for (otext, order) in sp:
                    for lim in limits:
                        for off in offsets:
                            sql = 'SELECT x, y FROM t ORDER BY ' + otext
                            if lim is not None:
                                sql += ' LIMIT %d' % lim
                            if off is not None:
                                sql += ' OFFSET %d' % off
                            st.append({'sql': sql, 'ref': 'SELECT x, y FROM t', 'order': order, 'limit': lim, 'offset': off,
                                       'tag': 'order%s%s' % ('+limit' if lim is not None else '', '+offset' if off is not None else ''),
                                       'nontrivial': True, 'want_plan': len(st) % 60 == 0})
                if xt == 'int64' and lname == '1batch':
                    for lim in (None, 2):
                        tail = '' if lim is None else ' LIMIT %d' % lim
                        st.append({'sql': 'SELECT x, y FROM t ORDER BY 1 DESC, 2' + tail, 'ref': 'SELECT x, y FROM t',
                                   'order': [(0, True, False), (1, False, False)], 'limit': lim, 'tag': 'ordinal', 'nontrivial': True})
                        st.append({'sql': 'SELECT x AS k, y FROM t ORDER BY k NULLS FIRST, y DESC' + tail, 'ref': 'SELECT x, y FROM t',
                                   'order': [(0, False, True), (1, True, False)], 'limit': lim, 'tag': 'alias', 'nontrivial': True})
                        st.append({'sql': 'SELECT x, y, x + y AS s FROM t ORDER BY x + y DESC NULLS LAST, y' + tail, 'ref': 'SELECT x, y, x + y FROM t',
                                   'order': [(2, True, False), (1, False, False)], 'limit': lim, 'tag': 'expression', 'nontrivial': True})
                if xt == 'int64' and lname in ('1batch', '3batches'):
                    # LIMIT/OFFSET below other operators: the slice is taken BEFORE the outer filter, join, aggregate or second limit sees the rows
                    # (inner ORDER BY total up to identical rows, NULL placement explicit so that SQLite and the engine mean the same slice)
                    inner = ['SELECT x, y FROM t ORDER BY x NULLS LAST, y LIMIT 2', 'SELECT x, y FROM t ORDER BY x DESC NULLS FIRST, y DESC LIMIT 2 OFFSET 1',
                             'SELECT x, y FROM t ORDER BY y DESC, x NULLS FIRST LIMIT 1', 'SELECT DISTINCT x, y FROM t ORDER BY x NULLS LAST, y LIMIT 2']
                    for q in inner:
                        for pred in ('y = 2', 'y = 1', 'x > 1', 'x IS NULL', 'x IS NOT NULL', 'x = 1 OR y = 2', 'x + y > 2'):
                            st.append({'sql': 'SELECT x, y FROM (%s) q WHERE %s' % (q, pred), 'tag': 'filter-above-limit', 'nontrivial': True})
                        st.append({'sql': 'SELECT COUNT(*), MIN(x), SUM(y) FROM (%s) q WHERE y = 2' % q, 'tag': 'aggregate-above-limit'})
                        st.append({'sql': 'SELECT x, COUNT(*) FROM (%s) q GROUP BY x HAVING COUNT(*) > 1' % q, 'tag': 'having-above-limit'})
                        st.append({'sql': 'SELECT q.x, q.y, u.y FROM (%s) q JOIN t u ON q.x = u.x WHERE q.y = 1' % q, 'tag': 'join-above-limit'})
                        st.append({'sql': 'SELECT q.x, q.y, u.y FROM t u JOIN (%s) q ON q.x = u.x AND q.y = 2' % q, 'tag': 'join-condition-above-limit'})
                        st.append({'sql': 'SELECT x, y FROM t WHERE x IN (SELECT x FROM (%s) q WHERE y = 2)' % q, 'tag': 'in-subquery-above-limit'})
                        st.append({'sql': 'WITH q AS (%s) SELECT x, y FROM q WHERE y = 2' % q, 'tag': 'cte-filter-above-limit', 'nontrivial': True})
                        st.append({'sql': 'SELECT x, y FROM (%s) q WHERE y = 2 ORDER BY x DESC NULLS LAST LIMIT 1' % q, 'ref': 'SELECT x, y FROM (%s) q WHERE y = 2' % q,
                                   'order': [(0, True, False)], 'limit': 1, 'tag': 'limit-above-filter-above-limit', 'nontrivial': True})
                        st.append({'sql': 'SELECT x, y FROM (SELECT x, y FROM (%s) q WHERE y = 2) r WHERE x IS NOT NULL' % q, 'tag': 'two-filters-above-limit'})
                    st.append({'sql': 'SELECT x, y FROM (SELECT x, y FROM t ORDER BY x NULLS LAST, y OFFSET 1) q WHERE y = 1',
                               'ref': 'SELECT x, y FROM (SELECT x, y FROM t ORDER BY x NULLS LAST, y LIMIT -1 OFFSET 1) q WHERE y = 1', 'tag': 'filter-above-offset'})
                units.append({'db': db, 'stmts': st})
    # LIMIT / OFFSET windows against batch boundaries: 12 distinct rows in several batch layouts (and Parquet row groups), every LIMIT and OFFSET in 0..13.
    # Without ORDER BY any rows may come back, but exactly min(n, max(0, 12 - m)) distinct rows of the table; with ORDER BY the exact slice.
    rows12 = [[i, i % 3] for i in range(12)]
    win_layouts = [('b444', {'batches': [4, 4, 4]}), ('b57', {'batches': [5, 7]}), ('b1-11', {'batches': [1, 11]}), ('b3333', {'batches': [3, 3, 3, 3]}),
                   ('parquet-rg4', {'storage': 'parquet', 'rg': 4}), ('parquet-rg5', {'storage': 'parquet', 'rg': 5})]
    rng = range(0, 14) if not quick else (0, 1, 2, 3, 4, 5, 6, 7, 8, 11, 12, 13)
    for lname, kw in win_layouts:
        db = {'tables': [table('t', [['x', 'int64'], ['y', 'int64']], rows12, **kw)]}
        st = []
        for lim in rng:
            for off in rng:
                st.append({'sql': 'SELECT COUNT(*), COUNT(DISTINCT x), MIN(x) >= 0 AND MAX(x) <= 11 FROM (SELECT x FROM t LIMIT %d OFFSET %d) q' % (lim, off),
                           'expect_rows': [[min(lim, max(0, 12 - off))] * 2 + [None if min(lim, max(0, 12 - off)) == 0 else True]], 'tag': 'window-size|' + lname, 'nontrivial': True})
                st.append({'sql': 'SELECT x, y FROM t ORDER BY x LIMIT %d OFFSET %d' % (lim, off), 'ref': 'SELECT x, y FROM t', 'order': [(0, False, False)], 'limit': lim, 'offset': off,
                           'tag': 'window-ordered|' + lname, 'nontrivial': True})
        st.append({'sql': 'SELECT COUNT(*) FROM (SELECT x FROM t OFFSET 5) q', 'expect_rows': [[7]], 'tag': 'offset-only|' + lname})
        for c in range(0, len(st), 100):
            units.append({'db': db, 'stmts': st[c:c + 100]})
    rep.rule = ('all multisets of 1..%d rows over (x,y), x in %s x {NULL + 2 values}, y in {1,2} (ties and NULLs); ORDER BY x [, y] x ASC/DESC x {default, NULLS FIRST, NULLS LAST}; '
                'LIMIT in %s x OFFSET in %s; layouts: one batch, three batches, 1-byte memory limit (spilled sort); plus ordinal / alias / expression keys; plus every LIMIT x OFFSET window over a 12-row table in 4 batch layouts and 2 row-group layouts (size and membership without ORDER BY, exact slice with it); plus 4 LIMIT/OFFSET derived tables (and a CTE) under 7 outer filters, an aggregate, HAVING, joins, IN and a second LIMIT; '
                'oracle: output sorted under the stated keys (default NULLS LAST), LIMIT/OFFSET slice equal to the reference slice up to ties' % (maxrows, types, limits, offsets))
    sqldiff.run(rep, units)


def replay(payload):
    return sqldiff.replay(payload)
