"""C02 three-valued logic: all boolean trees up to a depth over a universal table."""
from vlib import sqldiff
from vlib.enumr import rotate
from .common import universal, table, chunks

LEVEL = 'exploration'

LEAVES = ["a = 1", "a <> 1", "a < b", "a IS NULL", "a IS NOT NULL", "a IN (1, 2)", "a IN (1, NULL)",
          "a NOT IN (1, NULL)", "a BETWEEN 1 AND b", "a NOT BETWEEN b AND 2", "s LIKE 'a%'", "s NOT LIKE '_b'",
          "s IN ('a', NULL)", "s NOT IN ('ab', NULL)", "s IN ('a', 'x')", "s = 'a'", "b IN (a, 2)",
          # BETWEEN whose two comparisons can be (FALSE, NULL): FALSE under Kleene AND, so NOT BETWEEN keeps the row
          "a BETWEEN b AND 1", "a NOT BETWEEN 2 AND b", "a BETWEEN NULL AND 1", "s NOT BETWEEN 'ab' AND NULL"]


def trees(depth):
    d1 = list(LEAVES)
    if depth == 1:
        return d1
    d2 = ['NOT (%s)' % x for x in d1]
    for op in ('AND', 'OR'):
        for x in d1:
            for y in d1:
                d2.append('(%s) %s (%s)' % (x, op, y))
    if depth == 2:
        return d1 + d2
    d3 = ['NOT (%s)' % x for x in d2]
    for op in ('AND', 'OR'):
        for x in d2:
            for y in d1:
                d3.append('(%s) %s (%s)' % (x, op, y))
                if not x.startswith('NOT'):
                    continue
        for x in d1:
            for y in d2:
                if y.startswith('NOT'):
                    d3.append('(%s) %s (%s)' % (x, op, y))
    return d1 + d2 + d3


SHARED_LEAVES = ["a = 1", "a < b", "a IS NULL", "a NOT IN (1, NULL)", "a BETWEEN 1 AND b", "s LIKE 'a%'", "s IN ('a', NULL)"]


def shared_shapes():
    """trees in which one sub-expression occurs in both branches: the shapes factoring / absorption rewrites fire on"""
    out = []
    L = SHARED_LEAVES
    for x in L:
        for y in L:
            if x == y:
                continue
            out += ['((%s) AND (%s)) OR (%s)' % (x, y, y), '(%s) OR ((%s) AND (%s))' % (y, x, y), '((%s) OR (%s)) AND (%s)' % (x, y, y),
                    '((%s) AND (%s)) OR ((%s) AND (%s))' % (x, y, x, y), 'NOT (((%s) AND (%s)) OR (%s))' % (x, y, y)]
            for z in L:
                if z in (x, y):
                    continue
                out += ['((%s) AND (%s)) OR ((%s) AND (%s))' % (x, y, y, z), '((%s) OR (%s)) AND ((%s) OR (%s))' % (x, y, y, z),
                        '(((%s) AND (%s)) OR (%s)) AND (%s)' % (x, y, y, z), '((%s) AND (%s) AND (%s)) OR (%s)' % (x, y, z, y),
                        '((%s) AND (%s)) OR ((%s) AND (%s)) OR (%s)' % (x, y, y, z, y)]
    return out


def const_exprs():
    lits = ['TRUE', 'FALSE', 'NULL']
    out = []
    for x in lits:
        out.append(x if x != 'NULL' else 'CAST(NULL AS BOOLEAN)')
        out.append('NOT (%s)' % x)
        for y in lits:
            for op in ('AND', 'OR'):
                out.append('(%s) %s (%s)' % (x, op, y))
                out.append('NOT ((%s) %s (%s))' % (x, op, y))
                for z in lits:
                    for op2 in ('AND', 'OR'):
                        out.append('((%s) %s (%s)) %s (%s)' % (x, op, y, op2, z))
    return out


def stmts_for(e, modes):
    out = []
    if 'where' in modes:
        out.append({'sql': 'SELECT id FROM t WHERE %s' % e, 'tag': 'where'})
    if 'value' in modes:
        out.append({'sql': 'SELECT id, (%s) AS v FROM t' % e, 'tag': 'value'})
    if 'having' in modes:
        out.append({'sql': 'SELECT id FROM t GROUP BY id, a, b, s HAVING %s' % e, 'tag': 'having'})
    if 'on' in modes:
        out.append({'sql': 'SELECT t.id, o.z FROM t LEFT JOIN o ON %s' % e, 'tag': 'on'})
    if 'case' in modes:
        out.append({'sql': 'SELECT id, CASE WHEN %s THEN 1 ELSE 0 END AS v FROM t' % e, 'tag': 'case'})
    return out


def run(rep):
    quick = rep.tier == 'quick'
    tr = trees(2 if quick else 3)
    tr = rotate(tr, rep.seed)
    doms = [[None, 1, 2], [None, 1, 2], [None, 'a', 'ab']]
    cols = [['a', 'int64'], ['b', 'int64'], ['s', 'utf8']]
    one = table('o', [['z', 'int64']], [[7]])
    dbs = [
        ('mem', {'tables': [universal('t', cols, doms), one]}),
        ('parquet', {'tables': [universal('t', cols, doms, storage='parquet', rg=4), one]}),
    ]
    modes_full = ['where', 'value', 'having', 'on', 'case']
    units = []
    for dbname, db in dbs:
        modes = modes_full if dbname == 'mem' else ['where', 'value']
        if not quick and dbname == 'mem':
            modes = modes_full
        st = []
        for i, e in enumerate(tr):
            # depth-3 trees: WHERE + value only (the other modes reuse the same evaluator)
            deep = i >= len(trees(2)) if not quick else False
            st.extend(stmts_for(e, ['where', 'value'] if deep else modes))
        for c in chunks(st, 150):
            units.append({'db': db, 'stmts': c})
    # shared sub-expressions (factoring / absorption rewrites), both layouts
    sh = []
    for e in shared_shapes():
        sh.append({'sql': 'SELECT id FROM t WHERE %s' % e, 'tag': 'shared-where'})
    for dbname, db in dbs:
        for c in chunks(sh, 150):
            units.append({'db': db, 'stmts': c})
    # constant-only variants (ConstantFolding path)
    cst = []
    for e in const_exprs():
        cst.append({'sql': 'SELECT z FROM o WHERE %s' % e, 'tag': 'const-where'})
        cst.append({'sql': 'SELECT id FROM t WHERE (%s) OR a = 1' % e, 'tag': 'const-mixed-or'})
        cst.append({'sql': 'SELECT id FROM t WHERE (%s) AND a = 1' % e, 'tag': 'const-mixed-and'})
        cst.append({'sql': 'SELECT id FROM t WHERE (a = 1) OR (%s)' % e, 'tag': 'const-mixed-or2'})
        cst.append({'sql': 'SELECT id FROM t WHERE NOT ((a = 1) AND (%s))' % e, 'tag': 'const-mixed-not'})
    for c in chunks(cst, 150):
        units.append({'db': dbs[0][1], 'stmts': c})
    configs = [{'name': 'compile-default', 'env': {}}, {'name': 'compile-off', 'env': {'QE_COMPILE': '0'}}]
    rep.rule = ('every boolean tree of depth <= %d over %d leaves (comparison, IS [NOT] NULL, [NOT] IN with NULL, [NOT] BETWEEN, '
                '[NOT] LIKE; AND/OR/NOT) evaluated over the 27-row universal table {NULL,1,2}^2 x {NULL,a,ab} in WHERE / value / HAVING / '
                'LEFT JOIN ON / CASE positions, memory and Parquet, QE_COMPILE default and 0; plus 10 shapes with a sub-expression shared between branches ((X AND Y) OR Y, (X AND Y) OR (Y AND Z), ...) over all ordered choices of 7 leaves; plus all TRUE/FALSE/NULL literal '
                'assignments of depth-2 shapes; oracle SQLite 3.40; non-trivial = reference answer non-empty' % (2 if quick else 3, len(LEAVES)))
    rep.extra['trees'] = len(tr)
    rep.assumptions = ['SQLite 3.40 implements Kleene logic for this alphabet (PRAGMA case_sensitive_like=ON)']
    sqldiff.run(rep, units, configs)


def replay(payload):
    return sqldiff.replay(payload)
