"""C36 scalar functions compute their documented (Trino) values - bounded-exhaustive enumeration against vlib/funcref.py."""
import datetime, hashlib, itertools, json, math, os, re, traceback
import multiprocessing as mp
from vlib import sqldiff, driver as drv
from vlib import funcref as FR
from vlib.report import known_ids

LEVEL = 'exploration'

NAN, INF = float('nan'), float('inf')
D, DT = datetime.date, datetime.datetime

# per-type argument domains (NULL is added to every one of them by the enumerator)
DOMAINS = {
    'int': [-2, -1, 0, 1, 2, 7, 2147483648, -9223372036854775807, 9223372036854775807],
    'dbl': [-1.5, -0.0, 0.0, 0.5, 2.0, 1e308, NAN, INF],
    'str': ['', 'a', 'Ab c', 'é', '日本', 'a,b', '%_', ' x '],
    'date': [D(1970, 1, 1), D(2024, 2, 29), D(2023, 12, 31), D(2024, 12, 30), D(2023, 1, 31), D(2024, 1, 30), D(2023, 3, 31), D(2023, 1, 29)],   # incl. month ends followed by a shorter month
    'ts': [DT(1970, 1, 1), DT(2024, 2, 29, 13, 45, 59, 123000), DT(1969, 12, 31, 23, 59, 59, 500000), DT(2024, 12, 30), DT(2023, 12, 31, 23, 59, 59, 999000)],
    'small': [-1, 0, 1, 2, 5],
    'pat': ['a', '^a.*', '(', '[b-', 'b|c'],
    'bool': [True, False],
}
# thorough tier: the same enumeration over wider domains (type minimum, more ties and denormals, astral / combining / cased non-ASCII characters)
EXTRA = {
    'int': [-9223372036854775808, 63, 255, -2147483649],
    'dbl': [-INF, 2.5, -2.5, 5e-324, 4503599627370495.5],
    'str': ['😀', 'e\u0301', 'aa', 'ÀÉ', '\t'],
    'date': [D(1969, 12, 31), D(2021, 1, 3), D(1900, 3, 1)],
    'ts': [DT(1900, 1, 1, 0, 0, 0, 1000)],
    'small': [3, -2147483648],
    'pat': ['.', 'é+'],
}
WIDE = False      # set per process by run() / _work()

COLTYPE = {'int': 'int64', 'small': 'int64', 'dbl': 'float64', 'str': 'utf8', 'pat': 'utf8', 'date': 'date32', 'ts': 'ts_us', 'bool': 'bool'}
SQLTYPE = {'int': 'BIGINT', 'small': 'BIGINT', 'dbl': 'DOUBLE', 'str': 'VARCHAR', 'pat': 'VARCHAR', 'date': 'DATE', 'ts': 'TIMESTAMP', 'bool': 'BOOLEAN'}
EPOCH = DT(1970, 1, 1)


def dom_of(a):
    """(type name, values incl. NULL first)"""
    if isinstance(a, FR.Dom):
        return a.typ, [None] + list(a.values)
    return a, [None] + DOMAINS[a] + (EXTRA.get(a, []) if WIDE else [])


def tuples_of(spec):
    doms = [dom_of(a) for a in spec.args]
    return [t for t, _ in doms], list(itertools.product(*[v for _, v in doms]))


def frepr(x):
    if x != x:
        return 'NaN'
    if x in (INF, -INF):
        return 'inf' if x > 0 else '-inf'
    return repr(float(x))


def cell(v, typ):
    """python value -> driver cell"""
    if v is None:
        return None
    if typ == 'dbl':
        return ['f', frepr(v)]
    if typ == 'date':
        return ['d', v.isoformat()]
    if typ == 'ts':
        delta = v - EPOCH
        return (delta.days * 86400 + delta.seconds) * 1000000 + delta.microseconds
    return v


def lit(v, typ, bare_null=False):
    """python value -> SQL literal"""
    if v is None:
        return 'NULL' if bare_null else 'CAST(NULL AS %s)' % SQLTYPE[typ]
    if typ == 'bool':
        return 'TRUE' if v else 'FALSE'
    if typ == 'dbl':
        if v != v:
            return 'NAN()'
        if v in (INF, -INF):
            return 'INFINITY()' if v > 0 else '-INFINITY()'
        if v == 0 and math.copysign(1.0, v) < 0:
            return '-0.0'
        r = repr(float(v))
        return r.replace('e+', 'e')
    if typ == 'date':
        return "DATE '%s'" % v.isoformat()
    if typ == 'ts':
        # the engine binds TIMESTAMP '...' as a quoted string (literal parsing, not a scalar function): use the CAST form
        return "CAST('%s' AS TIMESTAMP)" % v.strftime('%Y-%m-%d %H:%M:%S.%f')[:-3]
    if isinstance(v, str):
        return "'" + v.replace("'", "''") + "'"
    if v == -9223372036854775808:
        return '(-9223372036854775807 - 1)'
    return str(v)


def enc(v):
    """python value -> JSON-safe tagged form (payloads, evidence)"""
    if v is None or isinstance(v, (bool, str)):
        return v
    if isinstance(v, int):
        return v
    if isinstance(v, float):
        return ['f', frepr(v)]
    if isinstance(v, DT):
        return ['ts', v.isoformat()]
    if isinstance(v, D):
        return ['d', v.isoformat()]
    if isinstance(v, bytes):
        return ['bin', v.hex()]
    if isinstance(v, (list, tuple)):
        return ['list'] + [enc(x) for x in v]
    return ['?', repr(v)]


def dec(c):
    if isinstance(c, list):
        if c[0] == 'f':
            return {'NaN': NAN, 'inf': INF, '-inf': -INF}.get(c[1]) if c[1] in ('NaN', 'inf', '-inf') else float(c[1])
        if c[0] == 'ts':
            return DT.fromisoformat(c[1])
        if c[0] == 'd':
            return D.fromisoformat(c[1])
        if c[0] == 'bin':
            return bytes.fromhex(c[1])
        if c[0] == 'list':
            return [dec(x) for x in c[1:]]
    return c


class Other:
    """an engine cell of a type the comparison does not know"""
    def __init__(self, typ, text):
        self.typ, self.text = typ, text

    def __repr__(self):
        return 'Other(%s, %s)' % (self.typ, self.text)


def from_cell(c):
    """driver result cell -> python value"""
    if isinstance(c, list):
        if len(c) == 2 and c[0] == 'f':
            return {'NaN': NAN, 'inf': INF, '-inf': -INF}[c[1]] if c[1] in ('NaN', 'inf', '-inf') else float(c[1])
        if len(c) == 2 and c[0] == 'd':
            try:
                return D.fromisoformat(c[1])
            except ValueError:
                return Other('date32', c[1])
        if len(c) == 3 and c[0] == 'o':
            if c[1] in ('Binary', 'LargeBinary'):
                try:
                    return bytes.fromhex(c[2])
                except ValueError:
                    return Other(c[1], c[2])
            if c[1].startswith('Timestamp'):
                try:
                    return DT.fromisoformat(c[2][:26].rstrip('Z')).replace(tzinfo=None)
                except ValueError:
                    return Other(c[1], c[2])
            return Other(c[1], c[2])
        return [from_cell(x) for x in c]
    return c


def same(ref, eng, spec=None):
    """None if the engine value is the documented value, else a short reason"""
    if ref is None or eng is None:
        return None if (ref is None and eng is None) else ('NULL expected' if ref is None else 'NULL returned')
    if isinstance(ref, bool) or isinstance(eng, bool):
        return None if (isinstance(ref, bool) and isinstance(eng, bool) and ref == eng) else 'boolean differs'
    if isinstance(ref, float):
        if isinstance(eng, bool) or not isinstance(eng, (int, float)):
            return 'not a number'
        e = float(eng)
        if ref != ref:
            return None if e != e else 'NaN expected'
        if e != e:
            return 'NaN returned'
        if ref in (INF, -INF) or e in (INF, -INF):
            return None if ref == e else 'infinity differs'
        if ref == e:
            return None
        return None if abs(ref - e) <= 1e-12 * max(abs(ref), abs(e)) else 'double differs'
    if isinstance(ref, int):
        if isinstance(eng, int):
            return None if ref == eng else 'integer differs'
        if isinstance(eng, float):
            if eng != eng or eng in (INF, -INF) or eng != math.floor(eng):
                return 'integer differs'
            return None if int(eng) == ref else 'integer differs'
        return 'not a number'
    if isinstance(ref, str):
        return None if (isinstance(eng, str) and eng == ref) else 'string differs'
    if isinstance(ref, bytes):
        if isinstance(eng, bytes):
            return None if eng == ref else 'bytes differ'
        if isinstance(eng, str) and spec is not None and spec.binary_as_hex:
            return None if eng.lower() == ref.hex() else 'bytes differ'
        if isinstance(eng, int) and not isinstance(eng, bool) and spec is not None and spec.binary_as_hex and len(ref) == 8:
            return None if (eng & ((1 << 64) - 1)).to_bytes(8, 'big') == ref else 'bytes differ'      # xxhash64: the 8 bytes as a BIGINT
        return 'not binary'
    if isinstance(ref, DT):
        if isinstance(eng, DT):
            return None if eng == ref else 'timestamp differs'
        if isinstance(eng, D) and ref.time() == datetime.time(0):
            return None if eng == ref.date() else 'timestamp differs'
        return 'not a timestamp'
    if isinstance(ref, D):
        if isinstance(eng, DT):
            return None if (eng.time() == datetime.time(0) and eng.date() == ref) else 'date differs'
        return None if (isinstance(eng, D) and eng == ref) else 'date differs'
    if isinstance(ref, list):
        if not isinstance(eng, list) or len(eng) != len(ref):
            return 'array differs'
        for a, b in zip(ref, eng):
            if same(a, b, spec) is not None:
                return 'array differs'
        return None
    return 'unknown reference type'


# ----------------------------------------------------------------------------------------------------------------------------
# candidate findings: id -> description + predicate over one disagreement
#   case = {'key','func','mode','args' (python values),'eng': ('val',v)|('err',cls,msg)|('panic',msg), 'ref': ('val',v)|('error',), 'why'}
# ----------------------------------------------------------------------------------------------------------------------------

def _is_err(c):
    return c['eng'][0] == 'err'


def _is_panic(c):
    return c['eng'][0] == 'panic'


def _val(c):
    return c['eng'][1] if c['eng'][0] == 'val' else _NOVAL


def _refval(c):
    return c['ref'][1] if c['ref'][0] == 'val' else _NOVAL


_NOVAL = object()

CANDIDATE_FINDINGS = {}
_PRED = {}


def finding(fid, function, what, example, match):
    def deco(fn):
        CANDIDATE_FINDINGS[fid] = {'function': function, 'what': what, 'example': example, 'match': match}
        _PRED[fid] = fn
        return fn
    return deco


def classify(case):
    for fid, fn in _PRED.items():
        try:
            if fn(case):
                return fid
        except Exception:
            continue
    return None


# (the finding definitions are appended below the machinery, see FINDINGS section)

# ----------------------------------------------------------------------------------------------------------------------------
# evaluation
# ----------------------------------------------------------------------------------------------------------------------------

def outcome(r, pick=None):
    if r.get('ok'):
        return None
    if r.get('err') == 'Panic':
        return ('panic', (r.get('msg') or '')[:200])
    return ('err', r.get('err'), (r.get('msg') or '')[:200])


def call(d, sql, timeout=60):
    try:
        r = d.call({'op': 'sql', 'db': 'd', 'sql': sql}, timeout=timeout)
    except drv.DriverTimeout:
        return {'ok': False, 'err': 'Panic', 'msg': 'timeout: no reply within %ss' % timeout, 'dead': True}
    except drv.DriverDied as e:
        return {'ok': False, 'err': 'Panic', 'msg': 'driver process died: %s' % (e,), 'dead': True}
    if not r.get('ok') and r.get('err') == 'Driver':
        raise RuntimeError('driver protocol error: %r' % r)
    return r


def expr_sql(spec, parts):
    return spec.template().format(*parts)


def eval_col(d, spec, types, tuples, idxs):
    """column mode: yields (idx, engine outcome, sql). One statement for all rows; per-row statements if it fails."""
    n = len(types)
    cols = [['id', 'int64']] + [['c%d' % i, COLTYPE[t]] for i, t in enumerate(types)]
    rows = [[i] + [cell(v, t) for v, t in zip(tuples[i], types)] for i in idxs]
    db = {'tables': [{'name': 'u', 'cols': cols, 'rows': rows}]}
    sqldiff.reg_db(d, db)
    e = expr_sql(spec, ['c%d' % i for i in range(n)])
    sql = 'SELECT id, %s FROM u' % e
    r = call(d, sql)
    out = {}
    if r.get('ok') and len(r['rows']) == len(idxs):
        for row in r['rows']:
            out[row[0]] = (('val', from_cell(row[1])), sql)
        if set(out) == set(idxs):
            return out, 1
        out = {}
    if r.get('dead'):
        sqldiff.reg_db(d, db)
    stmts = 1
    for i in idxs:
        q = 'SELECT id, %s FROM u WHERE id = %d' % (e, i)
        r = call(d, q)
        stmts += 1
        if r.get('dead'):
            sqldiff.reg_db(d, db)
        if r.get('ok'):
            if len(r['rows']) == 1 and r['rows'][0][0] == i:
                out[i] = (('val', from_cell(r['rows'][0][1])), q)
            else:
                out[i] = (('err', 'RowCount', 'expected one row, got %d' % len(r['rows'])), q)
        else:
            out[i] = (outcome(r), q)
    return out, stmts


def eval_mix(d, spec, types, tuples, idxs):
    """mixed mode: argument `colarg` is a column of a table holding its distinct values, the other arguments are literals."""
    n, ca = len(types), spec.colarg
    _, vals = dom_of(spec.args[ca])
    rows = [[j, cell(v, types[ca])] for j, v in enumerate(vals)]
    db = {'tables': [{'name': 'u', 'cols': [['id', 'int64'], ['c', COLTYPE[types[ca]]]], 'rows': rows}]}
    sqldiff.reg_db(d, db)
    pos = {}
    for j, v in enumerate(vals):
        pos[json.dumps(enc(v))] = j
    groups = {}
    for i in idxs:
        t = tuples[i]
        k = tuple(json.dumps(enc(v)) for a, v in enumerate(t) if a != ca)
        groups.setdefault(k, []).append(i)
    out, stmts = {}, 0
    for k, members in groups.items():
        t0 = tuples[members[0]]
        parts = ['c' if a == ca else lit(t0[a], types[a]) for a in range(n)]
        e = expr_sql(spec, parts)
        sql = 'SELECT id, %s FROM u' % e
        r = call(d, sql)
        stmts += 1
        if r.get('dead'):
            sqldiff.reg_db(d, db)
        got = {}
        if r.get('ok') and len(r['rows']) == len(vals):
            got = {row[0]: from_cell(row[1]) for row in r['rows']}
        if r.get('ok') and len(got) == len(vals):
            for i in members:
                out[i] = (('val', got[pos[json.dumps(enc(tuples[i][ca]))]]), sql)
            continue
        for i in members:
            j = pos[json.dumps(enc(tuples[i][ca]))]
            q = 'SELECT id, %s FROM u WHERE id = %d' % (e, j)
            r = call(d, q)
            stmts += 1
            if r.get('dead'):
                sqldiff.reg_db(d, db)
            if r.get('ok'):
                if len(r['rows']) == 1:
                    out[i] = (('val', from_cell(r['rows'][0][1])), q)
                else:
                    out[i] = (('err', 'RowCount', 'expected one row, got %d' % len(r['rows'])), q)
            else:
                out[i] = (outcome(r), q)
    return out, stmts


def eval_lit(d, spec, types, tuples, idxs, bare_null=False):
    out = {}
    sqldiff.reg_db(d, {'tables': []})
    for i in idxs:
        parts = [lit(v, t, bare_null) for v, t in zip(tuples[i], types)]
        q = 'SELECT %s' % expr_sql(spec, parts)
        r = call(d, q)
        if r.get('ok'):
            if len(r['rows']) == 1 and len(r['rows'][0]) == 1:
                out[i] = (('val', from_cell(r['rows'][0][0])), q)
            else:
                out[i] = (('err', 'RowCount', 'expected one row, got %d' % len(r['rows'])), q)
        else:
            out[i] = (outcome(r), q)
    return out, len(idxs)


def judge(spec, args, eng):
    """-> (status, ref outcome, why).  status: agree | agree_error | unspecified | differ"""
    ref = spec.expected(args)
    if ref[0] == 'unspecified':
        return 'unspecified', ref, ref[1]
    if ref[0] == 'error':
        if eng[0] == 'err':
            return 'agree_error', ref, None
        if eng[0] == 'panic':
            return 'differ', ref, 'panic where an error is documented: ' + eng[1]
        return 'differ', ref, 'value %r where an error is documented' % (eng[1],)
    if eng[0] == 'panic':
        return 'differ', ref, 'panic: ' + eng[1]
    if eng[0] == 'err':
        return 'differ', ref, 'error %s (%s) where %r is documented' % (eng[1], eng[2][:80], ref[1])
    why = same(ref[1], eng[1], spec)
    if why is None:
        return 'agree', ref, None
    return 'differ', ref, '%s: engine %r, documented %r' % (why, eng[1], ref[1])


def _work(task):
    global WIDE
    key, mode, lo, hi, step, WIDE = task
    out = {'key': key, 'mode': mode, 'n': 0, 'stmts': 0, 'agree': 0, 'agree_error': 0, 'unspecified': 0, 'engine_errors': 0, 'panics': 0, 'expect_value': 0, 'numtype': 0,
           'differ': [], 'nontrivial': set(), 'samples': [], 'errors': [], 'errmsg': None}
    try:
        spec = FR.FUNCS[key]
        types, tuples = tuples_of(spec)
        idxs = list(range(lo, hi, step))
        if mode == 'litnull':
            idxs = [i for i in idxs if any(v is None for v in tuples[i])]
        if not idxs:
            return out
        d = sqldiff.get_driver({'name': 'c36', 'env': {}})
        if mode == 'col':
            res, st = eval_col(d, spec, types, tuples, idxs)
        elif mode == 'mix':
            res, st = eval_mix(d, spec, types, tuples, idxs)
        else:
            res, st = eval_lit(d, spec, types, tuples, idxs, bare_null=(mode == 'litnull'))
        out['stmts'] = st
        for i in idxs:
            eng, sql = res[i]
            args = tuples[i]
            status, ref, why = judge(spec, args, eng)
            out['n'] += 1
            if eng[0] == 'err':
                out['engine_errors'] += 1
                if out['errmsg'] is None:
                    out['errmsg'] = '%s: %s' % (eng[1], eng[2][:120])
            if eng[0] == 'panic':
                out['panics'] += 1
            if ref[0] == 'val':
                out['expect_value'] += 1
            if status == 'differ':
                out['differ'].append({'key': key, 'func': spec.func, 'mode': mode, 'idx': i, 'args': [enc(a) for a in args], 'eng': [eng[0]] + [enc(x) if eng[0] == 'val' else x for x in eng[1:]],
                                      'ref': [ref[0]] + [enc(x) for x in ref[1:]], 'why': why, 'sql': sql})
            else:
                out[status] += 1
                if status == 'agree':
                    if isinstance(ref[1], int) and not isinstance(ref[1], bool) and isinstance(eng[1], float):
                        out['numtype'] += 1
                    if ref[1] is not None:
                        out['nontrivial'].add(hashlib.sha1(('%s|%s|%d' % (key, mode, i)).encode()).digest()[:8])
                        if not out['samples'] and ref[1] not in ('', 0, False):
                            out['samples'].append({'sql': sql, 'mode': mode, 'args': [enc(a) for a in args], 'engine': enc(eng[1]), 'documented': enc(ref[1])})
    except Exception:
        out['errors'].append('%s %s: %s' % (key, mode, traceback.format_exc()))
    return out


def case_of(rec):
    c = dict(rec)
    c['args'] = [dec(a) for a in rec['args']]
    e = rec['eng']
    c['eng'] = ('val', dec(e[1])) if e[0] == 'val' else tuple(e)
    r = rec['ref']
    c['ref'] = ('val', dec(r[1])) if r[0] == 'val' else (r[0],)
    return c


def run(rep):
    global WIDE
    quick = rep.tier == 'quick'
    WIDE = not quick
    tasks = []
    total = {}
    for key, spec in FR.FUNCS.items():
        types, tuples = tuples_of(spec)
        n = len(tuples)
        total[key] = n
        tasks.append((key, 'col', 0, n, 1, WIDE))       # one table / one statement per signature: the first row is always the all-NULL tuple
        if len(types) >= 2:
            tasks.append((key, 'mix', 0, n, 1, WIDE))
        if spec.literal_ok:
            for lo in range(0, n, 300):
                tasks.append((key, 'lit', lo, min(n, lo + 300), 1, WIDE))
                if len(types) >= 1:
                    tasks.append((key, 'litnull', lo, min(n, lo + 300), 1, WIDE))
    tasks.sort(key=lambda t: -(t[3] - t[2]) * (3 if t[1] in ('lit', 'litnull') else 1))       # longest first
    funcs = sorted(set(s.func for s in FR.FUNCS.values()))

    def dom(t):
        return dom_of(t)[1][1:]
    rep.rule = ('%d SQL functions / %d signatures (vlib/funcref.py); for each signature EVERY tuple of the cartesian product of its argument domains '
                '(NULL + BIGINT %s; DOUBLE %s; VARCHAR %s; DATE %s; TIMESTAMP %s; small ints %s; regex patterns %s; booleans; or the explicit per-argument value lists of funcref.Dom for '
                'positions, radixes, hex/base64/URL/JSON texts, shifts, units as part of the SQL template)%s, %d tuples in total, each evaluated (a) with all arguments as columns of a memory table holding one row per tuple '
                '(one statement per signature; one statement per row if that statement fails), (b) with one argument as a column and the others as literals (constant-argument fast paths), '
                '(c) with all arguments as literals, NULL as CAST(NULL AS type) (constant folding) and (d) as (c) with a bare untyped NULL for the NULL arguments - no sampling in either tier; '
                'oracle: the Python reference of the Trino documentation: exact for integers/strings/booleans/dates/timestamps/bytes/arrays, '
                'relative 1e-12 for doubles (NaN = NaN, the sign of zero ignored, an integer-valued double accepted for a documented integer and counted), NULL exactly; an engine error is accepted only where the '
                'documentation prescribes an error, a panic never; tuples the documentation does not pin down are skipped and counted (unspecified_skipped); a VARCHAR argument stands for its UTF-8 bytes where Trino '
                'takes VARBINARY, hash functions may return lower-case hex text (xxhash64: a BIGINT) for VARBINARY; a signature/mode in which EVERY call is refused with an explicit error is reported as unsupported '
                '(extra.refused_signatures), not as a wrong value'
                % (len(funcs), len(FR.FUNCS), dom('int'), [frepr(x) for x in dom('dbl')], dom('str'), [x.isoformat() for x in dom('date')], [x.isoformat() for x in dom('ts')],
                   dom('small'), dom('pat'), ' [thorough tier: the wider type domains of EXTRA]' if WIDE else '', sum(total.values())))
    agg = {}      # (key, mode) -> counters
    differ = []
    with mp.Pool(min(14, os.cpu_count() or 4), initializer=sqldiff._init) as pool:
        for out in pool.imap_unordered(_work, tasks, chunksize=1):
            for e in out['errors']:
                rep.machinery(e)
            a = agg.setdefault((out['key'], out['mode']), {'n': 0, 'stmts': 0, 'agree': 0, 'agree_error': 0, 'unspecified': 0, 'engine_errors': 0, 'panics': 0, 'expect_value': 0, 'numtype': 0, 'errmsg': None})
            for k in ('n', 'stmts', 'agree', 'agree_error', 'unspecified', 'engine_errors', 'panics', 'expect_value', 'numtype'):
                a[k] += out[k]
            a['errmsg'] = a['errmsg'] or out['errmsg']
            rep.nontrivial |= out['nontrivial']
            for s in out['samples']:
                rep.add_sample(s)
            differ.extend(out['differ'])
    known = set(known_ids(rep.prop))
    refused = {}
    per = {}
    for (key, mode), a in sorted(agg.items()):
        f = FR.FUNCS[key].func
        p = per.setdefault(f, {'signatures': set(), 'evaluations': 0, 'agree': 0, 'agree_both_error': 0, 'unspecified_skipped': 0, 'violations': 0, 'candidate': 0, 'refused_signature': 0})
        p['signatures'].add(key)
        p['evaluations'] += a['n']
        p['agree'] += a['agree']
        p['agree_both_error'] += a['agree_error']
        p['unspecified_skipped'] += a['unspecified']
        if a['numtype']:
            p['integer_returned_as_double'] = p.get('integer_returned_as_double', 0) + a['numtype']
        rep.evaluations += a['n']
        rep.count('agree', a['agree'])
        rep.count('agree_both_error', a['agree_error'])
        rep.count('unspecified_skipped', a['unspecified'])
        rep.count('statements', a['stmts'])
        if mode != 'litnull' and a['n'] > 0 and a['expect_value'] > 0 and a['engine_errors'] == a['n'] and a['panics'] == 0:
            refused[(key, mode)] = a['errmsg']
    vio_kept = {}
    cand_counts = {}
    cand_funcs = {}
    dropped = 0
    for rec in differ:
        key, mode = rec['key'], rec['mode']
        p = per[rec['func']]
        if (key, mode) in refused or (mode == 'litnull' and (key, 'lit') in refused):
            p['refused_signature'] += 1
            rep.count('refused_signature')
            continue
        case = case_of(rec)
        fid = classify(case)
        payload = {'property': rep.prop, 'kind': 'scalar', 'key': key, 'func': rec['func'], 'mode': mode, 'args': rec['args'], 'sql': rec['sql'], 'engine': rec['eng'], 'documented': rec['ref'],
                   'why': '%s [%s] %s' % (key, mode, rec['why']), 'candidate': fid}
        if fid is not None:
            rep.count('candidate:' + fid)
            cand_counts[fid] = cand_counts.get(fid, 0) + 1
            bf = cand_funcs.setdefault(fid, {})
            bf[rec['func']] = bf.get(rec['func'], 0) + 1
            p['candidate'] += 1
            if fid in known:
                rep.known_hit(fid, {'sql': rec['sql'], 'mode': mode, 'engine': rec['eng'], 'documented': rec['ref']})
                continue
            payload['why'] = 'candidate %s: %s' % (fid, payload['why'])
            k = 'cand:' + fid
        else:
            k = key
            rep.count('unclassified_disagreement')
        rep.count('violation')
        p['violations'] += 1
        vio_kept[k] = vio_kept.get(k, 0) + 1
        if vio_kept[k] <= 2:
            rep.violation(payload)
        else:
            dropped += 1
    if dropped:
        rep.extra['violations_counted_without_a_replay_file'] = dropped      # counts['violation'] is the full number
    for f in per.values():
        f['signatures'] = sorted(f['signatures'])
    rep.extra['per_function'] = per
    rep.extra['uncovered'] = [{'functions': k, 'reason': v} for k, v in FR.UNCOVERED.items()]
    rep.extra['refused_signatures'] = {'%s [%s]' % km: msg for km, msg in sorted(refused.items())}
    rep.extra['candidate_findings'] = {fid: dict(CANDIDATE_FINDINGS[fid], hits=cand_counts.get(fid, 0), by_function=cand_funcs.get(fid, {}), listed=(fid in known)) for fid in CANDIDATE_FINDINGS}
    rep.extra['functions_covered'] = len(funcs)
    rep.extra['signatures_covered'] = len(FR.FUNCS)
    rep.extra['notes'] = {k: s.note for k, s in FR.FUNCS.items() if s.note}


def replay(payload):
    spec = FR.FUNCS[payload['key']]
    types, _ = tuples_of(spec)
    args = [dec(a) for a in payload['args']]
    d = drv.Driver(env={})
    try:
        mode = payload['mode']
        tuples = [tuple(args)]
        if mode == 'col':
            res, _ = eval_col(d, spec, types, tuples, [0])
        elif mode == 'mix':
            # single value of the column argument
            ca = spec.colarg
            db = {'tables': [{'name': 'u', 'cols': [['id', 'int64'], ['c', COLTYPE[types[ca]]]], 'rows': [[0, cell(args[ca], types[ca])]]}]}
            sqldiff.reg_db(d, db)
            parts = ['c' if a == ca else lit(args[a], types[a]) for a in range(len(types))]
            q = 'SELECT id, %s FROM u' % expr_sql(spec, parts)
            r = call(d, q)
            res = {0: ((('val', from_cell(r['rows'][0][1])) if r.get('ok') and r['rows'] else outcome(r) or ('err', 'RowCount', 'no row')), q)}
        else:
            res, _ = eval_lit(d, spec, types, tuples, [0], bare_null=(mode == 'litnull'))
        eng, sql = res[0]
        status, ref, why = judge(spec, tuple(args), eng)
        print('signature:', payload['key'], 'mode:', mode)
        print('sql:', sql)
        print('arguments:', payload['args'])
        print('engine:', eng)
        print('documented:', ref)
        print('status:', status, why or '')
        if status == 'differ':
            print('candidate finding:', classify({'key': payload['key'], 'func': spec.func, 'mode': mode, 'args': args, 'eng': eng, 'ref': ref, 'why': why}))
        return 1 if status == 'differ' else 0
    finally:
        d.close()


# ----------------------------------------------------------------------------------------------------------------------------
# FINDINGS (candidates; reported as KNOWN-FINDING only when listed in known_findings.json for C36, otherwise as violations)
# ----------------------------------------------------------------------------------------------------------------------------

def _msg(c):
    return ' '.join(str(x) for x in c['eng'][1:]) if c['eng'][0] in ('err', 'panic') else ''


def _spec(c):
    return FR.FUNCS[c['key']]


def _null_in(c):
    return any(a is None for a in c['args'])


def _doc_null_by_propagation(c):
    return _spec(c).null == 'propagate' and _null_in(c) and c['ref'] == ('val', None)


def _eq(a, b):
    """engine value a equals model value b (same comparison as the oracle, no binary leniency)"""
    return same(b, a) is None


def _u8len(s):
    return len(s.encode('utf-8'))


# ---- math -------------------------------------------------------------------------------------------------------------------

@finding('abs_min_bigint_panics', 'ABS', 'ABS of the smallest BIGINT panics (attempt to negate with overflow) instead of raising an out-of-range error', 'SELECT ABS(c) for c = -9223372036854775808 panicked; Trino raises NUMERIC_VALUE_OUT_OF_RANGE',
         'ABS/int, x = -2^63, panic "negate with overflow" (thorough tier domain)')
def _f_abs_min(c):
    return c['key'] == 'ABS/int' and c['args'][0] == -(1 << 63) and _is_panic(c) and 'negate with overflow' in _msg(c)


@finding('round_integer_negative_decimals_ignored', 'ROUND', 'ROUND(bigint, d) with negative d returns the integer unchanged instead of rounding to tens/hundreds',
         'SELECT ROUND(7, -1) returned 7, Trino documents 10 (x rounded to d decimal places, d may be negative)', 'ROUND/int,small, d < 0, engine value == x')
def _f_round_int(c):
    return c['key'] == 'ROUND/int,small' and not _null_in(c) and c['args'][1] < 0 and _val(c) == c['args'][0]


@finding('round_infinity_with_vanishing_scale_nan', 'ROUND', 'ROUND(+-infinity, d) with d so negative that 10^d underflows to 0 computes inf * 0 = NaN instead of returning the infinity',
         'SELECT ROUND(INFINITY(), -2147483648) returned NaN, Trino returns Infinity (non-finite arguments are returned unchanged)', 'ROUND/dbl,small, x infinite, d < -300, engine NaN (thorough tier domain)')
def _f_round_inf(c):
    a = c['args']
    return c['key'] == 'ROUND/dbl,small' and not _null_in(c) and FR.isinf(a[0]) and a[1] < -300 and FR.isnan(_val(c))


@finding('truncate_second_argument_ignored', 'TRUNCATE', 'TRUNCATE(x, n) ignores n and truncates to an integer', 'SELECT TRUNCATE(0.5, 1) returned 0.0, Trino documents 0.5',
         'TRUNCATE|TRUNC/dbl,small, engine value == trunc(x)')
def _f_trunc_n(c):
    return c['key'] in ('TRUNCATE/dbl,small', 'TRUNC/dbl,small') and c['args'][0] is not None and c['eng'][0] == 'val' and _eq(_val(c), FR._trunc_d(c['args'][0])) and c['args'][1] is not None


@finding('sign_nan_returns_zero', 'SIGN', 'SIGN(NaN) returns 0 (and SIGN of a double is an INTEGER) instead of NaN', 'SELECT SIGN(NAN()) returned 0, Trino documents NaN', 'SIGN/dbl, x is NaN, engine value == 0')
def _f_sign_nan(c):
    return c['key'] == 'SIGN/dbl' and FR.isnan(c['args'][0]) and _val(c) == 0


@finding('to_base_only_radix_2_8_16', 'TO_BASE', 'TO_BASE supports only radix 2, 8 and 16: every other radix (valid or not) yields the decimal text, no error for a radix outside 2..36',
         "SELECT TO_BASE(7, 36) returned '7' (ok by accident), TO_BASE(2147483648, 36) returned '2147483648', Trino documents 'zik0zk'; TO_BASE(7, 1) returned '7', Trino raises an error",
         'TO_BASE, radix not in {2,8,16}, engine value == str(x)')
def _f_to_base_dec(c):
    return c['key'] == 'TO_BASE' and not _null_in(c) and c['mode'] != 'col' and c['args'][1] not in (2, 8, 16) and _val(c) == str(c['args'][0])


@finding('to_base_negative_twos_complement', 'TO_BASE', "a negative number in radix 2/8/16 is printed as its 64-bit two's complement instead of '-' followed by the magnitude",
         "SELECT TO_BASE(-2, 16) returned 'fffffffffffffffe', Trino documents '-2'", "TO_BASE, x < 0, radix in {2,8,16}, engine value == format(x mod 2^64)")
def _f_to_base_neg(c):
    a = c['args']
    return c['key'] == 'TO_BASE' and not _null_in(c) and a[0] < 0 and a[1] in (2, 8, 16) and _val(c) == format(a[0] & ((1 << 64) - 1), {2: 'b', 8: 'o', 16: 'x'}[a[1]])


@finding('from_base_bad_radix_panics', 'FROM_BASE', 'a radix outside 2..36 (including the NULL radix, read as 0) panics inside i64::from_str_radix instead of raising an error / returning NULL',
         "SELECT FROM_BASE('0', 37) panicked: from_ascii_radix: radix must lie in the range `[2, 36]`", 'FROM_BASE, panic message mentions the radix range')
def _f_from_base_panic(c):
    return c['key'] == 'FROM_BASE' and _is_panic(c) and 'radix must lie' in _msg(c)


@finding('width_bucket_descending_bounds', 'WIDTH_BUCKET', 'WIDTH_BUCKET with bound1 > bound2 (descending histogram) is evaluated with the ascending formula',
         'SELECT WIDTH_BUCKET(-1.5, 10.0, 0.0, 5) returned 0, Trino documents 6', 'WIDTH_BUCKET, bound1 > bound2, engine value == ascending formula')
def _f_wb_desc(c):
    a = c['args']
    if c['key'] != 'WIDTH_BUCKET' or _null_in(c) or c['mode'] == 'col' or not a[1] > a[2] or c['eng'][0] != 'val':
        return False
    n = a[3]
    x, lo, hi = a[0], a[1], a[2]
    if x != x:
        return False
    try:
        m = 0 if x < lo else (n + 1 if x >= hi else int(math.floor((x - lo) / (hi - lo) * n)) + 1)
    except (OverflowError, ValueError, ZeroDivisionError):
        return False
    return _val(c) == m


@finding('normal_cdf_low_precision', 'NORMAL_CDF', 'NORMAL_CDF is accurate to about 1e-11 absolute only (relative error up to 1e-6 in the tails)',
         'SELECT NORMAL_CDF(2.0, 0.5, -1.5) returned 1.2798125439170204e-12, the exact value is 1.2798095916366492e-12', 'NORMAL_CDF, |engine - exact| <= 1e-10')
def _f_ncdf(c):
    v, r = _val(c), _refval(c)
    return c['key'] == 'NORMAL_CDF' and isinstance(v, float) and isinstance(r, float) and abs(v - r) <= 1e-10


# ---- strings ----------------------------------------------------------------------------------------------------------------

@finding('length_in_bytes', 'LENGTH', 'LENGTH / CHAR_LENGTH / CHARACTER_LENGTH count UTF-8 bytes, not characters', "SELECT LENGTH('日本') returned 6, Trino documents 2",
         'LENGTH family, engine value == number of UTF-8 bytes')
def _f_length(c):
    return c['func'] in ('LENGTH', 'CHAR_LENGTH', 'CHARACTER_LENGTH') and c['args'][0] is not None and _val(c) == _u8len(c['args'][0])


@finding('strpos_byte_offset', 'STRPOS/POSITION', 'STRPOS / POSITION return the byte offset of the match, not the character position', "SELECT STRPOS('日本', '本') returned 4, Trino documents 2",
         'STRPOS|POSITION, engine value == UTF-8 byte offset + 1')
def _f_strpos(c):
    if c['key'] not in ('STRPOS', 'POSITION') or _null_in(c):
        return False
    s, sub = (c['args'][0], c['args'][1]) if c['key'] == 'STRPOS' else (c['args'][1], c['args'][0])
    return _val(c) == s.encode('utf-8').find(sub.encode('utf-8')) + 1


def _hamming_model(a, b):
    if _u8len(a) != _u8len(b):
        return None
    return sum(1 for x, y in zip(a, b) if x != y)


@finding('hamming_distance_compares_byte_lengths', 'HAMMING_DISTANCE', 'the equal-length check compares byte lengths (and yields NULL, not an error): equal-length strings with different byte lengths give NULL, '
         'different-length strings with equal byte lengths give a number', "SELECT HAMMING_DISTANCE('a', 'é') returned NULL, Trino documents 1; HAMMING_DISTANCE('é', '%_') returned 1, Trino raises an error",
         'HAMMING_DISTANCE, strings whose character and byte lengths disagree, engine value == byte-length model')
def _f_hamming(c):
    if c['key'] != 'HAMMING_DISTANCE' or _null_in(c) or c['eng'][0] != 'val':
        return False
    a, b = c['args']
    if (len(a) == len(b)) == (_u8len(a) == _u8len(b)):
        return False
    return _val(c) == _hamming_model(a, b)


def _substr_model(s, start, length=None):
    """the engine's row loop: start cast to usize (negative -> skips everything), start 0 treated as 1, negative length -> unbounded"""
    if start < 0:
        return ''
    b = max(start - 1, 0)
    if length is None or length < 0:
        return s[b:]
    return s[b:b + length]


@finding('substr_nonpositive_start_or_negative_length', 'SUBSTR/SUBSTRING', 'a negative start does not count from the end of the string (result is empty), start 0 is treated as 1 (Trino: empty string), '
         'and a negative length returns the rest of the string (Trino: empty string)', "SELECT SUBSTR('Ab c', -2) returned '', Trino documents ' c'; SUBSTR('a', 0) returned 'a', Trino documents ''",
         'SUBSTR|SUBSTRING (2 or 3 args), start <= 0 or length < 0, engine value == model of the usize casts')
def _f_substr(c):
    if c['func'] not in ('SUBSTR', 'SUBSTRING') or _null_in(c) or c['eng'][0] != 'val':
        return False
    a = c['args']
    if not (a[1] <= 0 or (len(a) > 2 and a[2] < 0)):
        return False
    return _val(c) == _substr_model(*a)


@finding('lpad_rpad_negative_size_panics', 'LPAD/RPAD', 'a negative size is cast to usize and the padding allocation panics (capacity overflow)', "SELECT LPAD('a', -1, '*') panicked: capacity overflow; Trino raises an error",
         'LPAD|RPAD, size < 0, panic "capacity overflow"')
def _f_pad_panic(c):
    return c['func'] in ('LPAD', 'RPAD') and c['args'][1] is not None and c['args'][1] < 0 and _is_panic(c) and 'capacity overflow' in _msg(c)


@finding('split_part_out_of_range_empty_string', 'SPLIT_PART', 'an index beyond the number of fields returns the empty string instead of NULL', "SELECT SPLIT_PART('a,b', ',', 3) returned '', Trino documents NULL",
         'SPLIT_PART, documented NULL for index > fields, engine value == empty string')
def _f_split_part(c):
    return c['key'] == 'SPLIT_PART' and not _null_in(c) and c['args'][2] > 0 and c['ref'] == ('val', None) and _val(c) == ''


def _translate_model(src, frm, to):
    out = []
    for ch in src:
        i = frm.find(ch)
        out.append(to[i] if 0 <= i < len(to) else ch)
    return ''.join(out)


@finding('translate_does_not_delete', 'TRANSLATE', 'a character of `from` with no counterpart in `to` is kept instead of being removed', "SELECT TRANSLATE('Ab c', 'b 本', 'X') returned 'AX c', Trino documents 'AXc'",
         'TRANSLATE, engine value == model that keeps unmatched characters')
def _f_translate(c):
    return c['key'] == 'TRANSLATE' and not _null_in(c) and _val(c) == _translate_model(*c['args'])


def _soundex_model(s):
    u = s.upper()
    out, prev = u[0], FR._SDX.get(u[0], '0')
    for ch in u[1:]:
        code = FR._SDX.get(ch, '0')
        if code != '0' and code != prev:
            out += code
            if len(out) >= 4:
                break
        if code != '0':
            prev = code
    return (out + '000')[:4]


@finding('soundex_vowels_do_not_separate', 'SOUNDEX', 'two letters with the same code separated by a vowel are coded once (the previous code survives vowels), and the code of the first letter is not compared',
         "SELECT SOUNDEX('Tymczak') returned 'T520', the Soundex algorithm gives 'T522'; SOUNDEX('Honeyman') returned 'H500' (H555)", 'SOUNDEX, engine value == model in which vowels do not reset the previous code')
def _f_soundex(c):
    return c['key'] == 'SOUNDEX' and c['args'][0] and _val(c) == _soundex_model(c['args'][0])


@finding('array_results_as_joined_string', 'SPLIT/REGEXP_SPLIT/REGEXP_EXTRACT_ALL', 'functions documented to return ARRAY(varchar) return one VARCHAR with the elements joined by commas (an empty array and an array holding one empty string are both the empty string)',
         "SELECT SPLIT('a,b', ',') returned the string 'a,b', Trino documents ARRAY['a','b']", 'array-valued function, engine value is the comma-join of the documented elements')
def _f_array_join(c):
    r = _refval(c)
    return c['func'] in ('SPLIT', 'REGEXP_SPLIT', 'REGEXP_EXTRACT_ALL') and isinstance(r, list) and _val(c) == ','.join(x if x is not None else '' for x in r)


@finding('from_utf8_invalid_returns_null', 'FROM_UTF8', 'invalid UTF-8 input yields NULL instead of a string with U+FFFD replacement characters', "SELECT FROM_UTF8(FROM_HEX('61FF62')) returned NULL, Trino documents 'a�b'",
         'FROM_UTF8/hex, documented value contains U+FFFD, engine NULL')
def _f_from_utf8(c):
    r = _refval(c)
    return c['func'] == 'FROM_UTF8' and isinstance(r, str) and '�' in r and c['eng'] == ('val', None)


# ---- conditional / regex ----------------------------------------------------------------------------------------------------

@finding('nullif_distinguishes_negative_zero', 'NULLIF', 'NULLIF(-0.0, 0.0) returns its first argument: the two zeros are compared as different values', 'SELECT NULLIF(-0.0, 0.0) returned -0.0, Trino documents NULL (-0.0 = 0.0)',
         'NULLIF/dbl, both arguments zero, engine value == first argument')
def _f_nullif_zero(c):
    a = c['args']
    return c['key'] == 'NULLIF/dbl' and not _null_in(c) and a[0] == 0 and a[1] == 0 and c['eng'][0] == 'val' and _val(c) is not None and _val(c) == 0


@finding('regexp_position_no_match_null', 'REGEXP_POSITION', 'no match yields NULL instead of -1', "SELECT REGEXP_POSITION('a', 'b|c') returned NULL, Trino documents -1", 'REGEXP_POSITION, documented -1, engine NULL')
def _f_rpos_null(c):
    return c['func'] == 'REGEXP_POSITION' and c['ref'] == ('val', -1) and c['eng'] == ('val', None)


@finding('regexp_position_start_ignored', 'REGEXP_POSITION', 'the start argument is ignored: the position of the first match in the whole string is returned', "SELECT REGEXP_POSITION('a,b', 'a', 2) returned 1, Trino documents -1",
         'REGEXP_POSITION/3, engine value == position (or NULL) computed without start')
def _f_rpos_start(c):
    if c['key'] != 'REGEXP_POSITION/3' or _null_in(c) or c['eng'][0] != 'val':
        return False
    s, p, st = c['args']
    try:
        m = re.compile(p).search(s)
    except re.error:
        return False
    return st > 1 and _val(c) == (m.start() + 1 if m else None)


@finding('regexp_replace_backslash_dollar', 'REGEXP_REPLACE', "the documented escape \\$ for a literal dollar sign in the replacement is not understood (Rust regex replacement syntax): the backslash is copied",
         "SELECT REGEXP_REPLACE('a', 'a', '\\$') returned '\\$', Trino documents '$'", "REGEXP_REPLACE/3, replacement '\\$', engine value == replacement copied verbatim for every match")
def _f_rrepl(c):
    if c['key'] != 'REGEXP_REPLACE/3' or _null_in(c) or c['args'][2] != '\\$' or c['eng'][0] != 'val':
        return False
    try:
        return _val(c) == re.compile(c['args'][1]).sub(lambda m: '\\$', c['args'][0])
    except re.error:
        return False


# ---- encoding / bitwise / URL -----------------------------------------------------------------------------------------------

@finding('crc32_negative_int32', 'CRC32', 'CRC32 is returned as a signed 32-bit integer: checksums above 2^31 come out negative', "SELECT CRC32('a') returned -390611389, Trino documents 3904355907 (bigint)",
         'CRC32, engine value == documented value - 2^32')
def _f_crc32(c):
    r = _refval(c)
    return c['key'] == 'CRC32' and isinstance(r, int) and _val(c) == r - (1 << 32)


@finding('to_hex_lowercase', 'TO_HEX', 'TO_HEX prints lower-case digits', "SELECT TO_HEX(TO_UTF8('é')) returned 'c3a9', Trino documents 'C3A9'", 'TO_HEX, engine value == documented value lower-cased')
def _f_to_hex(c):
    r = _refval(c)
    return c['key'] == 'TO_HEX' and isinstance(r, str) and _val(c) == r.lower() and r != r.lower()


@finding('hmac_arguments_swapped', 'HMAC_MD5/SHA1/SHA256/SHA512', 'the first argument is used as the key and the second as the message; Trino documents hmac_*(binary, key)',
         "SELECT HMAC_SHA256('', 'key') returned 052b9167..., Trino documents 5d5d1395... (= HMAC with key 'key' of the empty message)", 'HMAC_*, engine value == HMAC(key = first argument, message = second argument)')
def _f_hmac(c):
    if not c['func'].startswith('HMAC_') or _null_in(c) or not isinstance(_val(c), str):
        return False
    import hmac as _h
    alg = c['func'][5:].lower()
    return _val(c).lower() == _h.new(c['args'][0].encode(), c['args'][1].encode(), alg).hexdigest()


@finding('bit_count_bits_ignored', 'BIT_COUNT', 'the bits argument is ignored (always 64 bits, no range check)', 'SELECT BIT_COUNT(-1, 8) returned 64, Trino documents 8; BIT_COUNT(7, 2) returned 3, Trino raises an error',
         'BIT_COUNT/2, engine value == popcount of the 64-bit value')
def _f_bit_count(c):
    return c['key'] == 'BIT_COUNT/2' and c['args'][0] is not None and c['args'][1] is not None and _val(c) == bin(c['args'][0] & ((1 << 64) - 1)).count('1')


@finding('bitwise_shift_ge_64_panics', 'BITWISE_LEFT_SHIFT/RIGHT_SHIFT/RIGHT_SHIFT_ARITHMETIC', 'a shift count >= 64 panics (attempt to shift with overflow) instead of returning 0 / the sign fill',
         'SELECT BITWISE_LEFT_SHIFT(1, 64) panicked: attempt to shift left with overflow; Trino documents 0', 'shift functions, shift >= 64, panic "shift ... with overflow"')
def _f_shift(c):
    return c['func'].startswith('BITWISE_') and 'SHIFT' in c['func'] and not _null_in(c) and c['args'][1] >= 64 and _is_panic(c) and 'with overflow' in _msg(c)


def _url_encode_model(s):
    return ''.join(chr(b) if (chr(b).isascii() and chr(b).isalnum()) else '%%%02X' % b for b in s.encode('utf-8'))


@finding('url_encode_not_form_encoding', 'URL_ENCODE', 'every non-alphanumeric byte is percent-encoded: a space becomes %20 (documented +) and . - * _ are encoded (documented: kept)',
         "SELECT URL_ENCODE('Ab c') returned 'Ab%20c', Trino documents 'Ab+c'", 'URL_ENCODE, engine value == percent-encoding of every non-alphanumeric byte')
def _f_url_encode(c):
    return c['key'] == 'URL_ENCODE' and c['args'][0] is not None and _val(c) == _url_encode_model(c['args'][0])


@finding('url_decode_plus_not_space', 'URL_DECODE', "'+' is not decoded to a space", "SELECT URL_DECODE('Ab+c') returned 'Ab+c', Trino documents 'Ab c'", "URL_DECODE, argument contains '+', engine value == documented value with the spaces from '+' left as '+'")
def _f_url_decode(c):
    a = c['args'][0]
    if c['key'] != 'URL_DECODE' or a is None or '+' not in a or c['eng'][0] != 'val':
        return False
    try:
        return _val(c) == FR._url_decode(a.replace('+', '%2B'))
    except Exception:
        return False


@finding('url_extract_port_default_port_null', 'URL_EXTRACT_PORT', "an explicit port equal to the scheme's default port (80, 443, 21) is reported as NULL", "SELECT URL_EXTRACT_PORT('https://example.com:443/x') returned NULL, Trino documents 443",
         'URL_EXTRACT_PORT, documented port is the default of the scheme, engine NULL')
def _f_url_port(c):
    a = c['args'][0]
    return c['key'] == 'URL_EXTRACT_PORT' and a is not None and c['eng'] == ('val', None) and (a.split(':')[0].lower(), _refval(c)) in (('http', 80), ('https', 443), ('ftp', 21))


# ---- date / time ------------------------------------------------------------------------------------------------------------

@finding('date_diff_month_year_ignores_day', 'DATE_DIFF', "DATE_DIFF('month'|'year', a, b) subtracts the calendar fields and ignores the day of month / time of day: incomplete months and years are counted",
         "SELECT DATE_DIFF('month', DATE '2023-12-31', DATE '2024-12-30') returned 12, Trino documents 11", 'DATE_DIFF month|year, engine value == (y2-y1)*12+(m2-m1) resp. y2-y1')
def _f_date_diff(c):
    m = re.match(r'DATE_?DIFF/(month|year)/', c['key'])
    if not m or _null_in(c):
        return False
    a, b = c['args']
    months = (b.year - a.year) * 12 + b.month - a.month
    return _val(c) == (months if m.group(1) == 'month' else b.year - a.year)


@finding('date_unit_unsupported_returns_null', 'DATE_ADD/DATE_DIFF', "the documented units 'quarter' and 'millisecond' are not implemented: the result is NULL (no error)", "SELECT DATE_ADD('quarter', 1, DATE '2024-02-29') returned NULL, Trino documents 2024-05-29",
         'DATE_ADD|DATE_DIFF with unit quarter or millisecond, non-NULL arguments, engine NULL')
def _f_date_unit(c):
    return re.match(r'DATE_(ADD|DIFF)/(quarter|millisecond)/', c['key']) is not None and not _null_in(c) and c['eng'] == ('val', None) and c['ref'][0] == 'val'


@finding('day_of_week_sunday_based', 'DAY_OF_WEEK', 'DAY_OF_WEEK / DAYOFWEEK number the days 1 = Sunday .. 7 = Saturday; Trino documents ISO numbering 1 = Monday .. 7 = Sunday',
         "SELECT DAY_OF_WEEK(DATE '2023-12-31') (a Sunday) returned 1, Trino documents 7", 'DAY_OF_WEEK|DAYOFWEEK, engine value == isoweekday % 7 + 1')
def _f_dow(c):
    a = c['args'][0]
    return c['func'] in ('DAY_OF_WEEK', 'DAYOFWEEK') and a is not None and _val(c) == FR._date_of(a).isoweekday() % 7 + 1


@finding('extract_unknown_field_returns_zero', 'EXTRACT', 'EXTRACT with a field the evaluator does not know (QUARTER, WEEK, DOW, DOY, DAY_OF_WEEK, DAY_OF_YEAR, DAY_OF_MONTH, YEAR_OF_WEEK, YOW) returns 0 instead of the value or an error',
         "SELECT EXTRACT(QUARTER FROM DATE '2023-12-31') returned 0, Trino documents 4", 'EXTRACT/<field>, non-NULL argument, engine value == 0, documented value != 0')
def _f_extract_zero(c):
    return c['func'] == 'EXTRACT' and c['args'][0] is not None and _val(c) == 0 and _refval(c) != 0


@finding('date_format_strftime_specifiers', 'DATE_FORMAT', 'MySQL specifiers without a chrono counterpart are passed to strftime with a different meaning (%x = locale date, %v = day-month-year) instead of ISO week-year / week',
         "SELECT DATE_FORMAT(DATE '2024-12-30', '%x-W%v') returned '12/30/24-W30-Dec-2024', Trino documents '2025-W01'", "DATE_FORMAT with %x / %v, engine returns some other string")
def _f_date_format_spec(c):
    return c['key'].startswith('DATE_FORMAT/%x-W%v/') and c['args'][0] is not None and isinstance(_val(c), str)


@finding('date_format_time_specifier_on_date_panics', 'DATE_FORMAT', 'a time-of-day specifier applied to a DATE argument panics in chrono formatting instead of formatting midnight', "SELECT DATE_FORMAT(DATE '2024-02-29', '%H:%i:%s') panicked: a Display implementation returned an error unexpectedly",
         'DATE_FORMAT on a DATE with %H %i %s, panic from Display')
def _f_date_format_panic(c):
    return c['key'].startswith('DATE_FORMAT/') and c['key'].endswith('/date') and _is_panic(c) and 'Display implementation' in _msg(c)


@finding('human_readable_seconds_format', 'HUMAN_READABLE_SECONDS', "the result is a two-decimal number with one unit ('1.60 minutes') instead of the documented breakdown ('1 minute, 36 seconds')",
         "SELECT HUMAN_READABLE_SECONDS(96) returned '1.60 minutes', Trino documents '1 minute, 36 seconds'", "HUMAN_READABLE_SECONDS, engine value matches '<n>.<dd> seconds|minutes|hours|days'")
def _f_hrs(c):
    return c['key'] == 'HUMAN_READABLE_SECONDS' and isinstance(_val(c), str) and re.fullmatch(r'\d+\.\d\d (seconds|minutes|hours|days)', _val(c)) is not None


@finding('to_unixtime_drops_fraction', 'TO_UNIXTIME', 'TO_UNIXTIME returns whole seconds (truncated toward zero) instead of a double with the fractional part', "SELECT TO_UNIXTIME(CAST('1969-12-31 23:59:59.500' AS TIMESTAMP)) returned 0, Trino documents -0.5",
         'TO_UNIXTIME, engine value == trunc(documented value)')
def _f_to_unixtime(c):
    r = _refval(c)
    return c['func'] == 'TO_UNIXTIME' and isinstance(r, float) and c['eng'][0] == 'val' and _val(c) is not None and _eq(_val(c), float(math.trunc(r))) and r != math.trunc(r)


@finding('millisecond_negative_before_epoch', 'MILLISECOND', 'for a timestamp before 1970 the millisecond of the second comes out negative (remainder of a negative epoch value)', "SELECT MILLISECOND(CAST('1969-12-31 23:59:59.500' AS TIMESTAMP)) returned -500, Trino documents 500",
         'MILLISECOND, engine value == documented value - 1000')
def _f_millis(c):
    r = _refval(c)
    return c['func'] == 'MILLISECOND' and isinstance(r, int) and _val(c) == r - 1000


# ---- JSON / misc ------------------------------------------------------------------------------------------------------------

@finding('json_array_contains_string_matches_number', 'JSON_ARRAY_CONTAINS', 'a VARCHAR value matches a JSON number with the same text', "SELECT JSON_ARRAY_CONTAINS('[1, 2, 3]', '1') returned true, Trino returns false (only JSON strings are compared with a varchar)",
         'JSON_ARRAY_CONTAINS/str, documented false, engine true, the array holds a number whose text is the value')
def _f_jac(c):
    if c['key'] != 'JSON_ARRAY_CONTAINS/str' or _null_in(c) or c['ref'] != ('val', False) or c['eng'] != ('val', True):
        return False
    try:
        arr = json.loads(c['args'][0])
    except ValueError:
        return False
    return any(isinstance(e, (int, float)) and not isinstance(e, bool) and (str(e) == c['args'][1] or (isinstance(e, float) and e == int(e) and str(int(e)) == c['args'][1])) for e in arr)


@finding('json_extract_scalar_json_null_as_text', 'JSON_EXTRACT_SCALAR', "a JSON null is returned as the text 'null' instead of SQL NULL", "SELECT JSON_EXTRACT_SCALAR('{\"f\":null}', '$.f') returned 'null', Trino returns NULL",
         "JSON_EXTRACT_SCALAR, documented NULL, engine value == 'null'")
def _f_jes(c):
    return c['key'] == 'JSON_EXTRACT_SCALAR' and not _null_in(c) and c['ref'] == ('val', None) and _val(c) == 'null'


@finding('json_size_string_scalar_length', 'JSON_SIZE', 'the size of a JSON string scalar is its byte length instead of 0', "SELECT JSON_SIZE('{\"c\":{\"d\":\"é\"}}', '$.c.d') returned 2, Trino documents 0 for every scalar",
         'JSON_SIZE, documented 0, the addressed value is a JSON string, engine value == its UTF-8 length')
def _f_json_size(c):
    if c['key'] != 'JSON_SIZE' or _null_in(c) or c['ref'] != ('val', 0):
        return False
    v = FR._jnav(*c['args'])
    return isinstance(v, str) and _val(c) == _u8len(v)


_ARROW_NAMES = {'bigint': 'Int64', 'double': 'Float64', 'varchar': 'Utf8', 'date': 'Date32', 'boolean': 'Boolean'}


@finding('typeof_arrow_type_names', 'TYPEOF', 'TYPEOF returns the Arrow type name instead of the SQL type name', "SELECT TYPEOF(c) for a BIGINT column returned 'Int64', Trino documents 'bigint'", 'TYPEOF on a column, engine value == Arrow name of the documented SQL type')
def _f_typeof(c):
    return c['func'] == 'TYPEOF' and _val(c) == _ARROW_NAMES.get(_refval(c))


# ---- arguments read from the first row of the batch (column mode only) ------------------------------------------------------------
# model: what the engine answers when the parameter is replaced by the value in row 0 of the table (the all-NULL tuple -> the engine's default)

def _regexp_extract0(s, p):
    try:
        return FR._regexp_extract(s, p, 0)
    except FR.DomainError:
        return _NOVAL


def _wb_count0(a):
    x, lo, hi = a[0], a[1], a[2]
    if lo is None or hi is None or x != x:
        return _NOVAL
    return 0 if x < lo else 1       # bucket count read from the NULL first row = 0


_ROW0 = {
    'WIDTH_BUCKET': _wb_count0,
    'TO_BASE': lambda a: str(a[0]),          # radix read from the NULL first row = 0 -> the "other radix" branch prints decimal
    'ROUND/dbl,small': lambda a: FR._round_half_away(a[0], 0),
    'LPAD': lambda a: a[0][:max(a[1], 0)] if a[1] is not None else _NOVAL,
    'RPAD': lambda a: a[0][:max(a[1], 0)] if a[1] is not None else _NOVAL,
    'REGEXP_EXTRACT/3': lambda a: _regexp_extract0(a[0], a[1]) if a[1] is not None else _NOVAL,
}


@finding('parameter_read_from_first_row', 'ROUND, LPAD, RPAD, REGEXP_EXTRACT, WIDTH_BUCKET, TO_BASE (FROM_BASE: see from_base_bad_radix_panics)', 'a parameter argument given as a column is read from the FIRST row of the batch only '
         '(`value(0)` / `get_int_value(arr, 0)`) and applied to every row: decimals of ROUND, pad string of LPAD/RPAD, group of REGEXP_EXTRACT, radix of TO_BASE/FROM_BASE, bucket count of WIDTH_BUCKET',
         "table u(x, d) = [(NULL, NULL), (0.5, 1)]: SELECT ROUND(x, d) FROM u returned 1.0 for the second row, Trino documents 0.5", 'column mode, function in the table, non-NULL main argument, engine value == the result under the first row\'s (NULL -> default) parameter')
def _f_row0(c):
    f = _ROW0.get(c['key'])
    if f is None or c['mode'] != 'col' or c['args'][0] is None or c['eng'][0] != 'val':
        return False
    m = f(c['args'])
    return m is not _NOVAL and _eq(_val(c), m)


# ---- cross-cutting families, restricted to the functions in which they were observed ---------------------------------------------
NULL_NOT_PROPAGATED = {'CONCAT', 'SUBSTR', 'SUBSTRING', 'LPAD', 'RPAD', 'LEFT', 'RIGHT', 'REPEAT', 'SPLIT_PART', 'ROUND', 'TRUNCATE', 'TRUNC', 'TO_BASE', 'FROM_BASE', 'WIDTH_BUCKET', 'GREATEST', 'LEAST',
                       'BIT_COUNT', 'DATE_ADD', 'IS_FINITE', 'IS_INFINITE', 'IS_NAN', 'JSON_ARRAY_CONTAINS', 'JSON_SIZE', 'REGEXP_EXTRACT', 'REGEXP_POSITION'}
INVALID_RETURNS_NULL = {'CHR', 'CODEPOINT', 'FROM_BASE', 'FROM_BASE32', 'FROM_BASE64', 'FROM_BASE64URL', 'FROM_HEX', 'FROM_ISO8601_DATE', 'HAMMING_DISTANCE', 'JSON_EXTRACT_SCALAR', 'JSON_SIZE', 'NORMAL_CDF',
                        'REGEXP_EXTRACT', 'REGEXP_EXTRACT_ALL', 'REGEXP_POSITION'}
MISSING_VALIDATION = {'CODEPOINT', 'FROM_ISO8601_DATE', 'JSON_EXTRACT_SCALAR', 'JSON_SIZE', 'LPAD', 'RPAD', 'REGEXP_COUNT', 'REGEXP_LIKE', 'REGEXP_POSITION', 'REGEXP_REPLACE', 'REGEXP_SPLIT', 'SPLIT', 'SPLIT_PART',
                      'URL_DECODE', 'WIDTH_BUCKET', 'TO_BASE', 'BIT_COUNT', 'ROUND'}


@finding('null_argument_not_propagated', ', '.join(sorted(NULL_NOT_PROPAGATED)), 'a NULL argument does not make the result NULL: the NULL is treated as an empty string / zero / the default (CONCAT, SUBSTR of a NULL string, NULL sizes, counts and '
         'indexes) or skipped (GREATEST / LEAST); Trino documents NULL for a NULL argument of these functions', "SELECT CONCAT(CAST(NULL AS VARCHAR), 'a') returned 'a', Trino documents NULL; GREATEST(CAST(NULL AS BIGINT), 1) returned 1, Trino documents NULL",
         'function in the list, some argument NULL, documented NULL, engine returns a non-NULL value')
def _f_null_not_prop(c):
    return c['func'] in NULL_NOT_PROPAGATED and (_doc_null_by_propagation(c) or (c['func'] in ('GREATEST', 'LEAST') and _null_in(c) and c['ref'] == ('val', None))) and c['eng'][0] == 'val' and c['eng'][1] is not None


@finding('invalid_argument_returns_null', ', '.join(sorted(INVALID_RETURNS_NULL)), 'an argument outside the documented domain (invalid regular expression, invalid hex/base64/base-N text, invalid code point, invalid JSON path, '
         'invalid date text, strings of different length, non-positive standard deviation) yields NULL instead of the error Trino raises', "SELECT FROM_HEX('zz') returned NULL, Trino raises an error; REGEXP_EXTRACT('a', '(') returned NULL",
         'function in the list, documented error, engine returns NULL')
def _f_invalid_null(c):
    return c['func'] in INVALID_RETURNS_NULL and c['ref'] == ('error',) and c['eng'] == ('val', None)


@finding('missing_argument_validation', ', '.join(sorted(MISSING_VALIDATION)), 'an argument outside the documented domain is not rejected and some value is computed: invalid regular expression treated as "no match", '
         'index/size/limit <= 0, empty pad string or delimiter, multi-character CODEPOINT argument, malformed escapes, invalid JSON path, invalid radix / bits / bucket count',
         "SELECT CODEPOINT('Ab c') returned 65, REGEXP_LIKE('a', '(') returned false, SPLIT_PART('a', ',', 0) returned '': Trino raises an error for each", 'function in the list, documented error, engine returns a non-NULL value')
def _f_invalid_value(c):
    return c['func'] in MISSING_VALIDATION and c['ref'] == ('error',) and c['eng'][0] == 'val' and c['eng'][1] is not None


@finding('untyped_null_literal_rejected', '(every function that checks its argument types at run time)', 'a bare NULL literal argument is not coerced to the parameter type: the call fails with a type error instead of returning the documented '
         'value (NULL for ordinary functions, the other argument for COALESCE / IF ...)', "SELECT UPPER(NULL) fails with 'Type error: UPPER requires string argument'; Trino returns NULL (SELECT UPPER(CAST(NULL AS VARCHAR)) works)",
         'literal mode with a bare NULL, engine raises an explicit type / coercion error')
def _f_untyped_null(c):
    return c['mode'] == 'litnull' and _is_err(c) and re.search(r'Type error|same data type|Invalid arithmetic operation|ot implemented', _msg(c)) is not None
