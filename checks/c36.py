"""C36 scalar functions compute their documented (Trino) values - bounded-exhaustive enumeration against vlib/funcref.py."""
import datetime, hashlib, itertools, json, math, os, re, traceback
import multiprocessing as mp
from vlib import sqldiff, driver as drv
from vlib import funcref as FR
from vlib.report import known_ids

LEVEL = 'exploration'

NAN, INF = float('nan'), float('inf')
D, DT = datetime.date, datetime.datetime

# per-type argument domains (NULL is added to every one of them by the enumerator)
DOMAINS = {
    'int': [-2, -1, 0, 1, 2, 7, 2147483648, -9223372036854775807, 9223372036854775807],
    'dbl': [-1.5, -0.0, 0.0, 0.5, 2.0, 1e308, NAN, INF],
    'str': ['', 'a', 'Ab c', 'é', '日本', 'a,b', '%_', ' x '],
    'date': [D(1970, 1, 1), D(2024, 2, 29), D(2023, 12, 31), D(2024, 12, 30)],
    'ts': [DT(1970, 1, 1), DT(2024, 2, 29, 13, 45, 59, 123000), DT(1969, 12, 31, 23, 59, 59, 500000), DT(2024, 12, 30), DT(2023, 12, 31, 23, 59, 59, 999000)],
    'small': [-1, 0, 1, 2, 5],
    'pat': ['a', '^a.*', '(', '[b-', 'b|c'],
    'bool': [True, False],
}
COLTYPE = {'int': 'int64', 'small': 'int64', 'dbl': 'float64', 'str': 'utf8', 'pat': 'utf8', 'date': 'date32', 'ts': 'ts_us', 'bool': 'bool'}
SQLTYPE = {'int': 'BIGINT', 'small': 'BIGINT', 'dbl': 'DOUBLE', 'str': 'VARCHAR', 'pat': 'VARCHAR', 'date': 'DATE', 'ts': 'TIMESTAMP', 'bool': 'BOOLEAN'}
EPOCH = DT(1970, 1, 1)


def dom_of(a):
    """(type name, values incl. NULL first)"""
    if isinstance(a, FR.Dom):
        return a.typ, [None] + list(a.values)
    return a, [None] + DOMAINS[a]


def tuples_of(spec):
    doms = [dom_of(a) for a in spec.args]
    return [t for t, _ in doms], list(itertools.product(*[v for _, v in doms]))


def frepr(x):
    if x != x:
        return 'NaN'
    if x in (INF, -INF):
        return 'inf' if x > 0 else '-inf'
    return repr(float(x))


def cell(v, typ):
    """python value -> driver cell"""
    if v is None:
        return None
    if typ == 'dbl':
        return ['f', frepr(v)]
    if typ == 'date':
        return ['d', v.isoformat()]
    if typ == 'ts':
        delta = v - EPOCH
        return (delta.days * 86400 + delta.seconds) * 1000000 + delta.microseconds
    return v


def lit(v, typ, bare_null=False):
    """python value -> SQL literal"""
    if v is None:
        return 'NULL' if bare_null else 'CAST(NULL AS %s)' % SQLTYPE[typ]
    if typ == 'bool':
        return 'TRUE' if v else 'FALSE'
    if typ == 'dbl':
        if v != v:
            return 'NAN()'
        if v in (INF, -INF):
            return 'INFINITY()' if v > 0 else '-INFINITY()'
        if v == 0 and math.copysign(1.0, v) < 0:
            return '-0.0'
        r = repr(float(v))
        return r.replace('e+', 'e')
    if typ == 'date':
        return "DATE '%s'" % v.isoformat()
    if typ == 'ts':
        # the engine binds TIMESTAMP '...' as a quoted string (literal parsing, not a scalar function): use the CAST form
        return "CAST('%s' AS TIMESTAMP)" % v.strftime('%Y-%m-%d %H:%M:%S.%f')[:-3]
    if isinstance(v, str):
        return "'" + v.replace("'", "''") + "'"
    return str(v)


def enc(v):
    """python value -> JSON-safe tagged form (payloads, evidence)"""
    if v is None or isinstance(v, (bool, str)):
        return v
    if isinstance(v, int):
        return v
    if isinstance(v, float):
        return ['f', frepr(v)]
    if isinstance(v, DT):
        return ['ts', v.isoformat()]
    if isinstance(v, D):
        return ['d', v.isoformat()]
    if isinstance(v, bytes):
        return ['bin', v.hex()]
    if isinstance(v, (list, tuple)):
        return ['list'] + [enc(x) for x in v]
    return ['?', repr(v)]


def dec(c):
    if isinstance(c, list):
        if c[0] == 'f':
            return {'NaN': NAN, 'inf': INF, '-inf': -INF}.get(c[1]) if c[1] in ('NaN', 'inf', '-inf') else float(c[1])
        if c[0] == 'ts':
            return DT.fromisoformat(c[1])
        if c[0] == 'd':
            return D.fromisoformat(c[1])
        if c[0] == 'bin':
            return bytes.fromhex(c[1])
        if c[0] == 'list':
            return [dec(x) for x in c[1:]]
    return c


class Other:
    """an engine cell of a type the comparison does not know"""
    def __init__(self, typ, text):
        self.typ, self.text = typ, text

    def __repr__(self):
        return 'Other(%s, %s)' % (self.typ, self.text)


def from_cell(c):
    """driver result cell -> python value"""
    if isinstance(c, list):
        if len(c) == 2 and c[0] == 'f':
            return {'NaN': NAN, 'inf': INF, '-inf': -INF}[c[1]] if c[1] in ('NaN', 'inf', '-inf') else float(c[1])
        if len(c) == 2 and c[0] == 'd':
            try:
                return D.fromisoformat(c[1])
            except ValueError:
                return Other('date32', c[1])
        if len(c) == 3 and c[0] == 'o':
            if c[1] in ('Binary', 'LargeBinary'):
                try:
                    return bytes.fromhex(c[2])
                except ValueError:
                    return Other(c[1], c[2])
            if c[1].startswith('Timestamp'):
                try:
                    return DT.fromisoformat(c[2][:26].rstrip('Z')).replace(tzinfo=None)
                except ValueError:
                    return Other(c[1], c[2])
            return Other(c[1], c[2])
        return [from_cell(x) for x in c]
    return c


def same(ref, eng, spec=None):
    """None if the engine value is the documented value, else a short reason. Returns 'ok:<note>' style notes via second element."""
    if ref is None or eng is None:
        return None if (ref is None and eng is None) else ('NULL expected' if ref is None else 'NULL returned')
    if isinstance(ref, bool) or isinstance(eng, bool):
        return None if (isinstance(ref, bool) and isinstance(eng, bool) and ref == eng) else 'boolean differs'
    if isinstance(ref, float):
        if isinstance(eng, bool) or not isinstance(eng, (int, float)):
            return 'not a number'
        e = float(eng)
        if ref != ref:
            return None if e != e else 'NaN expected'
        if e != e:
            return 'NaN returned'
        if ref in (INF, -INF) or e in (INF, -INF):
            return None if ref == e else 'infinity differs'
        if ref == e:
            return None
        return None if abs(ref - e) <= 1e-12 * max(abs(ref), abs(e)) else 'double differs'
    if isinstance(ref, int):
        if isinstance(eng, int):
            return None if ref == eng else 'integer differs'
        if isinstance(eng, float):
            if eng != eng or eng in (INF, -INF) or eng != math.floor(eng):
                return 'integer differs'
            return None if int(eng) == ref else 'integer differs'
        return 'not a number'
    if isinstance(ref, str):
        return None if (isinstance(eng, str) and eng == ref) else 'string differs'
    if isinstance(ref, bytes):
        if isinstance(eng, bytes):
            return None if eng == ref else 'bytes differ'
        if isinstance(eng, str) and spec is not None and spec.binary_as_hex:
            return None if eng.lower() == ref.hex() else 'bytes differ'
        if isinstance(eng, int) and not isinstance(eng, bool) and spec is not None and spec.binary_as_hex and len(ref) == 8:
            return None if (eng & ((1 << 64) - 1)).to_bytes(8, 'big') == ref else 'bytes differ'      # xxhash64: the 8 bytes as a BIGINT
        return 'not binary'
    if isinstance(ref, DT):
        if isinstance(eng, DT):
            return None if eng == ref else 'timestamp differs'
        if isinstance(eng, D) and ref.time() == datetime.time(0):
            return None if eng == ref.date() else 'timestamp differs'
        return 'not a timestamp'
    if isinstance(ref, D):
        if isinstance(eng, DT):
            return None if (eng.time() == datetime.time(0) and eng.date() == ref) else 'date differs'
        return None if (isinstance(eng, D) and eng == ref) else 'date differs'
    if isinstance(ref, list):
        if not isinstance(eng, list) or len(eng) != len(ref):
            return 'array differs'
        for a, b in zip(ref, eng):
            if same(a, b, spec) is not None:
                return 'array differs'
        return None
    return 'unknown reference type'


# ----------------------------------------------------------------------------------------------------------------------------
# candidate findings: id -> description + predicate over one disagreement
#   case = {'key','func','mode','args' (python values),'eng': ('val',v)|('err',cls,msg)|('panic',msg), 'ref': ('val',v)|('error',), 'why'}
# ----------------------------------------------------------------------------------------------------------------------------

def _is_err(c):
    return c['eng'][0] == 'err'


def _is_panic(c):
    return c['eng'][0] == 'panic'


def _val(c):
    return c['eng'][1] if c['eng'][0] == 'val' else _NOVAL


def _refval(c):
    return c['ref'][1] if c['ref'][0] == 'val' else _NOVAL


_NOVAL = object()

CANDIDATE_FINDINGS = {}
_PRED = {}


def finding(fid, function, what, example, match):
    def deco(fn):
        CANDIDATE_FINDINGS[fid] = {'function': function, 'what': what, 'example': example, 'match': match}
        _PRED[fid] = fn
        return fn
    return deco


def classify(case):
    for fid, fn in _PRED.items():
        try:
            if fn(case):
                return fid
        except Exception:
            continue
    return None


# (the finding definitions are appended below the machinery, see FINDINGS section)

# ----------------------------------------------------------------------------------------------------------------------------
# evaluation
# ----------------------------------------------------------------------------------------------------------------------------

def outcome(r, pick=None):
    if r.get('ok'):
        return None
    if r.get('err') == 'Panic':
        return ('panic', (r.get('msg') or '')[:200])
    return ('err', r.get('err'), (r.get('msg') or '')[:200])


def call(d, sql, timeout=60):
    try:
        r = d.call({'op': 'sql', 'db': 'd', 'sql': sql}, timeout=timeout)
    except drv.DriverTimeout:
        return {'ok': False, 'err': 'Panic', 'msg': 'timeout: no reply within %ss' % timeout, 'dead': True}
    except drv.DriverDied as e:
        return {'ok': False, 'err': 'Panic', 'msg': 'driver process died: %s' % (e,), 'dead': True}
    if not r.get('ok') and r.get('err') == 'Driver':
        raise RuntimeError('driver protocol error: %r' % r)
    return r


def expr_sql(spec, parts):
    return spec.template().format(*parts)


def eval_col(d, spec, types, tuples, idxs):
    """column mode: yields (idx, engine outcome, sql). One statement for all rows; per-row statements if it fails."""
    n = len(types)
    cols = [['id', 'int64']] + [['c%d' % i, COLTYPE[t]] for i, t in enumerate(types)]
    rows = [[i] + [cell(v, t) for v, t in zip(tuples[i], types)] for i in idxs]
    db = {'tables': [{'name': 'u', 'cols': cols, 'rows': rows}]}
    sqldiff.reg_db(d, db)
    e = expr_sql(spec, ['c%d' % i for i in range(n)])
    sql = 'SELECT id, %s FROM u' % e
    r = call(d, sql)
    out = {}
    if r.get('ok') and len(r['rows']) == len(idxs):
        for row in r['rows']:
            out[row[0]] = (('val', from_cell(row[1])), sql)
        if set(out) == set(idxs):
            return out, 1
        out = {}
    if r.get('dead'):
        sqldiff.reg_db(d, db)
    stmts = 1
    for i in idxs:
        q = 'SELECT id, %s FROM u WHERE id = %d' % (e, i)
        r = call(d, q)
        stmts += 1
        if r.get('dead'):
            sqldiff.reg_db(d, db)
        if r.get('ok'):
            if len(r['rows']) == 1 and r['rows'][0][0] == i:
                out[i] = (('val', from_cell(r['rows'][0][1])), q)
            else:
                out[i] = (('err', 'RowCount', 'expected one row, got %d' % len(r['rows'])), q)
        else:
            out[i] = (outcome(r), q)
    return out, stmts


def eval_mix(d, spec, types, tuples, idxs):
    """mixed mode: argument `colarg` is a column of a table holding its distinct values, the other arguments are literals."""
    n, ca = len(types), spec.colarg
    _, vals = dom_of(spec.args[ca])
    rows = [[j, cell(v, types[ca])] for j, v in enumerate(vals)]
    db = {'tables': [{'name': 'u', 'cols': [['id', 'int64'], ['c', COLTYPE[types[ca]]]], 'rows': rows}]}
    sqldiff.reg_db(d, db)
    pos = {}
    for j, v in enumerate(vals):
        pos[json.dumps(enc(v))] = j
    groups = {}
    for i in idxs:
        t = tuples[i]
        k = tuple(json.dumps(enc(v)) for a, v in enumerate(t) if a != ca)
        groups.setdefault(k, []).append(i)
    out, stmts = {}, 0
    for k, members in groups.items():
        t0 = tuples[members[0]]
        parts = ['c' if a == ca else lit(t0[a], types[a]) for a in range(n)]
        e = expr_sql(spec, parts)
        sql = 'SELECT id, %s FROM u' % e
        r = call(d, sql)
        stmts += 1
        if r.get('dead'):
            sqldiff.reg_db(d, db)
        got = {}
        if r.get('ok') and len(r['rows']) == len(vals):
            got = {row[0]: from_cell(row[1]) for row in r['rows']}
        if r.get('ok') and len(got) == len(vals):
            for i in members:
                out[i] = (('val', got[pos[json.dumps(enc(tuples[i][ca]))]]), sql)
            continue
        for i in members:
            j = pos[json.dumps(enc(tuples[i][ca]))]
            q = 'SELECT id, %s FROM u WHERE id = %d' % (e, j)
            r = call(d, q)
            stmts += 1
            if r.get('dead'):
                sqldiff.reg_db(d, db)
            if r.get('ok'):
                if len(r['rows']) == 1:
                    out[i] = (('val', from_cell(r['rows'][0][1])), q)
                else:
                    out[i] = (('err', 'RowCount', 'expected one row, got %d' % len(r['rows'])), q)
            else:
                out[i] = (outcome(r), q)
    return out, stmts


def eval_lit(d, spec, types, tuples, idxs, bare_null=False):
    out = {}
    sqldiff.reg_db(d, {'tables': []})
    for i in idxs:
        parts = [lit(v, t, bare_null) for v, t in zip(tuples[i], types)]
        q = 'SELECT %s' % expr_sql(spec, parts)
        r = call(d, q)
        if r.get('ok'):
            if len(r['rows']) == 1 and len(r['rows'][0]) == 1:
                out[i] = (('val', from_cell(r['rows'][0][0])), q)
            else:
                out[i] = (('err', 'RowCount', 'expected one row, got %d' % len(r['rows'])), q)
        else:
            out[i] = (outcome(r), q)
    return out, len(idxs)


def judge(spec, args, eng):
    """-> (status, ref outcome, why).  status: agree | agree_error | unspecified | differ"""
    ref = spec.expected(args)
    if ref[0] == 'unspecified':
        return 'unspecified', ref, ref[1]
    if ref[0] == 'error':
        if eng[0] == 'err':
            return 'agree_error', ref, None
        if eng[0] == 'panic':
            return 'differ', ref, 'panic where an error is documented: ' + eng[1]
        return 'differ', ref, 'value %r where an error is documented' % (eng[1],)
    if eng[0] == 'panic':
        return 'differ', ref, 'panic: ' + eng[1]
    if eng[0] == 'err':
        return 'differ', ref, 'error %s (%s) where %r is documented' % (eng[1], eng[2][:80], ref[1])
    why = same(ref[1], eng[1], spec)
    if why is None:
        return 'agree', ref, None
    return 'differ', ref, '%s: engine %r, documented %r' % (why, eng[1], ref[1])


def _work(task):
    key, mode, lo, hi, step = task
    out = {'key': key, 'mode': mode, 'n': 0, 'stmts': 0, 'agree': 0, 'agree_error': 0, 'unspecified': 0, 'engine_errors': 0, 'panics': 0, 'expect_value': 0, 'numtype': 0,
           'differ': [], 'nontrivial': set(), 'samples': [], 'errors': [], 'errmsg': None}
    try:
        spec = FR.FUNCS[key]
        types, tuples = tuples_of(spec)
        idxs = list(range(lo, hi, step))
        if mode == 'litnull':
            idxs = [i for i in idxs if any(v is None for v in tuples[i])]
        if not idxs:
            return out
        d = sqldiff.get_driver({'name': 'c36', 'env': {}})
        if mode == 'col':
            res, st = eval_col(d, spec, types, tuples, idxs)
        elif mode == 'mix':
            res, st = eval_mix(d, spec, types, tuples, idxs)
        else:
            res, st = eval_lit(d, spec, types, tuples, idxs, bare_null=(mode == 'litnull'))
        out['stmts'] = st
        for i in idxs:
            eng, sql = res[i]
            args = tuples[i]
            status, ref, why = judge(spec, args, eng)
            out['n'] += 1
            if eng[0] == 'err':
                out['engine_errors'] += 1
                if out['errmsg'] is None:
                    out['errmsg'] = '%s: %s' % (eng[1], eng[2][:120])
            if eng[0] == 'panic':
                out['panics'] += 1
            if ref[0] == 'val':
                out['expect_value'] += 1
            if status == 'differ':
                out['differ'].append({'key': key, 'func': spec.func, 'mode': mode, 'idx': i, 'args': [enc(a) for a in args], 'eng': [eng[0]] + [enc(x) if eng[0] == 'val' else x for x in eng[1:]],
                                      'ref': [ref[0]] + [enc(x) for x in ref[1:]], 'why': why, 'sql': sql})
            else:
                out[status] += 1
                if status == 'agree':
                    if isinstance(ref[1], int) and not isinstance(ref[1], bool) and isinstance(eng[1], float):
                        out['numtype'] += 1
                    if ref[1] is not None:
                        out['nontrivial'].add(hashlib.sha1(('%s|%s|%d' % (key, mode, i)).encode()).digest()[:8])
                        if not out['samples'] and ref[1] not in ('', 0, False):
                            out['samples'].append({'sql': sql, 'mode': mode, 'args': [enc(a) for a in args], 'engine': enc(eng[1]), 'documented': enc(ref[1])})
    except Exception:
        out['errors'].append('%s %s: %s' % (key, mode, traceback.format_exc()))
    return out


def case_of(rec):
    c = dict(rec)
    c['args'] = [dec(a) for a in rec['args']]
    e = rec['eng']
    c['eng'] = ('val', dec(e[1])) if e[0] == 'val' else tuple(e)
    r = rec['ref']
    c['ref'] = ('val', dec(r[1])) if r[0] == 'val' else (r[0],)
    return c


def run(rep):
    quick = rep.tier == 'quick'
    lit_step = 4 if quick else 1
    tasks = []
    total = {}
    for key, spec in FR.FUNCS.items():
        types, tuples = tuples_of(spec)
        n = len(tuples)
        total[key] = n
        chunk = 400
        for lo in range(0, n, chunk):
            tasks.append((key, 'col', lo, min(n, lo + chunk), 1))
        if len(types) >= 2:
            tasks.append((key, 'mix', 0, n, 1))
        if spec.literal_ok:
            # quick tier: every lit_step-th tuple, offset by the seed so that repeated runs sweep the whole product
            off = (rep.seed % lit_step) if lit_step > 1 else 0
            lchunk = 300 * lit_step
            for lo in range(0, n, lchunk):
                tasks.append((key, 'lit', lo + off, min(n, lo + lchunk), lit_step))
                if len(types) >= 1:
                    tasks.append((key, 'litnull', lo + off, min(n, lo + lchunk), lit_step))
    # longest first
    tasks.sort(key=lambda t: -((t[3] - t[2]) // t[4]) * (3 if t[1] in ('lit', 'litnull') else 1))
    funcs = sorted(set(s.func for s in FR.FUNCS.values()))
    rep.rule = ('%d SQL functions / %d signatures (vlib/funcref.py); for each signature EVERY tuple of the cartesian product of its argument domains '
                '(NULL + BIGINT %s; DOUBLE %s; VARCHAR %s; DATE %s; TIMESTAMP %s; small ints %s; regex patterns %s; booleans; or the explicit per-argument value lists of funcref.Dom for '
                'positions, radixes, hex/base64/URL/JSON texts, shifts), %d tuples in total, each evaluated (a) with all arguments as columns of a memory table holding one row per tuple, '
                '(b) with one argument as a column and the others as literals (constant-argument fast paths), (c) with all arguments as literals (constant folding) - %s - '
                'and (d) as (c) with a bare untyped NULL for the NULL arguments; oracle: the Python reference of the Trino documentation: exact for integers/strings/booleans/dates/timestamps/bytes/arrays, '
                'relative 1e-12 for doubles (NaN = NaN, the sign of zero ignored, an integer-valued double accepted for a documented integer and counted), NULL exactly; an engine error is accepted only where the '
                'documentation prescribes an error; a VARCHAR argument stands for its UTF-8 bytes where Trino takes VARBINARY, and hash functions may return lower-case hex text for VARBINARY; '
                'a signature/mode in which EVERY call is refused with an explicit error is reported as unsupported (extra.refused_signatures), not as a wrong value'
                % (len(funcs), len(FR.FUNCS), DOMAINS['int'], [frepr(x) for x in DOMAINS['dbl']], DOMAINS['str'], [x.isoformat() for x in DOMAINS['date']], [x.isoformat() for x in DOMAINS['ts']],
                   DOMAINS['small'], DOMAINS['pat'], sum(total.values()),
                   ('every %d-th tuple (offset seed mod %d) in the quick tier' % (lit_step, lit_step)) if quick else 'all tuples'))
    if quick:
        rep.exhaustive = True    # modes (a) and (b) are exhaustive; (c)/(d) subsample as stated in the rule
    agg = {}      # (key, mode) -> counters
    differ = []
    with mp.Pool(min(14, os.cpu_count() or 4), initializer=sqldiff._init) as pool:
        for out in pool.imap_unordered(_work, tasks, chunksize=1):
            for e in out['errors']:
                rep.machinery(e)
            a = agg.setdefault((out['key'], out['mode']), {'n': 0, 'stmts': 0, 'agree': 0, 'agree_error': 0, 'unspecified': 0, 'engine_errors': 0, 'panics': 0, 'expect_value': 0, 'numtype': 0, 'errmsg': None})
            for k in ('n', 'stmts', 'agree', 'agree_error', 'unspecified', 'engine_errors', 'panics', 'expect_value', 'numtype'):
                a[k] += out[k]
            a['errmsg'] = a['errmsg'] or out['errmsg']
            rep.nontrivial |= out['nontrivial']
            for s in out['samples']:
                rep.add_sample(s)
            differ.extend(out['differ'])
    known = set(known_ids(rep.prop))
    refused = {}
    per = {}
    for (key, mode), a in sorted(agg.items()):
        f = FR.FUNCS[key].func
        p = per.setdefault(f, {'signatures': set(), 'evaluations': 0, 'agree': 0, 'agree_both_error': 0, 'unspecified_skipped': 0, 'violations': 0, 'candidate': 0, 'refused_signature': 0})
        p['signatures'].add(key)
        p['evaluations'] += a['n']
        p['agree'] += a['agree']
        p['agree_both_error'] += a['agree_error']
        p['unspecified_skipped'] += a['unspecified']
        if a['numtype']:
            p['integer_returned_as_double'] = p.get('integer_returned_as_double', 0) + a['numtype']
        rep.evaluations += a['n']
        rep.count('agree', a['agree'])
        rep.count('agree_both_error', a['agree_error'])
        rep.count('unspecified_skipped', a['unspecified'])
        rep.count('statements', a['stmts'])
        if mode != 'litnull' and a['n'] > 0 and a['expect_value'] > 0 and a['engine_errors'] == a['n'] and a['panics'] == 0:
            refused[(key, mode)] = a['errmsg']
    vio_kept = {}
    cand_counts = {}
    dropped = 0
    for rec in differ:
        key, mode = rec['key'], rec['mode']
        p = per[rec['func']]
        if (key, mode) in refused:
            p['refused_signature'] += 1
            rep.count('refused_signature')
            continue
        case = case_of(rec)
        fid = classify(case)
        payload = {'property': rep.prop, 'kind': 'scalar', 'key': key, 'func': rec['func'], 'mode': mode, 'args': rec['args'], 'sql': rec['sql'], 'engine': rec['eng'], 'documented': rec['ref'],
                   'why': '%s [%s] %s' % (key, mode, rec['why']), 'candidate': fid}
        if fid is not None:
            rep.count('candidate:' + fid)
            cand_counts[fid] = cand_counts.get(fid, 0) + 1
            p['candidate'] += 1
            if fid in known:
                rep.known_hit(fid, {'sql': rec['sql'], 'mode': mode, 'engine': rec['eng'], 'documented': rec['ref']})
                continue
            payload['why'] = 'candidate %s: %s' % (fid, payload['why'])
            k = 'cand:' + fid
        else:
            k = key
        rep.count('violation')
        p['violations'] += 1
        vio_kept[k] = vio_kept.get(k, 0) + 1
        if vio_kept[k] <= 2:
            rep.violation(payload)
        else:
            dropped += 1
    if dropped:
        rep.extra['violations_counted_without_a_replay_file'] = dropped      # counts['violation'] is the full number
    for f in per.values():
        f['signatures'] = sorted(f['signatures'])
    rep.extra['per_function'] = per
    rep.extra['uncovered'] = [{'functions': k, 'reason': v} for k, v in FR.UNCOVERED.items()]
    rep.extra['refused_signatures'] = {'%s [%s]' % km: msg for km, msg in sorted(refused.items())}
    rep.extra['candidate_findings'] = {fid: dict(CANDIDATE_FINDINGS[fid], hits=cand_counts.get(fid, 0), listed=(fid in known)) for fid in CANDIDATE_FINDINGS}
    rep.extra['functions_covered'] = len(funcs)
    rep.extra['signatures_covered'] = len(FR.FUNCS)
    rep.extra['notes'] = {k: s.note for k, s in FR.FUNCS.items() if s.note}


def replay(payload):
    spec = FR.FUNCS[payload['key']]
    types, _ = tuples_of(spec)
    args = [dec(a) for a in payload['args']]
    d = drv.Driver(env={})
    try:
        mode = payload['mode']
        tuples = [tuple(args)]
        if mode == 'col':
            res, _ = eval_col(d, spec, types, tuples, [0])
        elif mode == 'mix':
            # single value of the column argument
            ca = spec.colarg
            db = {'tables': [{'name': 'u', 'cols': [['id', 'int64'], ['c', COLTYPE[types[ca]]]], 'rows': [[0, cell(args[ca], types[ca])]]}]}
            sqldiff.reg_db(d, db)
            parts = ['c' if a == ca else lit(args[a], types[a]) for a in range(len(types))]
            q = 'SELECT id, %s FROM u' % expr_sql(spec, parts)
            r = call(d, q)
            res = {0: ((('val', from_cell(r['rows'][0][1])) if r.get('ok') and r['rows'] else outcome(r) or ('err', 'RowCount', 'no row')), q)}
        else:
            res, _ = eval_lit(d, spec, types, tuples, [0], bare_null=(mode == 'litnull'))
        eng, sql = res[0]
        status, ref, why = judge(spec, tuple(args), eng)
        print('signature:', payload['key'], 'mode:', mode)
        print('sql:', sql)
        print('arguments:', payload['args'])
        print('engine:', eng)
        print('documented:', ref)
        print('status:', status, why or '')
        if status == 'differ':
            print('candidate finding:', classify({'key': payload['key'], 'func': spec.func, 'mode': mode, 'args': args, 'eng': eng, 'ref': ref, 'why': why}))
        return 1 if status == 'differ' else 0
    finally:
        d.close()


# ----------------------------------------------------------------------------------------------------------------------------
# FINDINGS (candidates; reported as KNOWN-FINDING only when listed in known_findings.json for C36, otherwise as violations)
# ----------------------------------------------------------------------------------------------------------------------------
