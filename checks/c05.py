"""C05 statistics-based row-group skipping is sound."""
from vlib import native
LEVEL = 'exploration'


def run(rep):
    rep.rule = ('real one-row-group Parquet files for column types int32/int64/float64/utf8/date32 holding every multiset of 1..2 (quick) / 3 (thorough) values from per-type boundary domains '
                '(NULL, MIN/MAX, 2^53 and 2^53+1, NaN, +-inf, -0.0, empty and multi-byte strings); predicates: every comparison operator x column-left/literal-left x 45 literals of every kind the '
                'pruner matches on (Int32, Int64, Float32, Float64, Date32, Utf8, Timestamp, NULL), BETWEEN / IN (negated too), NOT, IS [NOT] NULL, and (thorough) AND/OR of two leaves; oracle: '
                'decode the group, evaluate_expr the predicate: might_match == false implies no row is TRUE, definitely_matches == true implies every row is TRUE; '
                'non-trivial = a case where the pruner actually decides (skip or drop-filter)')
    rep.assumptions = ['the interpreter (evaluate_expr) defines which rows satisfy a predicate, including NaN ordering; predicates it cannot evaluate on a column type are not compared']
    native.run(rep, 'c05')


def replay(payload):
    return native.replay_generic(payload)
