"""C41 chunked decoding."""
from vlib import native
LEVEL = 'exploration'


def run(rep):
    rep.rule = ('(a) every body of length <= 4 over {a,CR,LF,0} x every chunking x {no extension, ;x, ;x=y} x {lower, UPPER, zero-padded} hex sizes; '
                '(b) every byte string of length <= 7 (quick) / 9 (thorough) over {0,1,a,f,;,CR,LF,x}; (c) f x n sizes n=1..20; '
                'oracle: reference RFC 7230 4.1 decoder (Some(body) for valid framing, None otherwise), no panic; non-trivial = distinct input that decodes to a body')
    native.run(rep, 'c41')


def replay(payload):
    return native.replay_generic(payload)
