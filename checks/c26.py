"""C26 window functions against SQLite (ties made deterministic with a unique last key where the function depends on row order)."""
import itertools
from vlib import sqldiff
from vlib.enumr import multisets, rotate
from .common import table

LEVEL = 'exploration'

BOUNDS = ['UNBOUNDED PRECEDING', '1 PRECEDING', 'CURRENT ROW', '1 FOLLOWING', 'UNBOUNDED FOLLOWING']


def frames(kind):
    out = []
    for i, s in enumerate(BOUNDS):
        for j, e in enumerate(BOUNDS):
            if s == 'UNBOUNDED FOLLOWING' or e == 'UNBOUNDED PRECEDING' or i > j:
                continue
            out.append('%s BETWEEN %s AND %s' % (kind, s, e))
    return out


def specs(quick):
    S = []
    parts = ['', 'PARTITION BY p ']
    orders_total = ['ORDER BY o %s NULLS %s, id' % (d, n) for d in ('ASC', 'DESC') for n in ('FIRST', 'LAST')]
    orders_ties = ['ORDER BY o %s NULLS %s' % (d, n) for d in ('ASC', 'DESC') for n in ('FIRST', 'LAST')]
    total_fns = ['ROW_NUMBER()', 'NTILE(1)', 'NTILE(2)', 'NTILE(3)', 'LAG(v)', 'LAG(v, 2)', 'LAG(v, 1, 0)', 'LEAD(v)', 'LEAD(v, 2)', 'LEAD(v, 1, 9)',
                 'FIRST_VALUE(v)', 'LAST_VALUE(v)', 'NTH_VALUE(v, 2)']
    tie_fns = ['RANK()', 'DENSE_RANK()', 'PERCENT_RANK()', 'CUME_DIST()', 'COUNT(v)', 'COUNT(*)', 'SUM(v)', 'AVG(v)', 'MIN(v)', 'MAX(v)']
    for p in parts:
        for o in orders_total:
            for f in total_fns:
                S.append(('%s OVER (%s%s)' % (f, p, o), 'order-total:' + f.split('(')[0], f.startswith(('PERCENT', 'CUME', 'AVG'))))
        for o in orders_ties:
            for f in tie_fns:
                S.append(('%s OVER (%s%s)' % (f, p, o), 'order-ties:' + f.split('(')[0], f.startswith(('PERCENT', 'CUME', 'AVG'))))
        # no ORDER BY: whole-partition aggregates
        for f in ['COUNT(*)', 'SUM(v)', 'MIN(v)', 'MAX(v)', 'AVG(v)', 'COUNT(v)']:
            S.append(('%s OVER (%s)' % (f, p.strip()), 'no-order:' + f.split('(')[0], f.startswith('AVG')))
        # frames
        fo_total = 'ORDER BY o ASC NULLS LAST, id'
        fo_ties = 'ORDER BY o ASC NULLS FIRST'
        for fr in frames('ROWS'):
            for f in (['SUM(v)', 'COUNT(*)', 'MIN(v)', 'FIRST_VALUE(v)', 'LAST_VALUE(v)'] if not quick else ['SUM(v)', 'COUNT(*)', 'LAST_VALUE(v)']):
                S.append(('%s OVER (%s%s %s)' % (f, p, fo_total, fr), 'rows-frame:' + f.split('(')[0], False))
        for fr in frames('RANGE'):
            for f in (['SUM(v)', 'COUNT(*)', 'MAX(v)'] if not quick else ['SUM(v)', 'COUNT(*)']):
                S.append(('%s OVER (%s%s %s)' % (f, p, fo_ties, fr), 'range-frame:' + f.split('(')[0], False))
    return S


def run(rep):
    quick = rep.tier == 'quick'
    kinds = list(itertools.product([None, 1], [None, 1, 2], [None, 1, 2]))
    small = list(multisets(kinds, 2 if quick else 3, 1))
    rich = [
        [(1, 1, 1), (1, 1, 2), (1, 2, None), (1, None, 1), (1, 2, 2)],
        [(None, 1, 1), (None, 1, 1), (1, 1, None), (1, 2, 2), (1, None, None)],
        [(1, 2, 2), (1, 2, 1), (1, 2, None), (1, 2, 2), (1, 1, 1)],
        [(None, None, None), (None, None, 1), (1, None, 2), (1, 1, 2), (None, 2, 1)],
        [(1, 1, 1), (1, 2, 2), (1, 3, 1), (1, 4, 2), (1, 5, None)],
        [(1, 3, 2), (1, 1, 1), (None, 2, 2), (None, 2, 1), (1, 1, None)],
    ]
    tabs = rotate([list(m) for m in small] + rich, rep.seed)
    sp = specs(quick)
    units = []
    for rows in tabs:
        trows = [[i] + list(r) for i, r in enumerate(rows)]
        db = {'tables': [table('t', [['id', 'int64'], ['p', 'int64'], ['o', 'int64'], ['v', 'int64']], trows)]}
        st = []
        for (w, tag, approx) in sp:
            d = {'sql': 'SELECT id, %s AS w FROM t' % w, 'tag': tag, 'nontrivial': True, 'strict': True}
            if tag.startswith('range-frame') and ('1 PRECEDING' in w or '1 FOLLOWING' in w):
                # known finding: for a non-NULL current row an offset RANGE frame never contains the NULL-key rows
                f, over = w.split(' OVER ', 1)
                empty = '0' if f == 'COUNT(*)' else 'NULL'
                d['alts'] = {'range_offset_frame_excludes_null_keys':
                             'SELECT id, CASE WHEN o IS NULL THEN %s OVER %s WHEN COUNT(CASE WHEN o IS NOT NULL THEN 1 END) OVER %s = 0 THEN %s ELSE %s OVER %s END AS w FROM t'
                             % (f, over, over, empty, f, over)}
            if approx:
                d['approx'] = True
            st.append(d)
        # two windows in one SELECT and a named window
        st.append({'sql': 'SELECT id, ROW_NUMBER() OVER (PARTITION BY p ORDER BY o ASC NULLS LAST, id) AS a, SUM(v) OVER (ORDER BY id) AS b FROM t',
                   'tag': 'two-windows', 'nontrivial': True, 'strict': True})
        st.append({'sql': 'SELECT id, RANK() OVER w AS a, SUM(v) OVER w AS b FROM t WINDOW w AS (PARTITION BY p ORDER BY o DESC NULLS FIRST)',
                   'tag': 'named-window', 'nontrivial': True, 'strict': True})
        units.append({'db': db, 'stmts': st})
    rep.rule = ('tables: all multisets of 1..%d rows over (p in {NULL,1}, o in {NULL,1,2}, v in {NULL,1,2}) plus 6 five-row tables with ties and NULLs, each row with a unique id; '
                '%d window specifications: ranking / offset / value / aggregate functions x {no partition, PARTITION BY p} x ORDER BY o ASC|DESC NULLS FIRST|LAST (a unique last key where the '
                'function depends on row order, bare where ties are the point), no ORDER BY, every legal ROWS and RANGE frame from 5 bounds, two windows, a named window; oracle SQLite 3.40'
                % (2 if quick else 3, len(sp)))
    rep.extra['window_specs'] = len(sp)
    sqldiff.run(rep, units)


def replay(payload):
    return sqldiff.replay(payload)
