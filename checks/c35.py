"""C35 the SQL front door decides and encodes consistently."""
from vlib import native
LEVEL = 'exploration'
PACKAGES = ('qe-native',)


def run(rep):
    rep.rule = ('real serve nodes spawned in-process on ephemeral ports over generated Parquet tables (fact f with NULLs, commas, quotes, newlines, non-ASCII strings; dimension d; empty e). '
                '(A) every load outcome {held then ok, held then fail, fail}: while loading or after a failed load /healthz is 200, /readyz is not, POST /sql (every mode) and POST /fragment answer 503, a failed load reports its reason; '
                '(B) clusters of 1, 2 and 3 members up x mode {default, auto, 0, 1} x format {arrow, json, csv} x 11 statements: x-qe-distributed equals (mode, members up >= 2, plan_distributed accepts the shape), a local answer in auto/off mode carries a reason, '
                'x-qe-rows equals the row count, and the Arrow / JSON / CSV body decoded by an independent reader holds exactly the rows ctx.sql returns on that node; invalid parameters and statements are refused; (B2) every membership view of a node with two peers, each absent / discovered but never probed / up / down (16 views, set through the Membership API with discovery parked): the same decision and encoding oracle with members up = 1 + peers in state up; '
                '(C) peer alive but still loading, peer with other files, peer shut down: a distributable statement (auto and forced) must fail or - when discovery already dropped the peer - be decided before any fan-out; distributed=0 still answers')
    native.run(rep, 'c35')


def replay(payload):
    return native.replay_generic(payload)
