"""C31 every optimizer rule returns a well-formed plan (keeps output names/types, every reference resolves, no optimizer-internal error)."""
import itertools
from vlib import optdiff
from . import corpus
from .c03 import stats_shapes
from .common import table, F

LEVEL = 'exploration'


def run(rep):
    quick = rep.tier == 'quick'
    st = corpus.statements(1 if quick else 2)
    if quick:
        st = [s for i, s in enumerate(st) if i % 2 == rep.seed % 2]
    dirty = corpus.databases(1, 0)[-2]
    dirty_pq = {'tables': [dict(t, storage='parquet', rg=3) for t in dirty['tables']]}
    units = []
    for db in (dirty, dirty_pq):
        for i in range(0, len(st), 12):
            units.append({'db': db, 'stmts': st[i:i + 12]})
    prow = [[1, 1, F(0.5), 'a'], [1, 2, F(2.0), 'b'], [5, 1, F(1.5), 'a'], [None, 2, F(4.0), 'b']]
    qrow = [[1, 1, 1], [2, 2, 1], [5, 3, 2], [1, 2, 2], [None, 1, 1]]
    rrow = [[1, 10], [2, 20], [3, 0], [2, 21]]
    for kw in ({}, {'storage': 'parquet', 'rg': 2}):
        db = {'tables': [table('p', [['k', 'int64'], ['d', 'int64'], ['v', 'float64'], ['s', 'utf8']], prow, **kw),
                         table('q', [['k', 'int64'], ['w', 'int64'], ['d', 'int64']], qrow, **kw), table('r', [['w', 'int64'], ['z', 'int64']], rrow, **kw),
                         table('cust', [['c_id', 'int64'], ['c_name', 'utf8'], ['c_seg', 'int64']], [[1, 'ann', 7], [2, 'bob', 7], [3, 'cy', 8]], **kw),
                         table('ord', [['o_id', 'int64'], ['o_cust', 'int64'], ['o_amt', 'float64']], [[10, 1, F('1.0')], [11, 3, F('2.5')], [12, 3, F('2.5')], [13, 2, F('4.0')], [14, 1, F('0.5')]], **kw)]}
        sh = stats_shapes()
        for i in range(0, len(sh), 6):
            units.append({'db': db, 'stmts': sh[i:i + 6]})
    modes = [(r,) for r in optdiff.RULES] + ['prod']
    if not quick:
        modes += [(a, b) for a in optdiff.RULES for b in optdiff.RULES if a != b]
    rep.rule = ('bound plans of %d corpus statements and %d statistics-driven shapes, with table statistics (Parquet) and without (memory); each of the 14 rules alone and the production pipeline%s; '
                'oracle: when the unoptimized plan executes, the rewritten plan must plan and execute without Internal / ColumnNotFound / Plan / Bind / Type / Arrow errors or a panic, and its output '
                'columns must keep the unoptimized names (up to qualifier) and types; non-trivial = a rewritten plan that executed and returned rows'
                % (len(st), len(stats_shapes()), '' if quick else ', and every ordered pair of rules'))
    optdiff.run(rep, units, modes, 'wellformed')


def replay(payload):
    return optdiff.replay(payload)
