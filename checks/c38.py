"""C38 vector distance kernels."""
from vlib import native
LEVEL = 'exploration'


def run(rep):
    rep.rule = ('dimensions 1..40 and the 8-lane / power-of-two boundaries up to 1024 (quick) / every dimension 1..1024 (thorough) x 5 deterministic lane patterns over {-2,-1,0,0.5,1,3} '
                '(incl. the zero vector and one where only the last lane is non-zero) x batches of 1..4 rows with every NULL-row mask (NULL rows poisoned with NaN lanes) x slice offsets {0,1,3} '
                'x 5 query patterns x 4 distance kinds, query as literal and as a second column; d+-1 mismatches must be errors; oracle: f64 formula within 1e-5 relative; '
                'non-trivial = a case with at least one non-NULL row')
    rep.assumptions = ['cosine with a zero vector follows the code convention similarity = 0 (the formula is undefined there)']
    native.run(rep, 'c38')


def replay(payload):
    return native.replay_generic(payload)
