"""C24 set operations: Counter arithmetic over every pair of small inputs."""
from collections import Counter
from vlib import sqldiff
from vlib.enumr import multisets, rotate
from .common import table, chunks, F

LEVEL = 'exploration'


def ms(rows):
    return Counter(tuple(r) for r in rows)


def expand(c):
    out = []
    for k, n in c.items():
        out.extend([list(k)] * n)
    return out


def setop(op, allq, l, r):
    L, R = ms(l), ms(r)
    if op == 'UNION':
        c = L + R
    elif op == 'INTERSECT':
        c = L & R
    else:
        c = L - R
    if not allq:
        # DISTINCT form = support of: union -> any present; intersect -> in both; except -> in L and not in R
        if op == 'EXCEPT':
            c = Counter({k: 1 for k in L if k not in R})
        else:
            c = Counter({k: 1 for k in c})
    return expand(c)


def semijoin_model(op, allq, l, r):
    """the engine's lowering (D6): semi/anti join on '=' (NULL never matches), DISTINCT on top unless ALL."""
    def nn(k):
        return all(x is not None for x in k)
    R = ms(r)
    out = []
    for row in l:
        k = tuple(row)
        m = nn(k) and k in R
        if (op == 'INTERSECT' and m) or (op == 'EXCEPT' and not m):
            out.append(list(row))
    if not allq:
        out = expand(Counter({k: 1 for k in ms(out)}))
    return out


def run(rep):
    quick = rep.tier == 'quick'
    units = []
    dom = [None, 1, 2]
    sides1 = [[[v] for v in m] for m in multisets(dom, 3)]
    specs = [(1, sides1)]
    if not quick:
        dom2 = [(None, None), (None, 1), (1, None), (1, 1), (1, 2)]
        sides2 = [[list(v) for v in m] for m in multisets(dom2, 3)]
        specs.append((2, sides2))
    ops = [(o, a) for o in ('UNION', 'INTERSECT', 'EXCEPT') for a in (False, True)]
    for ncol, sides in specs:
        cols = [['x', 'int64']] + ([['y', 'int64']] if ncol == 2 else [])
        cl = 'x' if ncol == 1 else 'x, y'
        pairs = [(l, r) for l in sides for r in sides]
        pairs = rotate(pairs, rep.seed)
        for (l, r) in pairs:
            db = {'tables': [table('l', cols, l), table('r', cols, r), table('m', cols, [[1] * ncol, [None] * ncol])]}
            st = []
            for op, allq in ops:
                q = ' ALL' if allq else ''
                sql = 'SELECT %s FROM l %s%s SELECT %s FROM r' % (cl, op, q, cl)
                exp = setop(op, allq, l, r)
                s = {'sql': sql, 'expect_rows': exp, 'tag': op + q, 'nontrivial': len(l) + len(r) > 0}
                if not allq:
                    s['xref'] = sql
                if op != 'UNION':
                    alt = semijoin_model(op, allq, l, r)
                    s['alt_rows'] = {('intersect' if op == 'INTERSECT' else 'except') + '_as_semijoin_on_eq': alt}
                st.append(s)
                # ORDER BY + LIMIT on the result
                if ncol == 1:
                    s2 = dict(s)
                    s2['sql'] = sql + ' ORDER BY x NULLS FIRST LIMIT 2'
                    s2['order'] = [(0, False, True)]
                    s2['limit'] = 2
                    s2.pop('xref', None)
                    s2['tag'] += '+order+limit'
                    st.append(s2)
                # nested once on either side with table m
                for op2, all2 in ops:
                    q2 = ' ALL' if all2 else ''
                    mrows = db['tables'][2]['rows']
                    inner = setop(op, allq, l, r)
                    st.append({'sql': '(%s) %s%s SELECT %s FROM m' % (sql, op2, q2, cl),
                               'expect_rows': setop(op2, all2, inner, mrows), 'tag': 'nested-left',
                               'alt_rows': nested_alts(op, allq, op2, all2, l, r, mrows, True)})
                    if op in ('UNION', 'EXCEPT') and op2 in ('UNION', 'EXCEPT'):
                        # the same composition written as an unparenthesized chain (equal precedence, left-associative)
                        st.append({'sql': '%s %s%s SELECT %s FROM m' % (sql, op2, q2, cl), 'expect_rows': setop(op2, all2, inner, mrows), 'tag': 'chain',
                                   'alt_rows': nested_alts(op, allq, op2, all2, l, r, mrows, True)})
                    inner_r = setop(op, allq, r, l)
                    st.append({'sql': 'SELECT %s FROM m %s%s (SELECT %s FROM r %s%s SELECT %s FROM l)' % (cl, op2, q2, cl, op, q, cl),
                               'expect_rows': setop(op2, all2, mrows, inner_r), 'tag': 'nested-right',
                               'alt_rows': nested_alts(op, allq, op2, all2, r, l, mrows, False)})
            if ncol == 1:
                # branches of different numeric types (the result takes the common type; 1 and 1.0 are one value) and select lists that
                # repeat a column name (de-duplication is positional)
                fmap = {None: None, 1: F('1.0'), 2: F('1.5')}
                fr = [[fmap[v[0]]] for v in r]
                frv = [[None if v[0] is None else float(fmap[v[0]][1])] for v in r]
                db['tables'].append(table('fr', [['x', 'float64']], fr))
                for allq in (False, True):
                    q = ' ALL' if allq else ''
                    st.append({'sql': 'SELECT x FROM l UNION%s SELECT x FROM fr' % q, 'expect_rows': setop('UNION', allq, l, frv), 'tag': 'mixed-types', 'approx': True})
                    st.append({'sql': 'SELECT x FROM fr UNION%s SELECT x FROM l' % q, 'expect_rows': setop('UNION', allq, frv, l), 'tag': 'mixed-types', 'approx': True})
                    inc = lambda v: None if v is None else v + 1
                    ll = [[v[0], v[0]] for v in l]
                    rr = [[inc(v[0]), v[0]] for v in r]
                    st.append({'sql': 'SELECT x, x FROM l UNION%s SELECT x + 1, x FROM r' % q, 'expect_rows': setop('UNION', allq, ll, rr), 'tag': 'repeated-column-name'})
                    st.append({'sql': 'SELECT x AS c, x + 1 AS c FROM l UNION%s SELECT x, x FROM r' % q,
                               'expect_rows': setop('UNION', allq, [[v[0], inc(v[0])] for v in l], [[v[0], v[0]] for v in r]), 'tag': 'repeated-column-name'})
            units.append({'db': db, 'stmts': st})
            # the same inputs under a 1-byte memory limit: the de-duplicating aggregate (and the DISTINCT above INTERSECT / EXCEPT) takes its
            # hash-partitioned spill path, where equal rows -- NULL-bearing ones included -- must still meet in one partition
            top = [dict(x, tag=x['tag'] + '|spill') for x in st if x['tag'] in ('UNION', 'INTERSECT', 'EXCEPT', 'UNION ALL', 'INTERSECT ALL', 'EXCEPT ALL', 'nested-left', 'chain')]
            units.append({'db': dict(db, ctx={'mem_limit': 1}), 'stmts': top})
    rep.rule = ('all pairs of inputs with <= 3 rows over {NULL,1,2} (%s) x UNION/INTERSECT/EXCEPT x DISTINCT/ALL, with ORDER BY+LIMIT and '
                'nested once on either side with every second operator and quantifier (parenthesized, and as an unparenthesized chain for UNION/EXCEPT), UNION of BIGINT with DOUBLE branches, and select lists repeating a column name; oracle = Counter (multiset) arithmetic with NULLs not distinct, SQLite cross-checks the non-ALL forms; '
                'non-trivial = some input row exists' % ('1 column' if quick else '1 and 2 columns'))
    sqldiff.run(rep, units)


def model(op, allq, l, r, deviant):
    if deviant and op != 'UNION':
        return semijoin_model(op, allq, l, r)
    return setop(op, allq, l, r)


def nested_alts(op, allq, op2, all2, l, r, m, left):
    """deviant answers when either level uses the semijoin lowering."""
    out = {}
    for dev_in in (False, True):
        for dev_out in (False, True):
            if not dev_in and not dev_out:
                continue
            inner = model(op, allq, l, r, dev_in)
            res = model(op2, all2, inner, m, dev_out) if left else model(op2, all2, m, inner, dev_out)
            names = []
            if dev_in and op != 'UNION':
                names.append(op.lower())
            if dev_out and op2 != 'UNION':
                names.append(op2.lower())
            if not names:
                continue
            # attribute to the first deviating operator
            out[names[0] + '_as_semijoin_on_eq#%d%d' % (dev_in, dev_out)] = res
    return out


def replay(payload):
    return sqldiff.replay(payload)
