//! JSON <-> Arrow conversion for the driver protocol.
//!
//! Cell encoding (both directions):
//!   null -> null; bool -> true/false; integers -> JSON number;
//!   float -> ["f","<repr>"] where repr is Rust `{:?}` of the f64 (NaN, inf, -inf, -0.0 kept);
//!   string -> JSON string; date32 -> ["d","YYYY-MM-DD"]; anything else -> ["o","<type>","<display>"].

use arrow::array::*;
use arrow::datatypes::*;
use arrow::record_batch::RecordBatch;
use serde_json::{json, Value};
use std::sync::Arc;

pub fn parse_type(t: &str) -> Result<DataType, String> {
    Ok(match t {
        "int32" => DataType::Int32,
        "int64" => DataType::Int64,
        "float64" => DataType::Float64,
        "float32" => DataType::Float32,
        "utf8" => DataType::Utf8,
        "bool" => DataType::Boolean,
        "date32" => DataType::Date32,
        "ts_us" => DataType::Timestamp(TimeUnit::Microsecond, None),
        _ => {
            if let Some(d) = t.strip_prefix("vec") {
                let d: i32 = d.parse().map_err(|_| format!("bad type {t}"))?;
                DataType::FixedSizeList(Arc::new(Field::new("item", DataType::Float32, true)), d)
            } else {
                return Err(format!("bad type {t}"));
            }
        }
    })
}

pub fn type_name(t: &DataType) -> String {
    match t {
        DataType::Int32 => "int32".into(),
        DataType::Int64 => "int64".into(),
        DataType::Float64 => "float64".into(),
        DataType::Float32 => "float32".into(),
        DataType::Utf8 => "utf8".into(),
        DataType::Boolean => "bool".into(),
        DataType::Date32 => "date32".into(),
        other => format!("{other:?}"),
    }
}

fn parse_f64(v: &Value) -> Option<f64> {
    match v {
        Value::Number(n) => n.as_f64(),
        Value::Array(a) if a.len() == 2 && a[0] == "f" => a[1].as_str().and_then(|s| match s {
            "NaN" => Some(f64::NAN),
            "inf" => Some(f64::INFINITY),
            "-inf" => Some(f64::NEG_INFINITY),
            s => s.parse().ok(),
        }),
        _ => None,
    }
}

pub fn parse_date(s: &str) -> Option<i32> {
    // days since epoch, proleptic Gregorian
    let mut it = s.split('-');
    let (y, m, d): (i64, i64, i64) = (
        it.next()?.parse().ok()?,
        it.next()?.parse().ok()?,
        it.next()?.parse().ok()?,
    );
    let y2 = if m <= 2 { y - 1 } else { y };
    let era = if y2 >= 0 { y2 } else { y2 - 399 } / 400;
    let yoe = y2 - era * 400;
    let mp = (m + 9) % 12;
    let doy = (153 * mp + 2) / 5 + d - 1;
    let doe = yoe * 365 + yoe / 4 - yoe / 100 + doy;
    Some((era * 146097 + doe - 719468) as i32)
}

pub fn fmt_date(days: i32) -> String {
    let z = days as i64 + 719468;
    let era = if z >= 0 { z } else { z - 146096 } / 146097;
    let doe = z - era * 146097;
    let yoe = (doe - doe / 1460 + doe / 36524 - doe / 146096) / 365;
    let y = yoe + era * 400;
    let doy = doe - (365 * yoe + yoe / 4 - yoe / 100);
    let mp = (5 * doy + 2) / 153;
    let d = doy - (153 * mp + 2) / 5 + 1;
    let m = if mp < 10 { mp + 3 } else { mp - 9 };
    let y = if m <= 2 { y + 1 } else { y };
    format!("{y:04}-{m:02}-{d:02}")
}

/// Build one column from JSON cells.
pub fn build_array(dt: &DataType, cells: &[&Value]) -> Result<ArrayRef, String> {
    Ok(match dt {
        DataType::Int32 => Arc::new(Int32Array::from(
            cells.iter().map(|v| v.as_i64().map(|x| x as i32)).collect::<Vec<_>>(),
        )),
        DataType::Int64 => Arc::new(Int64Array::from(
            cells.iter().map(|v| v.as_i64()).collect::<Vec<_>>(),
        )),
        DataType::Float64 => Arc::new(Float64Array::from(
            cells.iter().map(|v| parse_f64(v)).collect::<Vec<_>>(),
        )),
        DataType::Float32 => Arc::new(Float32Array::from(
            cells.iter().map(|v| parse_f64(v).map(|x| x as f32)).collect::<Vec<_>>(),
        )),
        DataType::Utf8 => Arc::new(StringArray::from(
            cells.iter().map(|v| v.as_str()).collect::<Vec<_>>(),
        )),
        DataType::Boolean => Arc::new(BooleanArray::from(
            cells.iter().map(|v| v.as_bool()).collect::<Vec<_>>(),
        )),
        DataType::Date32 => Arc::new(Date32Array::from(
            cells
                .iter()
                .map(|v| match v {
                    Value::Array(a) if a.len() == 2 => a[1].as_str().and_then(parse_date),
                    Value::String(s) => parse_date(s),
                    Value::Number(n) => n.as_i64().map(|x| x as i32),
                    _ => None,
                })
                .collect::<Vec<_>>(),
        )),
        DataType::Timestamp(TimeUnit::Microsecond, None) => Arc::new(TimestampMicrosecondArray::from(
            cells.iter().map(|v| v.as_i64()).collect::<Vec<_>>(),
        )),
        DataType::FixedSizeList(f, d) => {
            let mut b = FixedSizeListBuilder::new(Float32Builder::new(), *d).with_field(f.clone());
            for c in cells {
                match c {
                    Value::Array(a) => {
                        for x in a {
                            match parse_f64(x) {
                                Some(v) => b.values().append_value(v as f32),
                                None => b.values().append_null(),
                            }
                        }
                        b.append(true);
                    }
                    _ => {
                        for _ in 0..*d {
                            b.values().append_null();
                        }
                        b.append(false);
                    }
                }
            }
            Arc::new(b.finish())
        }
        other => return Err(format!("unsupported type {other:?}")),
    })
}

/// rows: array of arrays; returns a batch of rows[lo..hi].
pub fn build_batch(schema: &SchemaRef, rows: &[Value], lo: usize, hi: usize) -> Result<RecordBatch, String> {
    let mut cols = Vec::new();
    let null = Value::Null;
    for (ci, f) in schema.fields().iter().enumerate() {
        let cells: Vec<&Value> = rows[lo..hi]
            .iter()
            .map(|r| r.as_array().and_then(|a| a.get(ci)).unwrap_or(&null))
            .collect();
        cols.push(build_array(f.data_type(), &cells)?);
    }
    if schema.fields().is_empty() {
        return RecordBatch::try_new_with_options(
            schema.clone(),
            vec![],
            &RecordBatchOptions::new().with_row_count(Some(hi - lo)),
        )
        .map_err(|e| e.to_string());
    }
    RecordBatch::try_new(schema.clone(), cols).map_err(|e| e.to_string())
}

pub fn f64_cell(x: f64) -> Value {
    json!(["f", format!("{x:?}")])
}

pub fn cell(arr: &dyn Array, i: usize) -> Value {
    if arr.is_null(i) {
        return Value::Null;
    }
    macro_rules! prim {
        ($t:ty) => {
            json!(arr.as_any().downcast_ref::<$t>().unwrap().value(i))
        };
    }
    match arr.data_type() {
        DataType::Null => Value::Null,
        DataType::Boolean => prim!(BooleanArray),
        DataType::Int8 => prim!(Int8Array),
        DataType::Int16 => prim!(Int16Array),
        DataType::Int32 => prim!(Int32Array),
        DataType::Int64 => prim!(Int64Array),
        DataType::UInt8 => prim!(UInt8Array),
        DataType::UInt16 => prim!(UInt16Array),
        DataType::UInt32 => prim!(UInt32Array),
        DataType::UInt64 => prim!(UInt64Array),
        DataType::Float32 => f64_cell(arr.as_any().downcast_ref::<Float32Array>().unwrap().value(i) as f64),
        DataType::Float64 => f64_cell(arr.as_any().downcast_ref::<Float64Array>().unwrap().value(i)),
        DataType::Utf8 => prim!(StringArray),
        DataType::LargeUtf8 => prim!(LargeStringArray),
        DataType::Utf8View => prim!(StringViewArray),
        DataType::Date32 => json!(["d", fmt_date(arr.as_any().downcast_ref::<Date32Array>().unwrap().value(i))]),
        DataType::Dictionary(_, _) => match arrow::compute::cast(arr, &dict_value_type(arr.data_type())) {
            Ok(a) => cell(a.as_ref(), i),
            Err(e) => json!(["o", "dict", e.to_string()]),
        },
        DataType::FixedSizeList(_, _) | DataType::List(_) => {
            let vals: ArrayRef = match arr.data_type() {
                DataType::FixedSizeList(_, _) => arr.as_any().downcast_ref::<FixedSizeListArray>().unwrap().value(i),
                _ => arr.as_any().downcast_ref::<ListArray>().unwrap().value(i),
            };
            Value::Array((0..vals.len()).map(|j| cell(vals.as_ref(), j)).collect())
        }
        other => {
            let s = arrow::util::display::array_value_to_string(arr, i).unwrap_or_else(|e| format!("<{e}>"));
            json!(["o", format!("{other:?}"), s])
        }
    }
}

fn dict_value_type(t: &DataType) -> DataType {
    match t {
        DataType::Dictionary(_, v) => (**v).clone(),
        o => o.clone(),
    }
}

pub fn schema_json(s: &Schema) -> Value {
    Value::Array(
        s.fields()
            .iter()
            .map(|f| json!([f.name(), type_name(f.data_type())]))
            .collect(),
    )
}

pub fn batches_rows(batches: &[RecordBatch]) -> Vec<Value> {
    let mut out = Vec::new();
    for b in batches {
        for i in 0..b.num_rows() {
            out.push(Value::Array(b.columns().iter().map(|c| cell(c.as_ref(), i)).collect()));
        }
    }
    out
}
