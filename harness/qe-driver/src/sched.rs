//! C07: poll-order explorer and partition contract.
//!
//! `sched`: the root partitions of a physical plan are driven by hand, one step at a time (a step is one
//! poll of `execute(p)` or one `poll_next` of partition p's stream, ending at a produced batch, at Pending or
//! at completion). At every step the explorer chooses which runnable partition moves next; all choice
//! sequences with at most `bound` preemptions are enumerated depth-first on a fresh plan each.
//! `contract`: every declared partition of every operator in the tree is executed once on a fresh plan.

use crate::{codec, err_json, Db};
use arrow::record_batch::RecordBatch;
use futures::stream::Stream;
use futures::StreamExt;
use query_engine::physical::PhysicalOperator;
use query_engine::QueryError;
use serde_json::{json, Value};
use std::collections::BTreeMap;
use std::future::Future;
use std::pin::Pin;
use std::sync::atomic::{AtomicBool, Ordering};
use std::sync::Arc;
use std::task::{Context, Poll, Wake, Waker};
use std::time::{Duration, Instant};

struct Flag(AtomicBool);
impl Wake for Flag {
    fn wake(self: Arc<Self>) {
        self.0.store(true, Ordering::SeqCst);
    }
    fn wake_by_ref(self: &Arc<Self>) {
        self.0.store(true, Ordering::SeqCst);
    }
}

type ExecFut = Pin<Box<dyn Future<Output = Result<query_engine::physical::RecordBatchStream, QueryError>> + Send>>;

enum St {
    Opening(ExecFut),
    Streaming(query_engine::physical::RecordBatchStream),
    Done,
}

struct Part {
    st: St,
    flag: Arc<Flag>,
    out: Vec<RecordBatch>,
}

struct Exec {
    choices: Vec<usize>,       // partition chosen at step i
    enabled: Vec<Vec<usize>>,  // runnable partitions at step i (canonical order: current first, then ascending)
    current_enabled: Vec<bool>,
    result: Result<Vec<RecordBatch>, String>,
    diverged: bool,
    deadlock: bool,
}

async fn run_one(physical: Arc<dyn PhysicalOperator>, prefix: &[usize], step_cap: usize) -> Exec {
    let n = physical.output_partitions().max(1);
    let mut parts: Vec<Part> = (0..n)
        .map(|p| {
            let ph = physical.clone();
            let fut: ExecFut = Box::pin(async move { ph.execute(p).await });
            Part { st: St::Opening(fut), flag: Arc::new(Flag(AtomicBool::new(true))), out: vec![] }
        })
        .collect();
    let mut ex = Exec { choices: vec![], enabled: vec![], current_enabled: vec![], result: Ok(vec![]), diverged: false, deadlock: false };
    let mut current: Option<usize> = None;
    let mut err: Option<String> = None;
    loop {
        if parts.iter().all(|p| matches!(p.st, St::Done)) {
            break;
        }
        if ex.choices.len() >= step_cap {
            err = Some("step cap".into());
            break;
        }
        // runnable = not finished and woken; wait for the environment (spawned tasks, blocking pool) when none is
        let t0 = Instant::now();
        let runnable = loop {
            let r: Vec<usize> = (0..n).filter(|&i| !matches!(parts[i].st, St::Done) && parts[i].flag.0.load(Ordering::SeqCst)).collect();
            if !r.is_empty() {
                break r;
            }
            if t0.elapsed() > Duration::from_secs(5) {
                break vec![];
            }
            tokio::task::yield_now().await;
            tokio::time::sleep(Duration::from_micros(200)).await;
        };
        if runnable.is_empty() {
            ex.deadlock = true;
            err = Some("no partition is runnable and not all are complete (5 s)".into());
            break;
        }
        let cur_en = current.map(|c| runnable.contains(&c)).unwrap_or(false);
        let mut canon: Vec<usize> = Vec::new();
        if cur_en {
            canon.push(current.unwrap());
        }
        for &r in &runnable {
            if Some(r) != current || !cur_en {
                if !canon.contains(&r) {
                    canon.push(r);
                }
            }
        }
        let step = ex.choices.len();
        let pick = if step < prefix.len() {
            let want = prefix[step];
            if !canon.contains(&want) {
                // the prescribed partition is not runnable here: wait for it, else report divergence
                let t1 = Instant::now();
                let mut ok = false;
                while t1.elapsed() < Duration::from_secs(2) {
                    if matches!(parts.get(want).map(|p| &p.st), Some(St::Done) | None) {
                        break;
                    }
                    if parts[want].flag.0.load(Ordering::SeqCst) {
                        ok = true;
                        break;
                    }
                    tokio::task::yield_now().await;
                    tokio::time::sleep(Duration::from_micros(200)).await;
                }
                if !ok {
                    ex.diverged = true;
                    err = Some("replay diverged".into());
                    break;
                }
            }
            want
        } else {
            canon[0]
        };
        ex.choices.push(pick);
        ex.enabled.push(canon);
        ex.current_enabled.push(cur_en);
        current = Some(pick);
        // one step of partition `pick`
        let part = &mut parts[pick];
        part.flag.0.store(false, Ordering::SeqCst);
        let waker = Waker::from(part.flag.clone());
        let mut cx = Context::from_waker(&waker);
        let mut st = std::mem::replace(&mut part.st, St::Done);
        st = match st {
            St::Opening(mut f) => match f.as_mut().poll(&mut cx) {
                Poll::Ready(Ok(s)) => {
                    part.flag.0.store(true, Ordering::SeqCst);
                    St::Streaming(s)
                }
                Poll::Ready(Err(e)) => {
                    err = Some(format!("partition {pick}: {e}"));
                    St::Done
                }
                Poll::Pending => St::Opening(f),
            },
            St::Streaming(mut s) => match Pin::new(&mut s).poll_next(&mut cx) {
                Poll::Ready(Some(Ok(b))) => {
                    part.out.push(b);
                    part.flag.0.store(true, Ordering::SeqCst);
                    St::Streaming(s)
                }
                Poll::Ready(Some(Err(e))) => {
                    err = Some(format!("partition {pick}: {e}"));
                    St::Done
                }
                Poll::Ready(None) => St::Done,
                Poll::Pending => St::Streaming(s),
            },
            St::Done => St::Done,
        };
        part.st = st;
        if err.is_some() {
            break;
        }
        tokio::task::yield_now().await;
    }
    ex.result = match err {
        Some(e) => Err(e),
        None => Ok(parts.into_iter().flat_map(|p| p.out).collect()),
    };
    ex
}

fn preemptions_before(ex: &Exec, i: usize) -> usize {
    (0..i).filter(|&j| ex.current_enabled[j] && ex.choices[j] != ex.enabled[j][0]).count()
}

pub async fn do_sched(db: &Db, req: &Value) -> Value {
    let sql = req["sql"].as_str().unwrap_or("");
    let bound = req["bound"].as_u64().unwrap_or(2) as usize;
    let max_sched = req["max_schedules"].as_u64().unwrap_or(2000) as usize;
    let fixed: Option<Vec<usize>> = req.get("schedule").and_then(|v| v.as_array()).map(|a| a.iter().map(|x| x.as_u64().unwrap_or(0) as usize).collect());
    let first = match db.ctx.physical_plan(sql) {
        Ok(p) => p,
        Err(e) => return err_json(&e),
    };
    let node = req["node"].as_u64().unwrap_or(0) as usize;
    let sub = |root: &Arc<dyn PhysicalOperator>| -> Option<Arc<dyn PhysicalOperator>> {
        let mut k = node;
        nth_node(root, &mut k)
    };
    let Some(first_node) = sub(&first) else {
        return json!({"ok": false, "err": "Driver", "msg": "no such node"});
    };
    let nparts = first_node.output_partitions().max(1);
    let mut names = Vec::new();
    crate::plan_names(&first_node, &mut names);
    drop(first_node);
    drop(first);
    let mut stack: Vec<Vec<usize>> = vec![fixed.clone().unwrap_or_default()];
    let mut outcomes: BTreeMap<String, (Value, usize, Vec<usize>)> = BTreeMap::new();
    let (mut schedules, mut diverged, mut max_steps, mut capped) = (0usize, 0usize, 0usize, false);
    let mut max_preempt = 0usize;
    while let Some(prefix) = stack.pop() {
        if schedules >= max_sched {
            capped = true;
            break;
        }
        let physical = match db.ctx.physical_plan(sql) {
            Ok(p) => p,
            Err(e) => return err_json(&e),
        };
        let Some(physical) = sub(&physical) else {
            return json!({"ok": false, "err": "Driver", "msg": "plan shape changed between two plans of one statement"});
        };
        let ex = run_one(physical, &prefix, 4000).await;
        if ex.diverged {
            diverged += 1;
            continue;
        }
        schedules += 1;
        max_steps = max_steps.max(ex.choices.len());
        max_preempt = max_preempt.max(preemptions_before(&ex, ex.choices.len()));
        let v = match &ex.result {
            Ok(b) => json!({"ok": true, "rows": codec::batches_rows(b)}),
            Err(e) => json!({"ok": false, "msg": e, "deadlock": ex.deadlock}),
        };
        let key = v.to_string();
        let e = outcomes.entry(key).or_insert((v, 0, ex.choices.clone()));
        e.1 += 1;
        if fixed.is_some() {
            break;
        }
        for i in prefix.len()..ex.choices.len() {
            let base = preemptions_before(&ex, i);
            for &alt in ex.enabled[i].iter().skip(1) {
                let cost = base + if ex.current_enabled[i] { 1 } else { 0 };
                if cost > bound {
                    continue;
                }
                let mut p = ex.choices[..i].to_vec();
                p.push(alt);
                stack.push(p);
            }
        }
    }
    let outs: Vec<Value> = outcomes
        .into_values()
        .map(|(v, n, s)| {
            let mut v = v;
            v["schedules"] = json!(n);
            v["example_schedule"] = json!(s);
            v
        })
        .collect();
    json!({"ok": true, "partitions": nparts, "plan": names, "schedules": schedules, "diverged": diverged, "max_steps": max_steps,
        "max_preemptions": max_preempt, "capped": capped, "bound": bound, "outcomes": outs})
}

fn count_nodes(op: &Arc<dyn PhysicalOperator>) -> usize {
    1 + op.children().iter().map(count_nodes).sum::<usize>()
}

fn nth_node(op: &Arc<dyn PhysicalOperator>, n: &mut usize) -> Option<Arc<dyn PhysicalOperator>> {
    if *n == 0 {
        return Some(op.clone());
    }
    *n -= 1;
    for c in op.children() {
        if let Some(x) = nth_node(&c, n) {
            return Some(x);
        }
    }
    None
}

/// every p < output_partitions() of every operator in the tree executes (fresh plan per call)
pub async fn do_contract(db: &Db, req: &Value) -> Value {
    let sql = req["sql"].as_str().unwrap_or("");
    let first = match db.ctx.physical_plan(sql) {
        Ok(p) => p,
        Err(e) => return err_json(&e),
    };
    let nodes = count_nodes(&first);
    let mut executed = 0usize;
    let mut multi = 0usize;
    let mut failures: Vec<Value> = Vec::new();
    let mut root_rows: Vec<RecordBatch> = Vec::new();
    for i in 0..nodes {
        let mut k = i;
        let decl = nth_node(&first, &mut k).map(|o| (o.output_partitions(), o.name().to_string())).unwrap();
        if decl.0 > 1 {
            multi += 1;
        }
        // one fresh plan per operator; its partitions are drained one after another on that instance
        let fresh = match db.ctx.physical_plan(sql) {
            Ok(x) => x,
            Err(e) => return err_json(&e),
        };
        let mut k = i;
        let node = nth_node(&fresh, &mut k).unwrap();
        if node.output_partitions() != decl.0 {
            failures.push(json!({"node": i, "op": decl.1, "why": "output_partitions() differs between two plans of the same statement"}));
            continue;
        }
        for p in 0..decl.0.max(1) {
            let r = async {
                let mut s = node.execute(p).await?;
                let mut v = Vec::new();
                while let Some(b) = s.next().await {
                    v.push(b?);
                }
                Ok::<_, QueryError>(v)
            }
            .await;
            executed += 1;
            match r {
                Ok(v) => {
                    if i == 0 {
                        root_rows.extend(v);
                    }
                }
                Err(e) => failures.push(json!({"node": i, "op": decl.1, "partition": p, "declared": decl.0, "why": e.to_string()})),
            }
        }
    }
    json!({"ok": true, "nodes": nodes, "multi_partition_nodes": multi, "executed": executed, "failures": failures,
        "root_partitions": first.output_partitions(), "rows": codec::batches_rows(&root_rows)})
}
