//! In-process distributed execution with an optional fault-injecting transport.

use crate::{codec, err_json, Db};
use query_engine::distributed::coordinator::{
    encode_ipc, execute_any_distributed, execute_fragment, FragmentRequest, FragmentTransport, Participant,
};
use query_engine::execution::ExecutionContext;
use query_engine::QueryError;
use serde_json::{json, Value};
use std::sync::{Arc, Mutex};

#[derive(Clone, Debug)]
pub struct Fault {
    pub table: Option<String>,
    pub shard: usize,
    pub kind: String,
    pub offset: usize,
}

pub struct InProc {
    pub peer: Arc<ExecutionContext>,
    pub faults: Vec<Fault>,
    pub log: Mutex<Vec<Value>>,
    pub want_payload: bool,
}

#[async_trait::async_trait]
impl FragmentTransport for InProc {
    async fn send(&self, address: &str, req: &FragmentRequest) -> query_engine::Result<(Vec<u8>, usize, f64)> {
        let fault = self
            .faults
            .iter()
            .find(|f| f.shard == req.shard_index && f.table.as_deref().map(|t| t == req.table).unwrap_or(true));
        let mut req2 = req.clone();
        if let Some(f) = fault {
            match f.kind.as_str() {
                "err" => {
                    return Err(QueryError::Execution(format!("connection refused: {address}")));
                }
                "http500" => {
                    return Err(QueryError::Execution(format!("peer {address} answered HTTP 500: boom")));
                }
                "digest" => {
                    req2.splits_digest ^= 1;
                }
                _ => {}
            }
        }
        let (r, _) = execute_fragment(&self.peer, &req2).await?;
        let mut bytes = encode_ipc(&r.schema, &r.batches)?;
        let mut entry = json!({"table": req.table, "shard": req.shard_index, "len": bytes.len(), "rows": r.row_count});
        if self.want_payload {
            entry["payload_hex"] = json!(bytes.iter().map(|b| format!("{b:02x}")).collect::<String>());
        }
        self.log.lock().unwrap().push(entry);
        if let Some(f) = fault {
            match f.kind.as_str() {
                "truncate" => bytes.truncate(f.offset.min(bytes.len())),
                "flip" => {
                    if f.offset < bytes.len() {
                        bytes[f.offset] ^= 0xFF;
                    }
                }
                "empty_ok" => bytes.clear(),
                "rows_plus_one" => return Ok((bytes, r.row_count + 1, 0.0)),
                _ => {}
            }
        }
        Ok((bytes, r.row_count, 0.0))
    }
}

pub fn peer_of(db: &Db) -> Result<ExecutionContext, QueryError> {
    let mut c = ExecutionContext::new();
    for (name, dir) in &db.parquet_tables {
        c.register_parquet(name.clone(), dir)?;
    }
    Ok(c)
}

pub async fn do_dist(db: &Db, req: &Value) -> Value {
    let sql = req["sql"].as_str().unwrap_or("");
    let n = req["n"].as_u64().unwrap_or(2) as usize;
    let self_pos = req["self_pos"].as_u64().unwrap_or(0) as usize;
    let peer = match peer_of(db) {
        Ok(p) => Arc::new(p),
        Err(e) => return err_json(&e),
    };
    let participants: Vec<Participant> = (0..n)
        .map(|i| Participant { node_id: i as u64, address: format!("127.0.0.1:{}", 17700 + i), is_self: i == self_pos })
        .collect();
    let faults: Vec<Fault> = req["faults"]
        .as_array()
        .cloned()
        .unwrap_or_default()
        .iter()
        .map(|f| Fault {
            table: f["table"].as_str().map(|s| s.to_string()),
            shard: f["shard"].as_u64().unwrap_or(0) as usize,
            kind: f["kind"].as_str().unwrap_or("").to_string(),
            offset: f["offset"].as_u64().unwrap_or(0) as usize,
        })
        .collect();
    let t = InProc { peer, faults, log: Mutex::new(vec![]), want_payload: req["want_payload"].as_bool().unwrap_or(false) };
    if req["gather_plan"].as_bool().unwrap_or(false) {
        return match query_engine::distributed::gather::plan_gather(&db.ctx, sql) {
            Ok(p) => json!({"ok": true, "gather": serde_json::to_value(&p).unwrap_or(Value::Null)}),
            Err(e) => err_json(&e),
        };
    }
    let r = execute_any_distributed(&db.ctx, sql, &participants, &t).await;
    let log = t.log.lock().unwrap().clone();
    match r {
        Ok(d) => {
            let mut bs: Vec<Value> = Vec::new();
            for b in &d.result.batches {
                let s = codec::schema_json(&b.schema());
                if !bs.contains(&s) {
                    bs.push(s);
                }
            }
            json!({"ok": true, "cols": codec::schema_json(&d.result.schema), "rows": codec::batches_rows(&d.result.batches),
                "batch_schemas": bs,
                "shape": format!("{:?}", d.distribution.shape), "shards": d.distribution.shard_count,
                "partial_sql": d.distribution.partial_sql, "final_sql": d.distribution.final_sql, "sends": log})
        }
        Err(e) => {
            let mut v = err_json(&e);
            v["sends"] = json!(log);
            v
        }
    }
}
