//! qe-driver: long-lived engine process speaking JSON lines on stdin/stdout.
//! One request per line, one reply per line. See /verif/DESIGN.md section 2.1.

mod codec;
mod dist;
mod sched;

use arrow::datatypes::{Field, Schema, SchemaRef};
use arrow::record_batch::RecordBatch;
use futures::TryStreamExt;
use query_engine::execution::{ExecutionConfig, ExecutionContext};
use query_engine::optimizer::{self, Optimizer, OptimizerRule};
use query_engine::physical::{PhysicalOperator, PhysicalPlanner};
use query_engine::QueryError;
use serde_json::{json, Value};
use std::collections::HashMap;
use std::io::{BufRead, Write};
use std::panic::{catch_unwind, AssertUnwindSafe};
use std::path::PathBuf;
use std::sync::{Arc, Mutex};

pub struct Db {
    pub ctx: ExecutionContext,
    pub dir: PathBuf,
    pub parquet_tables: Vec<(String, PathBuf)>,
}

static LAST_PANIC: Mutex<Option<String>> = Mutex::new(None);

pub fn err_class(e: &QueryError) -> &'static str {
    match e {
        QueryError::Parse(_) => "Parse",
        QueryError::Plan(_) => "Plan",
        QueryError::Bind(_) => "Bind",
        QueryError::Type(_) => "Type",
        QueryError::Execution(_) => "Execution",
        QueryError::Storage(_) => "Storage",
        QueryError::Io(_) => "Io",
        QueryError::Arrow(_) => "Arrow",
        QueryError::Parquet(_) => "Parquet",
        QueryError::TableNotFound(_) => "TableNotFound",
        QueryError::ColumnNotFound(_) => "ColumnNotFound",
        QueryError::InvalidArgument(_) => "InvalidArgument",
        QueryError::NotImplemented(_) => "NotImplemented",
        QueryError::Internal(_) => "Internal",
    }
}

pub fn err_json(e: &QueryError) -> Value {
    json!({"ok": false, "err": err_class(e), "msg": e.to_string()})
}

pub fn rule_by_name(name: &str, stats: &HashMap<String, query_engine::physical::TableStatistics>) -> Option<Arc<dyn OptimizerRule>> {
    use optimizer::*;
    let st = !stats.is_empty();
    Some(match name {
        "ConstantFolding" => Arc::new(ConstantFolding),
        "DeriveOrPredicates" => Arc::new(DeriveOrPredicates),
        "PredicatePushdown" => Arc::new(PredicatePushdown),
        "FlattenDependentJoin" => Arc::new(FlattenDependentJoin),
        "SubqueryDecorrelation" => Arc::new(SubqueryDecorrelation),
        "SemiJoinPushdown" => Arc::new(SemiJoinPushdown),
        "JoinReorder" => {
            if st {
                Arc::new(JoinReorder::with_table_statistics(stats.clone()))
            } else {
                Arc::new(JoinReorder::new())
            }
        }
        "HavingTotalCse" => Arc::new(HavingTotalCse),
        "GroupKeyReduction" => {
            if st {
                Arc::new(GroupKeyReduction::with_table_statistics(stats.clone()))
            } else {
                Arc::new(GroupKeyReduction::new())
            }
        }
        "EagerAggregation" => {
            if st {
                Arc::new(EagerAggregation::with_table_statistics(stats.clone()))
            } else {
                Arc::new(EagerAggregation::new())
            }
        }
        "PackedGroupKeys" => {
            if st {
                Arc::new(PackedGroupKeys::with_table_statistics(stats.clone()))
            } else {
                Arc::new(PackedGroupKeys::new())
            }
        }
        "PackedJoinKeys" => {
            if st {
                Arc::new(PackedJoinKeys::with_table_statistics(stats.clone()))
            } else {
                Arc::new(PackedJoinKeys::new())
            }
        }
        "ProjectionPushdown" => Arc::new(ProjectionPushdown),
        "VectorSearchPushdown" => Arc::new(VectorSearchPushdown),
        _ => return None,
    })
}

pub const PRODUCTION_RULES: &[&str] = &[
    "ConstantFolding",
    "DeriveOrPredicates",
    "PredicatePushdown",
    "FlattenDependentJoin",
    "SubqueryDecorrelation",
    "SemiJoinPushdown",
    "JoinReorder",
    "PredicatePushdown",
    "HavingTotalCse",
    "GroupKeyReduction",
    "EagerAggregation",
    "PackedGroupKeys",
    "PackedJoinKeys",
    "ProjectionPushdown",
    "VectorSearchPushdown",
];

pub fn table_stats(ctx: &ExecutionContext) -> HashMap<String, query_engine::physical::TableStatistics> {
    let mut m = HashMap::new();
    for n in ctx.table_names() {
        if let Some(p) = ctx.table_provider(&n) {
            if let Some(s) = p.statistics() {
                m.insert(n, s);
            }
        }
    }
    m
}

pub fn plan_names(op: &Arc<dyn PhysicalOperator>, out: &mut Vec<String>) {
    out.push(op.name().to_string());
    for c in op.children() {
        plan_names(&c, out);
    }
}

pub fn logical_json(p: &query_engine::planner::LogicalPlan) -> Value {
    use query_engine::planner::LogicalPlan as L;
    let kids: Vec<Value> = p.children().iter().map(|c| logical_json(c)).collect();
    let mut v = match p {
        L::Scan(s) => json!({"op": "Scan", "table": s.table_name, "filter": s.filter.as_ref().map(|f| f.to_string())}),
        L::Filter(f) => json!({"op": "Filter", "predicate": f.predicate.to_string()}),
        L::Join(j) => json!({"op": "Join", "join_type": format!("{:?}", j.join_type),
            "on": j.on.iter().map(|(l, r)| json!([l.to_string(), r.to_string()])).collect::<Vec<_>>(),
            "filter": j.filter.as_ref().map(|f| f.to_string())}),
        L::Project(_) => json!({"op": "Project"}),
        L::Aggregate(_) => json!({"op": "Aggregate"}),
        L::Sort(_) => json!({"op": "Sort"}),
        L::Limit(_) => json!({"op": "Limit"}),
        L::Distinct(_) => json!({"op": "Distinct"}),
        L::Union(_) => json!({"op": "Union"}),
        L::SubqueryAlias(a) => json!({"op": "SubqueryAlias", "alias": a.alias}),
        other => json!({"op": format!("{other:?}").split(['(', ' ', '{']).next().unwrap_or("?").to_string()}),
    };
    v["children"] = json!(kids);
    v
}

pub fn make_planner(ctx: &ExecutionContext) -> PhysicalPlanner {
    let mut planner = PhysicalPlanner::with_config(ctx.memory_pool().clone(), ctx.config().clone());
    for n in ctx.table_names() {
        if let Some(p) = ctx.table_provider(&n) {
            planner.register_table(n, p);
        }
    }
    planner.enable_subquery_execution();
    planner
}

pub async fn run_physical(physical: &Arc<dyn PhysicalOperator>) -> Result<Vec<RecordBatch>, QueryError> {
    let n = physical.output_partitions().max(1);
    let futs: Vec<_> = (0..n)
        .map(|p| {
            let ph = physical.clone();
            async move {
                let s = ph.execute(p).await?;
                let v: Vec<RecordBatch> = s.try_collect().await?;
                Ok::<_, QueryError>(v)
            }
        })
        .collect();
    let mut all = Vec::new();
    for r in futures::future::join_all(futs).await {
        all.extend(r?);
    }
    Ok(all)
}

fn result_json(schema: &Schema, batches: &[RecordBatch], plan: Option<Vec<String>>) -> Value {
    let mut bs: Vec<Value> = Vec::new();
    for b in batches {
        let s = codec::schema_json(&b.schema());
        if !bs.contains(&s) {
            bs.push(s);
        }
    }
    let mut v = json!({"ok": true, "cols": codec::schema_json(schema), "rows": codec::batches_rows(batches), "batch_schemas": bs});
    if let Some(p) = plan {
        v["plan"] = json!(p);
    }
    v
}

/// mode: prod (ctx.sql), noopt (bind -> physical), rules (bind -> listed rules -> physical)
async fn do_sql(db: &Db, req: &Value) -> Value {
    let sql = req["sql"].as_str().unwrap_or("");
    let mode = req["mode"].as_str().unwrap_or("prod");
    let want_plan = req["plan"].as_bool().unwrap_or(false);
    match mode {
        "prod" => {
            let mut plan_schema: Option<Value> = None;
            let plan = if want_plan {
                match db.ctx.physical_plan(sql) {
                    Ok(p) => {
                        let mut v = Vec::new();
                        plan_names(&p, &mut v);
                        plan_schema = Some(codec::schema_json(&p.schema()));
                        Some(v)
                    }
                    Err(_) => None,
                }
            } else {
                None
            };
            match db.ctx.sql(sql).await {
                Ok(r) => {
                    let mut v = result_json(&r.schema, &r.batches, plan);
                    if let Some(ps) = plan_schema {
                        v["plan_schema"] = ps;
                    }
                    v["spilled"] = json!(r.metrics.spill_metrics.as_ref().map(|m| m.bytes_spilled).unwrap_or(0));
                    v
                }
                Err(e) => err_json(&e),
            }
        }
        "noopt" | "rules" => {
            let logical = match db.ctx.logical_plan(sql) {
                Ok(l) => l,
                Err(e) => return err_json(&e),
            };
            let use_stats = req["stats"].as_bool().unwrap_or(true);
            let stats = if use_stats { table_stats(&db.ctx) } else { HashMap::new() };
            let optimized = if mode == "rules" {
                let mut rules: Vec<Arc<dyn OptimizerRule>> = Vec::new();
                for r in req["rules"].as_array().cloned().unwrap_or_default() {
                    match rule_by_name(r.as_str().unwrap_or(""), &stats) {
                        Some(x) => rules.push(x),
                        None => return json!({"ok": false, "err": "Driver", "msg": format!("unknown rule {r}")}),
                    }
                }
                match Optimizer::with_rules(rules).optimize(logical) {
                    Ok(o) => o,
                    Err(e) => {
                        let mut v = err_json(&e);
                        v["stage"] = json!("optimize");
                        return v;
                    }
                }
            } else {
                logical
            };
            let planner = make_planner(&db.ctx);
            let physical = match planner.create_physical_plan(&optimized) {
                Ok(p) => p,
                Err(e) => {
                    let mut v = err_json(&e);
                    v["stage"] = json!("physical");
                    return v;
                }
            };
            let plan = if want_plan {
                let mut v = Vec::new();
                plan_names(&physical, &mut v);
                Some(v)
            } else {
                None
            };
            match run_physical(&physical).await {
                Ok(b) => result_json(&physical.schema(), &b, plan),
                Err(e) => err_json(&e),
            }
        }
        _ => json!({"ok": false, "err": "Driver", "msg": "bad mode"}),
    }
}

fn write_parquet(path: &PathBuf, schema: &SchemaRef, batches: &[RecordBatch], rg: usize) -> Result<(), String> {
    write_parquet_opt(path, schema, batches, rg, true)
}

fn write_parquet_opt(path: &PathBuf, schema: &SchemaRef, batches: &[RecordBatch], rg: usize, dict: bool) -> Result<(), String> {
    use parquet::arrow::ArrowWriter;
    use parquet::file::properties::{EnabledStatistics, WriterProperties};
    let f = std::fs::File::create(path).map_err(|e| e.to_string())?;
    let props = WriterProperties::builder()
        .set_max_row_group_row_count(Some(rg.max(1)))
        .set_statistics_enabled(EnabledStatistics::Chunk)
        .set_dictionary_enabled(dict)
        .build();
    let mut w = ArrowWriter::try_new(f, schema.clone(), Some(props)).map_err(|e| e.to_string())?;
    for b in batches {
        w.write(b).map_err(|e| e.to_string())?;
    }
    w.close().map_err(|e| e.to_string())?;
    Ok(())
}

fn do_reg(db: &mut Db, req: &Value) -> Result<Value, String> {
    let table = req["table"].as_str().ok_or("table")?.to_string();
    let cols = req["cols"].as_array().ok_or("cols")?;
    let mut fields = Vec::new();
    for c in cols {
        let name = c[0].as_str().ok_or("col name")?;
        let ty = codec::parse_type(c[1].as_str().ok_or("col type")?)?;
        let nullable = c.get(2).and_then(|v| v.as_bool()).unwrap_or(true);
        fields.push(Field::new(name, ty, nullable));
    }
    let schema: SchemaRef = Arc::new(Schema::new(fields));
    let rows = req["rows"].as_array().ok_or("rows")?;
    let n = rows.len();
    // replicate: repeat all rows m times (reference does the same)
    let storage = req["storage"].as_str().unwrap_or("mem");
    let parts: Vec<usize> = match req.get("batches").and_then(|v| v.as_array()) {
        Some(a) => a.iter().map(|x| x.as_u64().unwrap_or(0) as usize).collect(),
        None => vec![n],
    };
    if parts.iter().sum::<usize>() != n {
        return Err(format!("batches sum {} != rows {}", parts.iter().sum::<usize>(), n));
    }
    let mut lo = 0;
    let mut batches = Vec::new();
    for p in &parts {
        batches.push(codec::build_batch(&schema, rows, lo, lo + p)?);
        lo += p;
    }
    match storage {
        "mem" => {
            db.ctx.register_table(table, schema, batches);
        }
        "parquet" => {
            // each "batch" becomes one file; rg = max row group size
            let rg = req["rg"].as_u64().unwrap_or(1 << 20) as usize;
            let dir = db.dir.join(&table);
            let _ = std::fs::remove_dir_all(&dir);
            std::fs::create_dir_all(&dir).map_err(|e| e.to_string())?;
            for (i, b) in batches.iter().enumerate() {
                let p = dir.join(format!("part-{i:03}.parquet"));
                write_parquet(&p, &schema, std::slice::from_ref(b), rg)?;
            }
            db.ctx.register_parquet(table.clone(), &dir).map_err(|e| e.to_string())?;
            db.parquet_tables.push((table, dir));
        }
        _ => return Err("bad storage".into()),
    }
    Ok(json!({"ok": true}))
}

fn new_ctx(req: &Value) -> ExecutionContext {
    let mut ctx = if let Some(m) = req.get("mem_limit").and_then(|v| v.as_u64()) {
        let mut cfg = ExecutionConfig::default();
        cfg.memory_limit = m as usize;
        // every driver process gets a private spill directory: the engine's spill ids are per process,
        // so two drivers sharing the default path would collide (a harness artefact, not a verdict)
        cfg.spill_path = match req.get("spill_path").and_then(|v| v.as_str()) {
            Some(p) => PathBuf::from(p),
            None => PathBuf::from(std::env::var("QE_WORK").unwrap_or_else(|_| "/verif/work/driver".into()))
                .join(format!("spill-{}", std::process::id())),
        };
        if let Some(p) = req.get("spill_partitions").and_then(|v| v.as_u64()) {
            cfg.spill_partitions = p as usize;
        }
        ExecutionContext::with_config(cfg)
    } else {
        ExecutionContext::new()
    };
    if let Some(p) = req.get("partitions").and_then(|v| v.as_u64()) {
        ctx = ctx.with_parallel_partitions(p as usize);
    }
    ctx
}

fn main() {
    std::panic::set_hook(Box::new(|info| {
        let msg = format!("{info}");
        *LAST_PANIC.lock().unwrap() = Some(msg);
    }));
    let work = PathBuf::from(std::env::var("QE_WORK").unwrap_or_else(|_| "/verif/work/driver".into()));
    let _ = std::fs::create_dir_all(&work);
    let rt = tokio::runtime::Builder::new_multi_thread()
        .worker_threads(
            std::env::var("QE_DRIVER_TOKIO_THREADS")
                .ok()
                .and_then(|s| s.parse().ok())
                .unwrap_or(2),
        )
        .enable_all()
        .build()
        .unwrap();
    let mut dbs: HashMap<String, Db> = HashMap::new();
    let stdin = std::io::stdin();
    let stdout = std::io::stdout();
    let mut out = std::io::BufWriter::new(stdout.lock());
    for line in stdin.lock().lines() {
        let line = match line {
            Ok(l) => l,
            Err(_) => break,
        };
        if line.trim().is_empty() {
            continue;
        }
        let req: Value = match serde_json::from_str(&line) {
            Ok(v) => v,
            Err(e) => {
                writeln!(out, "{}", json!({"ok": false, "err": "Driver", "msg": e.to_string()})).unwrap();
                out.flush().unwrap();
                continue;
            }
        };
        let op = req["op"].as_str().unwrap_or("").to_string();
        let dbname = req["db"].as_str().unwrap_or("").to_string();
        let reply = catch_unwind(AssertUnwindSafe(|| -> Value {
            match op.as_str() {
                "ping" => json!({"ok": true, "pid": std::process::id()}),
                "newdb" => {
                    let dir = work.join(format!("db-{}-{}", std::process::id(), dbname));
                    let _ = std::fs::remove_dir_all(&dir);
                    let _ = std::fs::create_dir_all(&dir);
                    if let Some(old) = dbs.insert(dbname.clone(), Db { ctx: new_ctx(&req), dir, parquet_tables: vec![] }) {
                        if old.dir != dbs[&dbname].dir {
                            let _ = std::fs::remove_dir_all(&old.dir);
                        }
                    }
                    json!({"ok": true})
                }
                "dropdb" => {
                    if let Some(d) = dbs.remove(&dbname) {
                        let _ = std::fs::remove_dir_all(&d.dir);
                    }
                    json!({"ok": true})
                }
                "reg" => match dbs.get_mut(&dbname) {
                    Some(db) => match do_reg(db, &req) {
                        Ok(v) => v,
                        Err(e) => json!({"ok": false, "err": "Driver", "msg": e}),
                    },
                    None => json!({"ok": false, "err": "Driver", "msg": "no db"}),
                },
                "sql" => match dbs.get(&dbname) {
                    Some(db) => rt.block_on(do_sql(db, &req)),
                    None => json!({"ok": false, "err": "Driver", "msg": "no db"}),
                },
                "pq_write" => (|| -> Result<Value, String> {
                    // write one Parquet file at an absolute path (C19: rewriting a registered file)
                    let path = PathBuf::from(req["path"].as_str().ok_or("path")?);
                    if let Some(parent) = path.parent() {
                        std::fs::create_dir_all(parent).map_err(|e| e.to_string())?;
                    }
                    let mut fields = Vec::new();
                    for c in req["cols"].as_array().ok_or("cols")? {
                        fields.push(Field::new(c[0].as_str().ok_or("col name")?, codec::parse_type(c[1].as_str().ok_or("col type")?)?, true));
                    }
                    let schema: SchemaRef = Arc::new(Schema::new(fields));
                    let rows = req["rows"].as_array().ok_or("rows")?;
                    let b = codec::build_batch(&schema, rows, 0, rows.len())?;
                    write_parquet_opt(&path, &schema, std::slice::from_ref(&b), req["rg"].as_u64().unwrap_or(1 << 20) as usize, req["dict"].as_bool().unwrap_or(true))?;
                    let len = std::fs::metadata(&path).map_err(|e| e.to_string())?.len();
                    Ok(json!({"ok": true, "len": len}))
                })()
                .unwrap_or_else(|e| json!({"ok": false, "err": "Driver", "msg": e})),
                "reg_path" => match dbs.get_mut(&dbname) {
                    Some(db) => match db.ctx.register_parquet(req["table"].as_str().unwrap_or("t").to_string(), &PathBuf::from(req["path"].as_str().unwrap_or(""))) {
                        Ok(_) => json!({"ok": true}),
                        Err(e) => err_json(&e),
                    },
                    None => json!({"ok": false, "err": "Driver", "msg": "no db"}),
                },
                "optplan" => match dbs.get(&dbname) {
                    // the optimized (or bound) LOGICAL plan as a JSON tree: joins with type / on / filter, scans, filters (C32)
                    Some(db) => {
                        let sql = req["sql"].as_str().unwrap_or("");
                        let r = if req["bound"].as_bool().unwrap_or(false) { db.ctx.logical_plan(sql) } else { db.ctx.optimized_plan(sql) };
                        match r {
                            Ok(p) => json!({"ok": true, "plan": logical_json(&p)}),
                            Err(e) => err_json(&e),
                        }
                    }
                    None => json!({"ok": false, "err": "Driver", "msg": "no db"}),
                },
                "sched" => match dbs.get(&dbname) {
                    Some(db) => {
                        // current-thread runtime: spawned engine tasks only move when the explorer yields
                        let crt = tokio::runtime::Builder::new_current_thread().enable_all().build().unwrap();
                        crt.block_on(sched::do_sched(db, &req))
                    }
                    None => json!({"ok": false, "err": "Driver", "msg": "no db"}),
                },
                "contract" => match dbs.get(&dbname) {
                    Some(db) => rt.block_on(sched::do_contract(db, &req)),
                    None => json!({"ok": false, "err": "Driver", "msg": "no db"}),
                },
                "hooks" => {
                    // verification gate overrides (feature `verif`): null clears
                    use query_engine::verif_hooks as vh;
                    let get = |k: &str| req.get(k).and_then(|v| v.as_u64());
                    if req.get("force_streaming").is_some() {
                        vh::FORCE_STREAMING_SCAN.set(get("force_streaming"));
                    }
                    if req.get("prescan_max").is_some() {
                        vh::PRESCAN_MAX_BYTES.set(get("prescan_max"));
                    }
                    if req.get("dense_range_min").is_some() {
                        vh::DENSE_RANGE_MIN.set(get("dense_range_min"));
                    }
                    if req.get("mem_partition_min_rows").is_some() {
                        vh::MEM_PARTITION_MIN_ROWS.set(get("mem_partition_min_rows"));
                    }
                    json!({"ok": true})
                }
                "sql_many" => match dbs.get(&dbname) {
                    Some(db) => {
                        // outcome classes only (C29): "ok:<rows>", "E:<class>", "PANIC:<msg>"
                        let mut res: Vec<Value> = Vec::new();
                        for q in req["sqls"].as_array().cloned().unwrap_or_default() {
                            let sql = q.as_str().unwrap_or("").to_string();
                            let t0 = std::time::Instant::now();
                            let r = catch_unwind(AssertUnwindSafe(|| rt.block_on(db.ctx.sql(&sql))));
                            let ms = t0.elapsed().as_millis() as u64;
                            res.push(match r {
                                Ok(Ok(qr)) => json!([format!("ok:{}", qr.row_count), ms]),
                                Ok(Err(e)) => json!([format!("E:{}", err_class(&e)), ms]),
                                Err(_) => json!([format!("PANIC:{}", LAST_PANIC.lock().unwrap().take().unwrap_or_default()), ms]),
                            });
                        }
                        json!({"ok": true, "res": res})
                    }
                    None => json!({"ok": false, "err": "Driver", "msg": "no db"}),
                },
                "dist" => match dbs.get(&dbname) {
                    Some(db) => rt.block_on(dist::do_dist(db, &req)),
                    None => json!({"ok": false, "err": "Driver", "msg": "no db"}),
                },
                "quit" => std::process::exit(0),
                _ => json!({"ok": false, "err": "Driver", "msg": format!("unknown op {op}")}),
            }
        }));
        let reply = match reply {
            Ok(v) => v,
            Err(_) => {
                let msg = LAST_PANIC.lock().unwrap().take().unwrap_or_default();
                json!({"ok": false, "err": "Panic", "msg": msg})
            }
        };
        writeln!(out, "{}", reply).unwrap();
        out.flush().unwrap();
    }
    for (_, d) in dbs.drain() {
        let _ = std::fs::remove_dir_all(&d.dir);
    }
}
