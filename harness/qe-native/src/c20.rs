//! C20: IPC sidecars are safe to build concurrently — controlled-scheduler exploration of the real
//! ensure_sidecar / build_sidecar / read_row_group over a real directory.
//!
//! Virtual processes run as OS threads (hook H4: own virtual pid => own staging name, no shared build lock,
//! own QE_IPC_CACHE mode). Every hook point (placed before each operation on shared file-system state) blocks the
//! calling thread until the explorer grants it, so exactly one virtual process moves at a time. All choice
//! sequences up to a preemption bound are enumerated depth-first, each on a fresh directory.
use crate::out::{fnv, Out};
use arrow::array::{Array, ArrayRef, Int64Array, StringArray};
use arrow::datatypes::{DataType, Field, Schema};
use arrow::record_batch::RecordBatch;
use parquet::arrow::ArrowWriter;
use parquet::file::properties::WriterProperties;
use query_engine::execution::ExecutionContext;
use query_engine::storage::ipc_cache;
use query_engine::verif_hooks as vh;
use serde_json::{json, Value};
use std::cell::Cell;
use std::collections::BTreeMap;
use std::path::{Path, PathBuf};
use std::sync::{Arc, Condvar, Mutex};
use std::time::{Duration, Instant};

thread_local! {
    static MY_ID: Cell<Option<usize>> = const { Cell::new(None) };
}

#[derive(Clone, Debug, PartialEq)]
enum TState {
    Running,          // between points (or not started)
    AtPoint(String),  // parked in the callback
    Finished,
}

struct Sched {
    st: Mutex<SchedState>,
    cv: Condvar,
}

struct SchedState {
    threads: Vec<TState>,
    granted: Option<usize>,
}

impl Sched {
    fn new(n: usize) -> Arc<Sched> {
        Arc::new(Sched { st: Mutex::new(SchedState { threads: vec![TState::Running; n], granted: None }), cv: Condvar::new() })
    }
    /// called by a virtual process at a hook point
    fn at_point(&self, id: usize, label: &str) {
        let mut g = self.st.lock().unwrap();
        g.threads[id] = TState::AtPoint(label.to_string());
        self.cv.notify_all();
        while g.granted != Some(id) {
            g = self.cv.wait(g).unwrap();
        }
        g.granted = None;
        g.threads[id] = TState::Running;
        self.cv.notify_all();
    }
    fn finish(&self, id: usize) {
        let mut g = self.st.lock().unwrap();
        g.threads[id] = TState::Finished;
        self.cv.notify_all();
    }
}

#[derive(Clone, Copy, Debug, PartialEq)]
enum Role {
    Builder,       // QE_IPC_CACHE=1, own pid
    Reader,        // auto mode, own pid
    BuilderShared, // QE_IPC_CACHE=1, same OS process as the other shared builders (real BUILD_LOCK)
}

fn schema() -> Arc<Schema> {
    Arc::new(Schema::new(vec![Field::new("k", DataType::Int64, true), Field::new("s", DataType::Utf8, true)]))
}

fn content(which: u8) -> RecordBatch {
    let (k, s): (Vec<Option<i64>>, Vec<Option<&str>>) = if which == 0 {
        (vec![Some(1), Some(2), None, Some(4)], vec![Some("a"), None, Some("a"), Some("b")])
    } else {
        (vec![Some(7), Some(8), Some(9), None], vec![Some("x"), Some("y"), None, Some("x")])
    };
    RecordBatch::try_new(schema(), vec![Arc::new(Int64Array::from(k)) as ArrayRef, Arc::new(StringArray::from(s))]).unwrap()
}

fn write_parquet(path: &Path, b: &RecordBatch) {
    let props = WriterProperties::builder().set_max_row_group_row_count(Some(2)).build();
    let f = std::fs::File::create(path).unwrap();
    let mut w = ArrowWriter::try_new(f, schema(), Some(props)).unwrap();
    w.write(b).unwrap();
    w.close().unwrap();
}

fn rows_of(batches: &[RecordBatch]) -> Vec<String> {
    let mut v = Vec::new();
    for b in batches {
        for r in 0..b.num_rows() {
            let mut s = String::new();
            for c in b.columns() {
                let c = if let DataType::Dictionary(_, _) = c.data_type() { arrow::compute::cast(c, &DataType::Utf8).unwrap() } else { c.clone() };
                if c.is_null(r) {
                    s.push_str("N|");
                } else {
                    s.push_str(&arrow::util::display::array_value_to_string(c.as_ref(), r).unwrap_or_default());
                    s.push('|');
                }
            }
            v.push(s);
        }
    }
    v
}

/// what one virtual process observed
#[derive(Debug, Clone)]
enum Obs {
    Fallback,              // ensure_sidecar returned None: the engine reads Parquet
    Rows(Vec<String>),     // rows read through the sidecar
    ReadError(String),     // read_row_group failed: the query fails
}

fn actor(role: Role, id: usize, sched: Arc<Sched>, pq: PathBuf, n_rg: usize) -> Obs {
    let _ = n_rg;
    // The engine reads the row groups of a scan on the rayon pool it runs in. Each virtual process gets a private one-worker pool whose
    // worker carries the process identity (hook points, virtual pid, QE_IPC_CACHE mode), and the whole scan runs on that worker.
    let pool = rayon::ThreadPoolBuilder::new()
        .num_threads(1)
        .start_handler(move |_| {
            MY_ID.with(|c| c.set(Some(id)));
            match role {
                Role::Builder => {
                    vh::set_virtual_pid(Some(1000 + id as u32));
                    vh::set_thread_ipc_mode(Some(1));
                }
                Role::Reader => {
                    vh::set_virtual_pid(Some(1000 + id as u32));
                    vh::set_thread_ipc_mode(Some(2));
                }
                Role::BuilderShared => {
                    vh::set_virtual_pid(None);
                    vh::set_thread_ipc_mode(Some(1));
                }
            }
        })
        .build()
        .expect("private pool");
    // through the engine's own caller (ParquetTable::scan -> read_file -> ensure_sidecar / read_row_group with its Parquet fallback)
    let obs = pool.install(|| {
        let mut ctx = ExecutionContext::new();
        match ctx.register_parquet("t", &pq) {
            Err(e) => Obs::ReadError(format!("register: {e}")),
            Ok(_) => match ctx.table_provider("t").map(|p| p.scan(None)) {
                Some(Ok(b)) => Obs::Rows(rows_of(&b)),
                Some(Err(e)) => Obs::ReadError(e.to_string()),
                None => Obs::ReadError("no provider".into()),
            },
        }
    });
    drop(pool);
    sched.finish(id);
    obs
}

struct Exec {
    choices: Vec<usize>,
    enabled: Vec<Vec<usize>>,
    cur_enabled: Vec<bool>,
    labels: Vec<String>,
    obs: Vec<Obs>,
    stuck: bool,
    diverged: bool,
}

#[derive(Clone, Copy, PartialEq, Debug)]
enum Start {
    Cold,       // no sidecar
    WarmFresh,  // a fresh sidecar exists
    WarmStale,  // a sidecar for replaced content exists
}

fn run_one(roles: &[Role], start: Start, dir: &Path, prefix: &[usize]) -> (Exec, Value) {
    let _ = std::fs::remove_dir_all(dir);
    std::fs::create_dir_all(dir).unwrap();
    let pq = dir.join("t.parquet");
    // set-up (uncontrolled: no callback installed yet)
    vh::set_point_callback(None);
    if start == Start::WarmStale {
        write_parquet(&pq, &content(1));
        vh::set_virtual_pid(Some(999));
        vh::set_thread_ipc_mode(Some(1));
        let _ = ipc_cache::ensure_sidecar(&pq);
        std::thread::sleep(Duration::from_millis(2));
    }
    write_parquet(&pq, &content(0));
    if start == Start::WarmFresh {
        vh::set_virtual_pid(Some(999));
        vh::set_thread_ipc_mode(Some(1));
        let _ = ipc_cache::ensure_sidecar(&pq);
    }
    vh::set_virtual_pid(None);
    vh::set_thread_ipc_mode(None);
    let want = rows_of(&[content(0)]);
    let n = roles.len();
    let sched = Sched::new(n);
    let s2 = sched.clone();
    vh::set_point_callback(Some(Arc::new(move |label: &str| {
        if let Some(id) = MY_ID.with(|c| c.get()) {
            s2.at_point(id, label);
        }
    })));
    let handles: Vec<_> = roles
        .iter()
        .enumerate()
        .map(|(id, &role)| {
            let sc = sched.clone();
            let pq = pq.clone();
            std::thread::spawn(move || actor(role, id, sc, pq, 2))
        })
        .collect();
    let mut ex = Exec { choices: vec![], enabled: vec![], cur_enabled: vec![], labels: vec![], obs: vec![], stuck: false, diverged: false };
    let mut current: Option<usize> = None;
    let mut blocked = vec![false; n];
    loop {
        // wait until every live thread is parked or finished; a thread that stays Running for 300 ms is blocked
        // on a real lock held by a parked thread (the in-process build mutex) and is simply not enabled
        let t0 = Instant::now();
        let mut g = sched.st.lock().unwrap();
        loop {
            for i in 0..n {
                if g.threads[i] != TState::Running {
                    blocked[i] = false;
                }
            }
            let running = (0..n).filter(|&i| g.threads[i] == TState::Running && !blocked[i]).count();
            if running == 0 {
                break;
            }
            if t0.elapsed() > Duration::from_millis(300) {
                // still between points after 300 ms: waiting for a real lock that a parked process holds
                for i in 0..n {
                    if g.threads[i] == TState::Running {
                        blocked[i] = true;
                    }
                }
                break;
            }
            let (gg, _) = sched.cv.wait_timeout(g, Duration::from_millis(20)).unwrap();
            g = gg;
        }
        if g.threads.iter().all(|t| *t == TState::Finished) {
            break;
        }
        let parked: Vec<usize> = (0..n).filter(|&i| matches!(g.threads[i], TState::AtPoint(_))).collect();
        if parked.is_empty() {
            // nobody can move: real deadlock (or a blocked thread with no parked holder)
            if t0.elapsed() > Duration::from_millis(300) {
                // give it a long grace period before calling it a deadlock
                let (gg, _) = sched.cv.wait_timeout(g, Duration::from_secs(3)).unwrap();
                g = gg;
                if !g.threads.iter().any(|t| matches!(t, TState::AtPoint(_))) && !g.threads.iter().all(|t| *t == TState::Finished) {
                    ex.stuck = true;
                    break;
                }
                continue;
            }
            continue;
        }
        let cur_en = current.map(|c| parked.contains(&c)).unwrap_or(false);
        let mut canon = Vec::new();
        if cur_en {
            canon.push(current.unwrap());
        }
        for &p in &parked {
            if !canon.contains(&p) {
                canon.push(p);
            }
        }
        let step = ex.choices.len();
        let pick = if step < prefix.len() {
            if !canon.contains(&prefix[step]) {
                ex.diverged = true;
                // release everything so the threads can end
                canon[0]
            } else {
                prefix[step]
            }
        } else {
            canon[0]
        };
        if let TState::AtPoint(l) = &g.threads[pick] {
            ex.labels.push(format!("P{pick}:{l}"));
        }
        ex.choices.push(pick);
        ex.enabled.push(canon);
        ex.cur_enabled.push(cur_en);
        current = Some(pick);
        g.granted = Some(pick);
        sched.cv.notify_all();
        // wait until the granted thread has left its point
        while g.granted.is_some() {
            g = sched.cv.wait(g).unwrap();
        }
        drop(g);
        if ex.choices.len() > 400 {
            ex.stuck = true;
            break;
        }
    }
    if ex.stuck {
        // cannot join blocked threads; leak them (the process ends soon) — report as a deadlock
        vh::set_point_callback(None);
        return (ex, json!({"want": want}));
    }
    for h in handles {
        ex.obs.push(h.join().unwrap_or(Obs::ReadError("virtual process panicked".into())));
    }
    vh::set_point_callback(None);
    // final state: a later auto-mode reader must find a fresh, complete sidecar with the table's rows (when anyone built)
    let mut fin = serde_json::Map::new();
    let side = dir.join("t.parquet.qeipc");
    let mut names: Vec<String> = std::fs::read_dir(dir).unwrap().filter_map(|e| e.ok()).map(|e| e.file_name().to_string_lossy().to_string()).collect();
    names.sort();
    fin.insert("dir".into(), json!(names));
    let mut inner: Vec<String> = std::fs::read_dir(&side).map(|r| r.filter_map(|e| e.ok()).map(|e| e.file_name().to_string_lossy().to_string()).collect()).unwrap_or_default();
    inner.sort();
    fin.insert("sidecar".into(), json!(inner));
    vh::set_virtual_pid(Some(998));
    vh::set_thread_ipc_mode(Some(2));
    let after = match ipc_cache::ensure_sidecar(&pq) {
        None => json!("fallback"),
        Some(d) => {
            let mut all = Vec::new();
            let mut e = None;
            for rg in 0..2 {
                match ipc_cache::read_row_group(&d, rg, None, None) {
                    Ok(b) => all.extend(rows_of(&b)),
                    Err(x) => e = Some(x.to_string()),
                }
            }
            match e {
                Some(x) => json!({"error": x}),
                None => json!({"rows": all}),
            }
        }
    };
    vh::set_virtual_pid(None);
    vh::set_thread_ipc_mode(None);
    fin.insert("later_reader".into(), after);
    fin.insert("want".into(), json!(want));
    (ex, Value::Object(fin))
}

fn preempt_before(ex: &Exec, i: usize) -> usize {
    (0..i).filter(|&j| ex.cur_enabled[j] && ex.choices[j] != ex.enabled[j][0]).count()
}

pub fn run(quick: bool, _seed: u64, work: &str) -> Out {
    let mut o = Out::new();
    // build_sidecar fans out over row groups with rayon: two row groups need no more than two workers
    if std::env::var("RAYON_NUM_THREADS").is_err() {
        std::env::set_var("RAYON_NUM_THREADS", "2");
    }
    let base = PathBuf::from(work).join(format!("c20-{}", std::process::id()));
    use Role::*;
    let mut configs: Vec<(&str, Vec<Role>, Start, usize)> = vec![
        ("builder+builder cold", vec![Builder, Builder], Start::Cold, 3),
        ("builder+reader cold", vec![Builder, Reader], Start::Cold, 2),
        ("builder+reader stale", vec![Builder, Reader], Start::WarmStale, 2),
        ("builder+builder stale", vec![Builder, Builder], Start::WarmStale, 2),
        ("builder+reader fresh", vec![Builder, Reader], Start::WarmFresh, 2),
        ("shared builders cold (one process, real build lock)", vec![BuilderShared, BuilderShared], Start::Cold, 2),
        ("builder+builder+reader cold", vec![Builder, Builder, Reader], Start::Cold, if quick { 1 } else { 2 }),
    ];
    if !quick {
        configs.push(("builder+builder stale (bound 3)", vec![Builder, Builder], Start::WarmStale, 3));
        configs.push(("builder+reader cold (bound 4)", vec![Builder, Reader], Start::Cold, 4));
        configs.push(("builder+builder+reader stale", vec![Builder, Builder, Reader], Start::WarmStale, 2));
        configs.push(("shared builder + foreign builder + reader", vec![BuilderShared, Builder, Reader], Start::Cold, 2));
    }
    let cap = if quick { 1500 } else { 60000 };
    for (ci, (name, roles, start, bound)) in configs.iter().enumerate() {
        let dir = base.join(format!("c{ci}"));
        let mut stack: Vec<Vec<usize>> = vec![vec![]];
        let (mut schedules, mut capped, mut max_steps) = (0usize, false, 0usize);
        let mut outcomes: BTreeMap<String, usize> = BTreeMap::new();
        while let Some(prefix) = stack.pop() {
            if schedules >= cap {
                capped = true;
                break;
            }
            let (ex, fin) = run_one(roles, *start, &dir, &prefix);
            if ex.diverged {
                o.count("diverged_replays", 1);
                continue;
            }
            schedules += 1;
            o.evaluations += 1;
            max_steps = max_steps.max(ex.choices.len());
            let want: Vec<String> = fin["want"].as_array().map(|a| a.iter().map(|x| x.as_str().unwrap_or("").to_string()).collect()).unwrap_or_default();
            let mk = |why: String| json!({"property": "C20", "kind": "native", "config": name, "start": format!("{start:?}"), "schedule": ex.choices, "steps": ex.labels, "why": why, "final": fin});
            let mut key = String::new();
            if ex.stuck {
                o.violation(mk("deadlock: no virtual process can move and not all have finished".into()));
                // blocked threads were leaked; stop exploring this configuration
                break;
            }
            let mut bad: Option<(String, bool)> = None;
            for (i, ob) in ex.obs.iter().enumerate() {
                match ob {
                    Obs::Fallback => key.push_str(&format!("P{i}=fallback ")),
                    Obs::Rows(r) => {
                        let mut a = r.clone();
                        a.sort();
                        let mut w = want.clone();
                        w.sort();
                        if a == w {
                            key.push_str(&format!("P{i}=table-rows "));
                        } else {
                            key.push_str(&format!("P{i}=WRONG "));
                            bad = Some((format!("virtual process {i} ({:?}) read other rows: {r:?}", roles[i]), false));
                        }
                    }
                    Obs::ReadError(e) => {
                        key.push_str(&format!("P{i}=error "));
                        if bad.is_none() {
                            bad = Some((format!("virtual process {i} ({:?}): the scan failed: {e}", roles[i]), false));
                        }
                    }
                }
            }
            // final state
            let sidecar: Vec<String> = fin["sidecar"].as_array().map(|a| a.iter().map(|x| x.as_str().unwrap_or("").to_string()).collect()).unwrap_or_default();
            let built = roles.iter().any(|r| *r != Reader);
            if bad.is_none() {
                let leftovers: Vec<&str> = fin["dir"].as_array().map(|a| a.iter().filter_map(|x| x.as_str()).filter(|x| x.ends_with(".building")).collect()).unwrap_or_default();
                if !leftovers.is_empty() {
                    bad = Some((format!("staging directories left behind: {leftovers:?}"), false));
                } else if built && sidecar != vec![".complete".to_string(), "rg_00000.arrow".to_string(), "rg_00001.arrow".to_string()] {
                    bad = Some((format!("after all builders finished the sidecar directory holds {sidecar:?}"), false));
                } else if built && fin["later_reader"].get("rows").is_none() {
                    bad = Some((format!("after all builders finished a later reader gets {}", fin["later_reader"]), false));
                } else if let Some(r) = fin["later_reader"].get("rows") {
                    let mut a: Vec<String> = r.as_array().unwrap().iter().map(|x| x.as_str().unwrap_or("").to_string()).collect();
                    a.sort();
                    let mut w = want.clone();
                    w.sort();
                    if a != w {
                        bad = Some((format!("a later reader reads other rows: {a:?}"), false));
                    }
                }
            }
            *outcomes.entry(key.clone()).or_insert(0) += 1;
            match bad {
                None => {
                    o.distinct.insert(fnv(format!("{name}{:?}", ex.choices).as_bytes()));
                }
                Some((why, _)) => o.violation(mk(why)),
            }
            for i in prefix.len()..ex.choices.len() {
                let basep = preempt_before(&ex, i);
                for &alt in ex.enabled[i].iter().skip(1) {
                    let cost = basep + if ex.cur_enabled[i] { 1 } else { 0 };
                    if cost > *bound {
                        continue;
                    }
                    let mut p = ex.choices[..i].to_vec();
                    p.push(alt);
                    stack.push(p);
                }
            }
        }
        o.count("schedules", schedules as u64);
        if capped {
            o.count("configs_capped", 1);
        }
        o.extra.insert(format!("config:{name}"), json!({"schedules": schedules, "preemption_bound": bound, "capped": capped, "max_steps": max_steps, "outcomes": outcomes}));
        if o.samples.len() < 2 {
            o.sample(json!({"config": name, "schedules": schedules, "preemption_bound": bound, "distinct_outcomes": outcomes.len(), "max_steps": max_steps}));
        }
        let _ = std::fs::remove_dir_all(&dir);
    }
    let _ = std::fs::remove_dir_all(&base);
    o
}
