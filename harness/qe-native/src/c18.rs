//! C18: Parquet table statistics are sound bounds — every small table over boundary row kinds, every split into
//! files, several row-group sizes; statistics() against a scan of the same files; estimates must not decide answers.
use crate::out::{fnv, multisets, Out};
use arrow::array::{Array, ArrayRef, Date32Array, Float64Array, Int32Array, Int64Array, StringArray};
use arrow::datatypes::{DataType, Field, Schema};
use arrow::record_batch::RecordBatch;
use parquet::arrow::ArrowWriter;
use parquet::file::properties::{EnabledStatistics, WriterProperties};
use query_engine::execution::ExecutionContext;
use serde_json::json;
use std::collections::BTreeMap;
use std::path::PathBuf;
use std::sync::Arc;

type Row = (Option<i64>, Option<i32>, Option<i32>, Option<f64>, Option<&'static str>);

fn kinds() -> Vec<Row> {
    vec![
        (Some(0), Some(0), Some(19000), Some(0.5), Some("a")),
        (Some(1), Some(1), Some(19001), Some(-0.0), Some("b")),
        (Some(-1), Some(i32::MIN), Some(-1), Some(f64::NAN), Some("")),
        (Some(i64::MAX), Some(i32::MAX), Some(19000), Some(f64::INFINITY), Some("a")),
        (Some(i64::MIN), Some(-1), None, Some(f64::NEG_INFINITY), None),
        (None, None, None, None, None),
        (Some(1 << 40), None, Some(0), None, Some("abcdefgh1")),
        (Some(5), Some(7), Some(19005), Some(2.0), Some("abcdefgh2")),
        (None, Some(3), Some(19003), Some(1.0), Some("c")),
    ]
}

fn schema() -> Arc<Schema> {
    Arc::new(Schema::new(vec![
        Field::new("a", DataType::Int64, true),
        Field::new("b", DataType::Int32, true),
        Field::new("d", DataType::Date32, true),
        Field::new("x", DataType::Float64, true),
        Field::new("s", DataType::Utf8, true),
    ]))
}

fn batch(rows: &[Row]) -> RecordBatch {
    RecordBatch::try_new(
        schema(),
        vec![
            Arc::new(Int64Array::from(rows.iter().map(|r| r.0).collect::<Vec<_>>())) as ArrayRef,
            Arc::new(Int32Array::from(rows.iter().map(|r| r.1).collect::<Vec<_>>())),
            Arc::new(Date32Array::from(rows.iter().map(|r| r.2).collect::<Vec<_>>())),
            Arc::new(Float64Array::from(rows.iter().map(|r| r.3).collect::<Vec<_>>())),
            Arc::new(StringArray::from(rows.iter().map(|r| r.4).collect::<Vec<_>>())),
        ],
    )
    .unwrap()
}

fn compositions(n: usize, maxparts: usize) -> Vec<Vec<usize>> {
    fn rec(left: usize, maxparts: usize, cur: &mut Vec<usize>, out: &mut Vec<Vec<usize>>) {
        if left == 0 {
            out.push(cur.clone());
            return;
        }
        if cur.len() == maxparts {
            return;
        }
        for k in 1..=left {
            cur.push(k);
            rec(left - k, maxparts, cur, out);
            cur.pop();
        }
    }
    let mut out = Vec::new();
    if n == 0 {
        return vec![vec![0]];
    }
    rec(n, maxparts, &mut Vec::new(), &mut out);
    out
}

fn write_table(dir: &PathBuf, rows: &[Row], parts: &[usize], rg: usize, stats: &[EnabledStatistics]) {
    let _ = std::fs::remove_dir_all(dir);
    std::fs::create_dir_all(dir).unwrap();
    let mut lo = 0;
    for (f, &p) in parts.iter().enumerate() {
        let b = batch(&rows[lo..lo + p]);
        lo += p;
        let props = WriterProperties::builder().set_max_row_group_row_count(Some(rg.max(1))).set_statistics_enabled(stats[f % stats.len()]).build();
        let file = std::fs::File::create(dir.join(format!("part-{f:02}.parquet"))).unwrap();
        let mut w = ArrowWriter::try_new(file, schema(), Some(props)).unwrap();
        w.write(&b).unwrap();
        w.close().unwrap();
    }
}

fn int_values(batches: &[RecordBatch], col: usize) -> (Vec<i64>, usize) {
    let mut v = Vec::new();
    let mut nulls = 0;
    for b in batches {
        let c = b.column(col);
        for r in 0..c.len() {
            if c.is_null(r) {
                nulls += 1;
            } else if let Some(a) = c.as_any().downcast_ref::<Int64Array>() {
                v.push(a.value(r));
            } else if let Some(a) = c.as_any().downcast_ref::<Int32Array>() {
                v.push(a.value(r) as i64);
            } else if let Some(a) = c.as_any().downcast_ref::<Date32Array>() {
                v.push(a.value(r) as i64);
            }
        }
    }
    (v, nulls)
}

fn cell(c: &ArrayRef, r: usize) -> String {
    if c.is_null(r) {
        "N".into()
    } else {
        arrow::util::display::array_value_to_string(c.as_ref(), r).unwrap_or_default()
    }
}

pub fn run(quick: bool, seed: u64, work: &str) -> Out {
    let ks = kinds();
    let maxrows = if quick { 3 } else { 4 };
    let mut tables: Vec<Vec<Row>> = Vec::new();
    for n in 0..=maxrows {
        multisets(ks.len(), n, &mut |idx| tables.push(idx.iter().map(|&i| ks[i]).collect()));
    }
    // a longer table: every kind twice (duplicates in every column)
    tables.push(ks.iter().chain(ks.iter()).cloned().collect());
    let rot = (seed as usize) % tables.len();
    tables.rotate_left(rot);
    let base = PathBuf::from(work).join(format!("c18-{}", std::process::id()));
    let nthreads = 12usize;
    let indexed: Vec<(usize, Vec<Row>)> = tables.into_iter().enumerate().collect();
    let chunk = indexed.len().div_ceil(nthreads).max(1);
    let outs: Vec<Out> = std::thread::scope(|sc| {
        let hs: Vec<_> = indexed
            .chunks(chunk)
            .map(|part| {
                let base = base.clone();
                let part = part.to_vec();
                sc.spawn(move || {
                    let rt = tokio::runtime::Builder::new_current_thread().enable_all().build().unwrap();
                    let mut o = Out::new();
                    for (ti, rows) in part {
                        let n = rows.len();
                        let comps = if n <= 4 { compositions(n, 3) } else { vec![vec![n], vec![n / 2, n - n / 2], vec![1, n - 2, 1]] };
                        for parts in comps {
                            for rg in [1usize, 2, 1000] {
                                // writer statistics per FILE: uniform (chunk / page / none) and, for multi-file tables, every mix of files with and without statistics
                                let mut stat_sets: Vec<Vec<EnabledStatistics>> = vec![vec![EnabledStatistics::Chunk]];
                                if rg == 2 && !(quick && ti % 4 != 0) {
                                    stat_sets.push(vec![EnabledStatistics::Page]);
                                    stat_sets.push(vec![EnabledStatistics::None]);
                                }
                                if parts.len() >= 2 && (rg == 2 || !quick) {
                                    for mask in 1..(1u32 << parts.len()) - 1 {
                                        stat_sets.push((0..parts.len()).map(|f| if mask >> f & 1 == 1 { EnabledStatistics::None } else { EnabledStatistics::Chunk }).collect());
                                    }
                                }
                                for stats in stat_sets {
                                    let stats = &stats[..];
                                    let dir = base.join(format!("t{ti}"));
                                    write_table(&dir, &rows, &parts, rg, stats);
                                    let r = std::panic::catch_unwind(std::panic::AssertUnwindSafe(|| {
                                        let mut oo = Out::new();
                                        one(&rt, &dir, &rows, &parts, rg, stats, &mut oo);
                                        oo
                                    }));
                                    match r {
                                        Ok(oo) => o.merge(oo),
                                        Err(_) => {
                                            o.evaluations += 1;
                                            o.violation(json!({"property": "C18", "kind": "native", "why": "panic while computing or using the table statistics",
                                                "table": {"rows": rows.iter().map(|r| json!([r.0, r.1, r.2, r.3.map(|x| format!("{x:?}")), r.4])).collect::<Vec<_>>(), "files": parts, "row_group_size": rg}}));
                                        }
                                    }
                                    let _ = std::fs::remove_dir_all(&dir);
                                }
                            }
                        }
                    }
                    o
                })
            })
            .collect();
        hs.into_iter().map(|h| h.join().unwrap()).collect()
    });
    let _ = std::fs::remove_dir_all(&base);
    let mut o = Out::new();
    for x in outs {
        o.merge(x);
    }
    o
}

fn one(rt: &tokio::runtime::Runtime, dir: &PathBuf, rows: &[Row], parts: &[usize], rg: usize, stats: &[EnabledStatistics], o: &mut Out) {
    let desc = json!({"rows": rows.iter().map(|r| json!([r.0, r.1, r.2, r.3.map(|x| format!("{x:?}")), r.4])).collect::<Vec<_>>(), "files": parts, "row_group_size": rg, "writer_statistics": format!("{stats:?}")});
    let mk = |why: String| json!({"property": "C18", "kind": "native", "table": desc.clone(), "why": why});
    o.evaluations += 1;
    let mut ctx = ExecutionContext::new();
    if let Err(e) = ctx.register_parquet("t", dir) {
        if rows.is_empty() {
            o.count("empty_table_refused", 1);
        } else {
            o.violation(mk(format!("register failed: {e}")));
        }
        return;
    }
    let Some(p) = ctx.table_provider("t") else {
        o.violation(mk("no provider".into()));
        return;
    };
    let scanned = match p.scan(None) {
        Ok(b) => b,
        Err(e) => {
            o.violation(mk(format!("scan failed: {e}")));
            return;
        }
    };
    let nrows: usize = scanned.iter().map(|b| b.num_rows()).sum();
    if nrows != rows.len() {
        o.violation(mk(format!("scan returned {nrows} rows, files hold {}", rows.len())));
        return;
    }
    let Some(st) = p.statistics() else {
        o.count("no_statistics", 1);
        return;
    };
    if st.row_count != nrows {
        o.violation(mk(format!("row_count {} but the files hold {nrows} rows", st.row_count)));
    }
    let bytes: u64 = std::fs::read_dir(dir).unwrap().filter_map(|e| e.ok()).filter_map(|e| e.metadata().ok()).map(|m| m.len()).sum();
    if st.total_byte_size != bytes {
        o.violation(mk(format!("total_byte_size {} but the files hold {bytes} bytes", st.total_byte_size)));
    }
    let names = ["a", "b", "d", "x", "s"];
    let mut decided = false;
    for (ci, name) in names.iter().enumerate() {
        let Some(cs) = st.column_stats.get(*name) else {
            o.count("column_without_stats", 1);
            continue;
        };
        let nulls: usize = scanned.iter().map(|b| b.column(ci).null_count()).sum();
        if let Some(nc) = cs.null_count {
            decided = true;
            if nc as usize != nulls {
                o.violation(mk(format!("column {name}: null_count {nc} but the files hold {nulls} NULLs")));
            }
        }
        if ci < 3 {
            let (vals, _) = int_values(&scanned, ci);
            if let (Some(lo), Some(hi)) = (cs.min_i64, cs.max_i64) {
                decided = true;
                for v in &vals {
                    if *v < lo || *v > hi {
                        o.violation(mk(format!("column {name}: value {v} outside the reported [{lo}, {hi}]")));
                        break;
                    }
                }
            } else if cs.min_i64.is_some() != cs.max_i64.is_some() {
                o.count("half_open_bounds", 1);
            }
        } else if cs.min_i64.is_some() || cs.max_i64.is_some() {
            o.violation(mk(format!("column {name} is not an integer column but reports integer bounds")));
        }
    }
    if decided && nrows > 0 {
        o.distinct.insert(fnv(desc.to_string().as_bytes()));
        if o.samples.is_empty() && nrows == 3 && parts.len() == 2 {
            o.sample(json!({"table": desc, "row_count": st.row_count, "total_byte_size": st.total_byte_size,
                "a": st.column_stats.get("a").map(|c| json!({"min": c.min_i64, "max": c.max_i64, "nulls": c.null_count, "ndv_est": c.ndv_est}))}));
        }
    }
    // estimates must not decide answers: grouping by a column the estimate calls unique, plus another column
    for (ci, name) in names.iter().enumerate().take(3) {
        let Some(cs) = st.column_stats.get(*name) else { continue };
        let looks_unique = cs.null_count == Some(0) && cs.ndv_est.map(|v| v as usize >= st.row_count).unwrap_or(false);
        if !looks_unique || nrows < 2 {
            continue;
        }
        let (vals, _) = int_values(&scanned, ci);
        let mut sorted = vals.clone();
        sorted.sort();
        sorted.dedup();
        let has_dups = sorted.len() < vals.len();
        for other in names.iter().filter(|x| *x != name) {
            let sql = format!("SELECT {name}, {other}, COUNT(*) AS c FROM t GROUP BY {name}, {other}");
            o.evaluations += 1;
            let got = match rt.block_on(ctx.sql(&sql)) {
                Ok(r) => r.batches,
                Err(e) => {
                    o.violation(mk(format!("{sql}: {e}")));
                    continue;
                }
            };
            let oi = names.iter().position(|x| x == other).unwrap();
            let mut want: BTreeMap<String, i64> = BTreeMap::new();
            for b in &scanned {
                for r in 0..b.num_rows() {
                    *want.entry(format!("{}|{}", cell(b.column(ci), r), cell(b.column(oi), r))).or_insert(0) += 1;
                }
            }
            let mut have: BTreeMap<String, i64> = BTreeMap::new();
            for b in &got {
                let c = b.column(2).as_any().downcast_ref::<Int64Array>().unwrap();
                for r in 0..b.num_rows() {
                    *have.entry(format!("{}|{}", cell(b.column(0), r), cell(b.column(1), r))).or_insert(0) += c.value(r);
                }
            }
            if have == want {
                o.count("estimate_gated_queries_agree", 1);
                continue;
            }
            // the listed finding, and only it: the key has duplicates and the answer is the one grouping by the key alone gives
            let mut by_key: BTreeMap<String, i64> = BTreeMap::new();
            for b in &scanned {
                for r in 0..b.num_rows() {
                    *by_key.entry(cell(b.column(ci), r)).or_insert(0) += 1;
                }
            }
            let collapsed = have.len() == by_key.len() && have.iter().all(|(k, c)| by_key.get(k.split('|').next().unwrap_or("")) == Some(c));
            if has_dups && collapsed {
                o.known("uniqueness_inferred_from_min_max_range", json!({"table": desc, "sql": sql, "ndv_est": cs.ndv_est, "row_count": st.row_count, "returned": have, "expected": want}));
            } else {
                o.violation(mk(format!("{sql}: returned {have:?}, the files hold {want:?}")));
            }
        }
    }
}
