//! qe-native: rust-native exhaustive checkers, one subcommand per property.
//! Each prints exactly one JSON summary line on stdout (see vlib/native.py).

fn main() {
    let args: Vec<String> = std::env::args().collect();
    let sub = args.get(1).map(|s| s.as_str()).unwrap_or("");
    match sub {
        _ => {
            eprintln!("unknown subcommand {sub}");
            std::process::exit(2);
        }
    }
}
