//! qe-native: rust-native exhaustive checkers, one subcommand per property.
//! Usage: qe-native <id> <quick|thorough> <seed> [workdir]
//! Each prints exactly one JSON summary line on stdout (see vlib/native.py):
//! {"evaluations":N,"distinct_nontrivial":M,"violations":[..],"known":{id:example},"samples":[..],"counts":{..},"extra":{..}}

mod out;
mod c05;
mod c06;
mod c11;
mod c12;
mod c13;
mod c14;
mod c15;
mod c16;
mod c17;
mod c18;
mod c20;
mod c34;
mod c35;
mod nodes;
mod c37;
mod c38;
mod c39;
mod c40;
mod c41;
mod c42;

fn main() {
    let args: Vec<String> = std::env::args().collect();
    let sub = args.get(1).map(|s| s.as_str()).unwrap_or("");
    let tier = args.get(2).map(|s| s.as_str()).unwrap_or("quick");
    let seed: u64 = args.get(3).and_then(|s| s.parse().ok()).unwrap_or(0);
    let work = args.get(4).cloned().unwrap_or_else(|| "/verif/work/native".to_string());
    let quick = tier != "thorough";
    if std::env::var("QE_NATIVE_PANIC_MSG").is_err() { std::panic::set_hook(Box::new(|_| {})); }
    let o = match sub {
        "c05" => c05::run(quick, seed, &work),
        "c06" => c06::run(quick, seed),
        "c11" => c11::run(quick, seed, &work),
        "c12" => c12::run(quick, seed),
        "c13" => c13::run(quick, seed, &work),
        "c14" => c14::run(quick, seed, &work),
        "c15" => c15::run(quick, seed),
        "c16" => c16::run(quick, seed),
        "c17" => c17::run(quick, seed, &work),
        "c18" => c18::run(quick, seed, &work),
        "c20" => c20::run(quick, seed, &work),
        "c34" => c34::run(quick, seed, &work),
        "c35" => c35::run(quick, seed, &work),
        "c37" => c37::run(quick, seed),
        "c38" => c38::run(quick, seed),
        "c39" => c39::run(quick, seed, &work),
        "c40" => c40::run(quick, seed),
        "c41" => c41::run(quick, seed),
        "c42" => c42::run(quick, seed),
        _ => {
            eprintln!("unknown subcommand {sub}");
            std::process::exit(2);
        }
    };
    println!("{}", o.to_json());
}
