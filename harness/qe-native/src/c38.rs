//! C38: vector distance kernels against an f64 reference formula.
use crate::out::Out;
use arrow::array::{Array, ArrayRef, FixedSizeListArray, Float32Array, Float64Array};
use arrow::buffer::NullBuffer;
use arrow::datatypes::{DataType, Field};
use query_engine::physical::vector::{distance_column, distance_columns, DistanceKind};
use rayon::prelude::*;
use serde_json::json;
use std::sync::Arc;

const VALS: [f32; 6] = [-2.0, -1.0, 0.0, 0.5, 1.0, 3.0];

fn pattern(p: usize, d: usize, salt: usize) -> Vec<f32> {
    (0..d)
        .map(|i| match p {
            0 => VALS[(i + salt) % 6],
            1 => VALS[(i * i + 3 * salt + 1) % 6],
            2 => 0.0, // the zero vector
            3 => VALS[(salt + i / 8) % 6], // constant inside each 8-lane block
            _ => if i + 1 == d { 3.0 } else { 0.0 }, // only the LAST lane differs: a dropped tail is visible
        })
        .collect()
}

fn reference(a: &[f32], b: &[f32], kind: DistanceKind) -> f64 {
    let dot: f64 = a.iter().zip(b).map(|(x, y)| *x as f64 * *y as f64).sum();
    match kind {
        DistanceKind::Dot => dot,
        DistanceKind::L2 => a.iter().zip(b).map(|(x, y)| (*x as f64 - *y as f64).powi(2)).sum::<f64>().sqrt(),
        DistanceKind::Cosine | DistanceKind::CosineSimilarity => {
            let na: f64 = a.iter().map(|x| (*x as f64).powi(2)).sum::<f64>().sqrt();
            let nb: f64 = b.iter().map(|x| (*x as f64).powi(2)).sum::<f64>().sqrt();
            // convention of the engine for a zero vector (undefined in the formula): similarity 0
            let sim = if na * nb == 0.0 { 0.0 } else { dot / (na * nb) };
            if kind == DistanceKind::Cosine { 1.0 - sim } else { sim }
        }
    }
}

fn make_list(rows: &[Option<Vec<f32>>], d: usize) -> ArrayRef {
    let mut flat: Vec<f32> = Vec::with_capacity(rows.len() * d);
    let mut valid = Vec::with_capacity(rows.len());
    for r in rows {
        match r {
            Some(v) => {
                flat.extend_from_slice(v);
                valid.push(true);
            }
            None => {
                // poison: a kernel that reads a NULL row's lanes produces NaN
                flat.extend(std::iter::repeat(f32::NAN).take(d));
                valid.push(false);
            }
        }
    }
    let field = Arc::new(Field::new("item", DataType::Float32, true));
    let nulls = if valid.iter().all(|v| *v) { None } else { Some(NullBuffer::from(valid)) };
    Arc::new(FixedSizeListArray::new(field, d as i32, Arc::new(Float32Array::from(flat)), nulls))
}

fn close(got: f64, want: f64) -> bool {
    (got - want).abs() <= 1e-5 * want.abs().max(1.0)
}

pub fn run(quick: bool, seed: u64) -> Out {
    let dims: Vec<usize> = if quick {
        (1..=40).chain([63, 64, 65, 127, 128, 129, 255, 256, 257, 383, 384, 385, 1023, 1024]).collect()
    } else {
        (1..=1024).collect()
    };
    let kinds = [DistanceKind::L2, DistanceKind::Cosine, DistanceKind::CosineSimilarity, DistanceKind::Dot];
    let outs: Vec<Out> = dims
        .par_iter()
        .map(|&d| {
            let mut o = Out::new();
            let npat = 5;
            // table of 7 rows: patterns 0..4 with two salts, plus NULL rows placed by mask
            for nrows in 1..=4usize {
                for mask in 0..(1usize << nrows) {
                    let rows: Vec<Option<Vec<f32>>> = (0..nrows)
                        .map(|r| if mask >> r & 1 == 1 { None } else { Some(pattern((r + d + seed as usize) % npat, d, r + 1)) })
                        .collect();
                    let full = make_list(&rows, d);
                    for off in [0usize, 1, 3] {
                        if off >= nrows {
                            continue;
                        }
                        let arr: ArrayRef = if off == 0 { full.clone() } else { full.slice(off, nrows - off) };
                        let view = &rows[off..];
                        for qp in 0..npat {
                            let q = pattern(qp, d, 2);
                            for kind in kinds {
                                // literal query
                                o.evaluations += 1;
                                let got = std::panic::catch_unwind(std::panic::AssertUnwindSafe(|| distance_column(&arr, &q, kind, "v")));
                                let mut bad: Option<String> = None;
                                match got {
                                    Err(_) => bad = Some("panic".into()),
                                    Ok(Err(e)) => bad = Some(format!("error: {e}")),
                                    Ok(Ok(res)) => {
                                        let f = res.as_any().downcast_ref::<Float64Array>();
                                        match f {
                                            None => bad = Some("result is not Float64".into()),
                                            Some(f) => {
                                                if f.len() != view.len() {
                                                    bad = Some(format!("{} results for {} rows", f.len(), view.len()));
                                                } else {
                                                    for (i, r) in view.iter().enumerate() {
                                                        match r {
                                                            None => {
                                                                if !f.is_null(i) {
                                                                    bad = Some(format!("NULL vector at row {i} gave {}", f.value(i)));
                                                                }
                                                            }
                                                            Some(v) => {
                                                                let want = reference(v, &q, kind);
                                                                if f.is_null(i) || !close(f.value(i), want) {
                                                                    bad = Some(format!("row {i}: got {:?}, formula gives {want}", if f.is_null(i) { None } else { Some(f.value(i)) }));
                                                                }
                                                            }
                                                        }
                                                    }
                                                }
                                            }
                                        }
                                    }
                                }
                                if let Some(w) = bad {
                                    o.violation(json!({"property":"C38","kind":"native","dim":d,"rows":nrows,"null_mask":mask,"offset":off,"query_pattern":qp,
                                        "distance":format!("{kind:?}"),"form":"literal","why":w}));
                                } else if view.iter().any(|r| r.is_some()) {
                                    o.nontrivial += 1;
                                }
                            }
                        }
                        // second-column form: right = the same rows rotated by one pattern, NULLs at the complementary mask
                        if off == 0 || !quick {
                            let rrows: Vec<Option<Vec<f32>>> = (0..nrows).map(|r| if (mask >> r) & 1 == 0 && r % 2 == 1 { None } else { Some(pattern((r + 2) % npat, d, r + 4)) }).collect();
                            let rfull = make_list(&rrows, d);
                            let rarr: ArrayRef = if off == 0 { rfull.clone() } else { rfull.slice(off, nrows - off) };
                            for kind in kinds {
                                o.evaluations += 1;
                                let got = std::panic::catch_unwind(std::panic::AssertUnwindSafe(|| distance_columns(&arr, &rarr, kind)));
                                let mut bad: Option<String> = None;
                                match got {
                                    Err(_) => bad = Some("panic".into()),
                                    Ok(Err(e)) => bad = Some(format!("error: {e}")),
                                    Ok(Ok(res)) => {
                                        let f = res.as_any().downcast_ref::<Float64Array>().unwrap();
                                        if f.len() != view.len() {
                                            bad = Some(format!("{} results for {} rows", f.len(), view.len()));
                                        } else {
                                            for i in 0..view.len() {
                                                match (&view[i], &rrows[off + i]) {
                                                    (Some(a), Some(b)) => {
                                                        let want = reference(a, b, kind);
                                                        if f.is_null(i) || !close(f.value(i), want) {
                                                            bad = Some(format!("row {i}: got {:?}, formula gives {want}", if f.is_null(i) { None } else { Some(f.value(i)) }));
                                                        }
                                                    }
                                                    _ => {
                                                        if !f.is_null(i) {
                                                            bad = Some(format!("NULL operand at row {i} gave {}", f.value(i)));
                                                        }
                                                    }
                                                }
                                            }
                                        }
                                    }
                                }
                                if let Some(w) = bad {
                                    o.violation(json!({"property":"C38","kind":"native","dim":d,"rows":nrows,"null_mask":mask,"offset":off,
                                        "distance":format!("{kind:?}"),"form":"two columns","why":w}));
                                } else {
                                    o.nontrivial += 1;
                                }
                            }
                        }
                    }
                }
            }
            // dimension mismatch must be an error, both forms
            let col = make_list(&[Some(pattern(0, d, 1))], d);
            for qd in [d + 1, d.saturating_sub(1)] {
                if qd == d {
                    continue;
                }
                for kind in kinds {
                    o.evaluations += 1;
                    let q = pattern(0, qd, 1);
                    match std::panic::catch_unwind(std::panic::AssertUnwindSafe(|| distance_column(&col, &q, kind, "v"))) {
                        Ok(Err(_)) => o.count("mismatch_rejected", 1),
                        Ok(Ok(_)) => o.violation(json!({"property":"C38","kind":"native","dim":d,"query_dim":qd,"why":"dimension mismatch accepted (literal)"})),
                        Err(_) => o.violation(json!({"property":"C38","kind":"native","dim":d,"query_dim":qd,"why":"panic on dimension mismatch"})),
                    }
                    if qd >= 1 {
                        let other = make_list(&[Some(pattern(0, qd, 1))], qd);
                        o.evaluations += 1;
                        match std::panic::catch_unwind(std::panic::AssertUnwindSafe(|| distance_columns(&col, &other, kind))) {
                            Ok(Err(_)) => o.count("mismatch_rejected", 1),
                            Ok(Ok(_)) => o.violation(json!({"property":"C38","kind":"native","dim":d,"query_dim":qd,"why":"dimension mismatch accepted (two columns)"})),
                            Err(_) => o.violation(json!({"property":"C38","kind":"native","dim":d,"query_dim":qd,"why":"panic on dimension mismatch"})),
                        }
                    }
                }
            }
            if d == 3 {
                o.sample(json!({"dim": 3, "row": pattern(0, 3, 1), "query": pattern(1, 3, 2), "l2": reference(&pattern(0, 3, 1), &pattern(1, 3, 2), DistanceKind::L2)}));
            }
            o
        })
        .collect();
    let mut o = Out::new();
    for x in outs {
        o.merge(x);
    }
    o.extra.insert("dimensions".into(), json!(dims.len()));
    o
}
