//! C41: chunked transfer decoding, against a reference RFC 7230 §4.1 decoder.
use crate::out::{fnv, sequences, Out};
use query_engine::metastore::gravitino::verif_dechunk;
use rayon::prelude::*;
use serde_json::json;

/// Reference decoder: chunk-size = 1*HEXDIG, optional chunk-ext (";" anything up to CRLF), CRLF, data, CRLF; last-chunk "0"+ext CRLF.
/// The trailer section / final CRLF after the last chunk is not required (the engine's client reads to EOF and the property is about the body).
fn reference(mut b: &[u8]) -> Option<Vec<u8>> {
    let mut out = Vec::new();
    loop {
        let line_end = b.windows(2).position(|w| w == b"\r\n")?;
        let line = &b[..line_end];
        let hex_end = line.iter().position(|c| !c.is_ascii_hexdigit()).unwrap_or(line.len());
        if hex_end == 0 {
            return None;
        }
        let ext = &line[hex_end..];
        if !ext.is_empty() && ext[0] != b';' {
            return None;
        }
        if ext.iter().any(|c| *c == b'\r' || *c == b'\n') {
            return None;
        }
        // size: reject anything that does not fit in usize
        let mut size: u128 = 0;
        for c in &line[..hex_end] {
            size = size.checked_mul(16)?.checked_add((*c as char).to_digit(16)? as u128)?;
            if size > usize::MAX as u128 {
                return None;
            }
        }
        let size = size as usize;
        b = &b[line_end + 2..];
        if size == 0 {
            return Some(out);
        }
        if b.len() < size || b.len() - size < 2 {
            return None;
        }
        if &b[size..size + 2] != b"\r\n" {
            return None;
        }
        out.extend_from_slice(&b[..size]);
        b = &b[size + 2..];
    }
}

fn compositions(n: usize) -> Vec<Vec<usize>> {
    if n == 0 {
        return vec![vec![]];
    }
    let mut out = Vec::new();
    for cut in 0..(1usize << (n - 1)) {
        let mut parts = Vec::new();
        let mut cur = 1;
        for i in 0..n - 1 {
            if cut >> i & 1 == 1 {
                parts.push(cur);
                cur = 1;
            } else {
                cur += 1;
            }
        }
        parts.push(cur);
        out.push(parts);
    }
    out
}

fn judge(o: &mut Out, input: &[u8], want: Option<Vec<u8>>, family: &str, known_ok: bool) {
    o.evaluations += 1;
    let inp = input.to_vec();
    let got = std::panic::catch_unwind(move || verif_dechunk(&inp));
    match got {
        Err(_) => o.violation(json!({"property":"C41","kind":"native","family":family,"input":String::from_utf8_lossy(input),"why":"panic"})),
        Ok(g) => {
            if g == want {
                if want.is_some() {
                    o.distinct.insert(fnv(input));
                } else {
                    o.count("rejected_as_expected", 1);
                }
            } else {
                let _ = known_ok;
                o.violation(json!({"property":"C41","kind":"native","family":family,"input":String::from_utf8_lossy(input),
                    "input_bytes": input, "got": g.map(|v| String::from_utf8_lossy(&v).to_string()), "want": want.map(|v| String::from_utf8_lossy(&v).to_string())}));
            }
        }
    }
}

pub fn run(quick: bool, seed: u64) -> Out {
    let mut o = Out::new();
    // (a) valid framings: every body of length <= 4 over {a,\r,\n,0} x every chunking x extension x hex style
    let alpha = [b'a', b'\r', b'\n', b'0'];
    let exts = ["", ";x", ";x=y"];
    for len in 0..=4usize {
        sequences(alpha.len(), len, &mut |seq| {
            let body: Vec<u8> = seq.iter().map(|i| alpha[*i]).collect();
            for comp in compositions(len) {
                for ext in exts {
                    for style in 0..3 {
                        let mut wire = Vec::new();
                        let mut off = 0;
                        for c in &comp {
                            let sz = match style {
                                0 => format!("{c:x}"),
                                1 => format!("{c:X}"),
                                _ => format!("0{c:x}"),
                            };
                            wire.extend_from_slice(sz.as_bytes());
                            wire.extend_from_slice(ext.as_bytes());
                            wire.extend_from_slice(b"\r\n");
                            wire.extend_from_slice(&body[off..off + c]);
                            wire.extend_from_slice(b"\r\n");
                            off += c;
                        }
                        wire.extend_from_slice(b"0");
                        wire.extend_from_slice(ext.as_bytes());
                        wire.extend_from_slice(b"\r\n\r\n");
                        let want = reference(&wire);
                        if want.as_deref() != Some(&body[..]) {
                            o.count("reference_self_check_failed", 1);
                        }
                        judge(&mut o, &wire, Some(body.clone()), "valid", false);
                    }
                }
            }
        });
    }
    // 16-byte chunk (two hex digits path: "10")
    {
        let body = b"0123456789abcdef".to_vec();
        let mut wire = b"10\r\n".to_vec();
        wire.extend_from_slice(&body);
        wire.extend_from_slice(b"\r\n0\r\n\r\n");
        judge(&mut o, &wire, Some(body), "valid-16", false);
    }
    // (c) huge sizes: f x n, never a panic, always rejected (no such body follows)
    for n in 1..=20usize {
        for tail in [&b"\r\n"[..], &b"\r\nab\r\n0\r\n\r\n"[..], &b""[..]] {
            let mut wire = vec![b'f'; n];
            wire.extend_from_slice(tail);
            let want = reference(&wire);
            judge(&mut o, &wire, want, "huge-size", false);
        }
    }
    // (b) all byte strings up to L over an 8-symbol alphabet
    let sym = [b'0', b'1', b'a', b'f', b';', b'\r', b'\n', b'x'];
    let maxl = if quick { 7 } else { 9 };
    let mut firsts: Vec<usize> = (0..sym.len()).collect();
    let r = (seed as usize) % firsts.len();
    firsts.rotate_left(r);
    for len in 0..=maxl.min(1) {
        sequences(sym.len(), len, &mut |seq| {
            let s: Vec<u8> = seq.iter().map(|i| sym[*i]).collect();
            let want = reference(&s);
            judge(&mut o, &s, want, "bytes", false);
        });
    }
    let outs: Vec<Out> = (2..=maxl)
        .flat_map(|len| firsts.iter().flat_map(move |f| (0..8usize).map(move |g| (len, *f, g))).collect::<Vec<_>>())
        .collect::<Vec<_>>()
        .into_par_iter()
        .map(|(len, f, g)| {
            let mut o = Out::new();
            sequences(sym.len(), len - 2, &mut |seq| {
                let mut s: Vec<u8> = Vec::with_capacity(len);
                s.push(sym[f]);
                s.push(sym[g]);
                s.extend(seq.iter().map(|i| sym[*i]));
                let want = reference(&s);
                judge(&mut o, &s, want, "bytes", false);
            });
            o
        })
        .collect();
    for x in outs {
        o.merge(x);
    }
    o.sample(json!({"wire": "2;x\r\na\r\r\n1;x\r\n\n\r\n0;x\r\n\r\n", "body": "a\r\n"}));
    o.extra.insert("byte_string_max_len".into(), json!(maxl));
    o
}
