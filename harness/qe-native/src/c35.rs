//! C35: the SQL front door decides and encodes consistently — real nodes, every load outcome x membership state x
//! mode x format x statement.
use crate::nodes::*;
use crate::out::{fnv, Out};
use arrow::datatypes::DataType;
use query_engine::distributed::http_client::{get, post_json, post_text, HttpResponse};
use query_engine::distributed::{plan_distributed, ServerHandle};
use serde_json::{json, Value};
use std::path::PathBuf;
use std::time::Duration;

const T: Duration = Duration::from_secs(20);

fn statements() -> Vec<(&'static str, bool)> {
    // (sql, ordered)
    vec![
        ("SELECT k, g, v, s FROM f", false),
        ("SELECT k, s FROM f WHERE k < 0", false),
        ("SELECT k, v FROM f ORDER BY k DESC LIMIT 7", true),
        ("SELECT g, COUNT(*) AS c, SUM(v) AS sv, MIN(k) AS mk FROM f GROUP BY g", false),
        ("SELECT COUNT(*) AS c, SUM(k) AS sk FROM f", false),
        ("SELECT COUNT(*) AS c, MAX(v) AS m FROM e", false),
        ("SELECT s, COUNT(*) AS c FROM f GROUP BY s", false),
        ("SELECT d.name, COUNT(*) AS c FROM f JOIN d ON f.g = d.g GROUP BY d.name", false),
        ("SELECT DISTINCT g FROM f", false),
        ("SELECT g, AVG(v) AS a FROM f WHERE k > 3 GROUP BY g", false),
        ("SELECT k FROM f WHERE s = 'with \"quote\"'", false),
    ]
}

fn bad_statements() -> Vec<&'static str> {
    vec!["SELECT nope FROM f", "SELEC 1", "SELECT k FROM missing_table", ""]
}

fn parse_csv(text: &str) -> Vec<Vec<String>> {
    let mut rows = Vec::new();
    let mut row: Vec<String> = Vec::new();
    let mut cur = String::new();
    let mut inq = false;
    let mut chars = text.chars().peekable();
    let mut any = false;
    while let Some(c) = chars.next() {
        any = true;
        if inq {
            if c == '"' {
                if chars.peek() == Some(&'"') {
                    cur.push('"');
                    chars.next();
                } else {
                    inq = false;
                }
            } else {
                cur.push(c);
            }
        } else {
            match c {
                '"' => inq = true,
                ',' => row.push(std::mem::take(&mut cur)),
                '\n' => {
                    row.push(std::mem::take(&mut cur));
                    rows.push(std::mem::take(&mut row));
                    any = false;
                }
                '\r' => {}
                _ => cur.push(c),
            }
        }
    }
    if any {
        row.push(cur);
        rows.push(row);
    }
    rows
}

fn num_eq(a: &str, b: f64) -> bool {
    match a.parse::<f64>() {
        Ok(x) => (x - b).abs() <= 1e-9 * b.abs().max(1.0),
        Err(_) => false,
    }
}

/// reference rows as typed cells
#[derive(Clone, Debug)]
enum Cell {
    Null,
    Int(i64),
    Float(f64),
    Str(String),
}

fn ref_cells(batches: &[arrow::record_batch::RecordBatch]) -> Vec<Vec<Cell>> {
    use arrow::array::*;
    let mut out = Vec::new();
    for b in batches {
        for r in 0..b.num_rows() {
            let mut row = Vec::new();
            for c in b.columns() {
                let c = if let DataType::Dictionary(_, _) = c.data_type() { arrow::compute::cast(c, &DataType::Utf8).unwrap() } else { c.clone() };
                row.push(if c.is_null(r) {
                    Cell::Null
                } else if let Some(a) = c.as_any().downcast_ref::<Int64Array>() {
                    Cell::Int(a.value(r))
                } else if let Some(a) = c.as_any().downcast_ref::<Float64Array>() {
                    Cell::Float(a.value(r))
                } else if let Some(a) = c.as_any().downcast_ref::<StringArray>() {
                    Cell::Str(a.value(r).to_string())
                } else {
                    Cell::Str(arrow::util::display::array_value_to_string(c.as_ref(), r).unwrap_or_default())
                });
            }
            out.push(row);
        }
    }
    out
}

fn cell_matches_text(c: &Cell, t: &str) -> bool {
    match c {
        Cell::Null => t.is_empty(),
        Cell::Int(i) => t == i.to_string(),
        Cell::Float(f) => num_eq(t, *f),
        Cell::Str(s) => t == s,
    }
}

fn cell_matches_json(c: &Cell, v: Option<&Value>) -> bool {
    match (c, v) {
        (Cell::Null, None) | (Cell::Null, Some(Value::Null)) => true,
        (Cell::Int(i), Some(Value::Number(n))) => n.as_i64() == Some(*i),
        (Cell::Float(f), Some(Value::Number(n))) => n.as_f64().map(|x| (x - f).abs() <= 1e-9 * f.abs().max(1.0)).unwrap_or(false),
        (Cell::Str(s), Some(Value::String(t))) => s == t,
        _ => false,
    }
}

/// match decoded rows against reference rows as a multiset (or sequence) using a per-cell predicate
fn match_rows<R>(reference: &[Vec<Cell>], got: &[R], ordered: bool, eq: impl Fn(&Vec<Cell>, &R) -> bool) -> Option<String> {
    if reference.len() != got.len() {
        return Some(format!("{} rows encoded, the engine returned {}", got.len(), reference.len()));
    }
    if ordered {
        for (i, (a, b)) in reference.iter().zip(got.iter()).enumerate() {
            if !eq(a, b) {
                return Some(format!("row {i} differs from the engine's row {a:?}"));
            }
        }
        return None;
    }
    let mut used = vec![false; got.len()];
    for a in reference {
        let mut hit = false;
        for (j, b) in got.iter().enumerate() {
            if !used[j] && eq(a, b) {
                used[j] = true;
                hit = true;
                break;
            }
        }
        if !hit {
            return Some(format!("the engine's row {a:?} is not in the body"));
        }
    }
    None
}

async fn sql(addr: &str, stmt: &str, params: &str) -> std::io::Result<HttpResponse> {
    let path = if params.is_empty() { "/sql".to_string() } else { format!("/sql?{params}") };
    post_text(addr, &path, stmt, T).await
}

struct Ctx<'a> {
    o: &'a mut Out,
}

impl Ctx<'_> {
    fn viol(&mut self, scenario: &str, what: Value, why: String) {
        self.o.violation(json!({"property": "C35", "kind": "native", "scenario": scenario, "request": what, "why": why}));
    }
}

/// one ready node answering `stmt`: check body/headers against the engine's own answer and the expected decision
async fn check_answer(cx: &mut Ctx<'_>, scenario: &str, node: &ServerHandle, members_up: usize, stmt: &str, ordered: bool, mode: &str, format: &str) {
    let ctx = node.state().context().expect("ready");
    let addr = node.address().to_string();
    let mut params = Vec::new();
    if !mode.is_empty() {
        params.push(format!("distributed={mode}"));
    }
    if !format.is_empty() {
        params.push(format!("format={format}"));
    }
    let params = params.join("&");
    let what = json!({"sql": stmt, "params": params, "members_up": members_up});
    cx.o.evaluations += 1;
    let reference = match ctx.sql(stmt).await {
        Ok(r) => r,
        Err(e) => {
            cx.o.count("reference_refuses", 1);
            // the front door must refuse too
            match sql(&addr, stmt, &params).await {
                Ok(r) if r.is_success() => cx.viol(scenario, what, format!("the engine refuses ({e}) but the front door answers {}", r.status)),
                _ => {}
            }
            return;
        }
    };
    let resp = match sql(&addr, stmt, &params).await {
        Ok(r) => r,
        Err(e) => {
            cx.viol(scenario, what, format!("request failed: {e}"));
            return;
        }
    };
    let plan_ok = plan_distributed(&ctx, stmt).is_ok();
    let expect_dist = match mode {
        "0" => Some(false),
        "1" => Some(true),
        _ => Some(members_up >= 2 && plan_ok),
    };
    if !resp.is_success() {
        // force mode may legitimately refuse shapes the gather path cannot run; auto and off must answer
        if mode == "1" {
            cx.o.count("force_refused", 1);
            return;
        }
        cx.viol(scenario, what, format!("status {}: {}", resp.status, resp.text().chars().take(200).collect::<String>()));
        return;
    }
    let dist = resp.header("x-qe-distributed").map(|s| s == "true");
    if dist.is_none() || dist != expect_dist {
        cx.viol(scenario, what.clone(), format!("x-qe-distributed is {:?}, expected {:?} (members up {members_up}, exactly mergeable: {plan_ok})", resp.header("x-qe-distributed"), expect_dist));
        return;
    }
    if dist == Some(false) && mode != "1" && resp.header("x-qe-distributed-skipped").map(|s| s.is_empty()).unwrap_or(true) {
        cx.viol(scenario, what.clone(), "answered locally without a reason (x-qe-distributed-skipped missing)".into());
        return;
    }
    let cells = ref_cells(&reference.batches);
    if resp.header("x-qe-rows").and_then(|s| s.parse::<usize>().ok()) != Some(cells.len()) {
        cx.viol(scenario, what.clone(), format!("x-qe-rows is {:?}, the engine returned {} rows", resp.header("x-qe-rows"), cells.len()));
        return;
    }
    let names: Vec<String> = reference.schema.fields().iter().map(|f| f.name().clone()).collect();
    let bad = match format {
        "" | "arrow" => match decode_ipc_stream(&resp.body) {
            Err(e) => Some(format!("Arrow body does not decode: {e}")),
            Ok((schema, batches)) => {
                let got = ref_cells(&batches);
                let n2: Vec<String> = schema.fields().iter().map(|f| f.name().clone()).collect();
                if n2 != names {
                    Some(format!("Arrow body columns {n2:?}, engine columns {names:?}"))
                } else {
                    match_rows(&cells, &got, ordered, |a, b| {
                        a.len() == b.len()
                            && a.iter().zip(b.iter()).all(|(x, y)| match (x, y) {
                                (Cell::Null, Cell::Null) => true,
                                (Cell::Int(p), Cell::Int(q)) => p == q,
                                (Cell::Float(p), Cell::Float(q)) => (p - q).abs() <= 1e-9 * p.abs().max(1.0),
                                (Cell::Str(p), Cell::Str(q)) => p == q,
                                _ => false,
                            })
                    })
                }
            }
        },
        "json" => match serde_json::from_slice::<Value>(&resp.body) {
            Err(e) => Some(format!("JSON body does not parse: {e}")),
            Ok(Value::Array(rows)) => match_rows(&cells, &rows, ordered, |a, b| {
                let Some(obj) = b.as_object() else { return false };
                obj.keys().all(|k| names.contains(k)) && a.iter().zip(names.iter()).all(|(c, n)| cell_matches_json(c, obj.get(n)))
            }),
            Ok(other) => {
                if cells.is_empty() && (other.is_null() || other == json!([])) {
                    None
                } else {
                    Some("JSON body is not an array of row objects".into())
                }
            }
        },
        "csv" => {
            let text = String::from_utf8_lossy(&resp.body).to_string();
            let rows = parse_csv(&text);
            if rows.is_empty() {
                if cells.is_empty() { None } else { Some("CSV body is empty".into()) }
            } else if rows[0] != names {
                Some(format!("CSV header {:?}, engine columns {names:?}", rows[0]))
            } else {
                match_rows(&cells, &rows[1..], ordered, |a, b| a.len() == b.len() && a.iter().zip(b.iter()).all(|(c, t)| cell_matches_text(c, t)))
            }
        }
        _ => None,
    };
    match bad {
        Some(why) => cx.viol(scenario, what, why),
        None => {
            cx.o.count(&format!("agree:{}:{}", if dist == Some(true) { "distributed" } else { "local" }, if format.is_empty() { "arrow" } else { format }), 1);
            cx.o.distinct.insert(fnv(format!("{scenario}{stmt}{params}").as_bytes()));
        }
    }
}

pub fn run(quick: bool, _seed: u64, work: &str) -> Out {
    let mut o = Out::new();
    let base = PathBuf::from(work).join(format!("c35-{}", std::process::id()));
    let _ = std::fs::remove_dir_all(&base);
    std::fs::create_dir_all(&base).unwrap();
    let data = base.join("data");
    make_data(&data, if quick { 60 } else { 5000 }, if quick { 8 } else { 512 }, 0);
    let other = base.join("other");
    // a peer whose files differ in layout (other row counts): its fragment must be refused, not merged
    make_data(&other, if quick { 67 } else { 5007 }, if quick { 8 } else { 512 }, 1);
    let rt = tokio::runtime::Builder::new_multi_thread().worker_threads(4).enable_all().build().unwrap();
    rt.block_on(async {
        let mut cx = Ctx { o: &mut o };
        let stmts = statements();
        let modes = ["", "auto", "0", "1"];
        let formats = ["", "json", "csv"];
        // ---- A. readiness: every load outcome ------------------------------------------------------------------
        for outcome in ["then-ok", "then-fail", "fail"] {
            let (tx, rx) = std::sync::mpsc::channel::<bool>();
            let node = spawn_node(1, data.clone(), if outcome == "fail" { Load::Fail } else { Load::Gate(rx) }).await;
            let addr = node.address().to_string();
            let scenario = format!("readiness/{outcome}");
            if outcome == "fail" {
                let st = node.state().clone();
                wait_until(|| st.load_error().is_some(), 10).await;
            }
            // while loading (or after a failed load): alive, not ready, no answers
            for round in 0..2 {
                cx.o.evaluations += 1;
                let h = get(&addr, "/healthz", T).await;
                if !h.as_ref().map(|r| r.is_success()).unwrap_or(false) {
                    cx.viol(&scenario, json!("GET /healthz"), "a node that is loading (or failed to load) must still report alive".into());
                }
                let r = get(&addr, "/readyz", T).await;
                if r.as_ref().map(|r| r.is_success()).unwrap_or(true) {
                    cx.viol(&scenario, json!("GET /readyz"), format!("ready before its tables are loaded: {:?}", r.map(|x| x.status)));
                }
                for (stmt, _) in stmts.iter().take(3) {
                    for m in modes {
                        cx.o.evaluations += 1;
                        let p = if m.is_empty() { String::new() } else { format!("distributed={m}") };
                        match sql(&addr, stmt, &p).await {
                            Ok(r) if r.status == 503 => cx.o.count("not_ready_503", 1),
                            Ok(r) => cx.viol(&scenario, json!({"sql": stmt, "params": p, "round": round}), format!("answered {} before the tables are loaded", r.status)),
                            Err(e) => cx.viol(&scenario, json!({"sql": stmt}), format!("request failed: {e}")),
                        }
                    }
                }
                cx.o.evaluations += 1;
                let frag = json!({"sql": "SELECT COUNT(*) FROM f", "table": "f", "shard_index": 0, "shard_count": 1, "splits_digest": 0});
                match post_json(&addr, "/fragment", frag.to_string().as_bytes(), T).await {
                    Ok(r) if r.status == 503 => cx.o.count("not_ready_503", 1),
                    Ok(r) => cx.viol(&scenario, json!("POST /fragment"), format!("answered {} before the tables are loaded", r.status)),
                    Err(e) => cx.viol(&scenario, json!("POST /fragment"), format!("request failed: {e}")),
                }
                if outcome == "then-fail" && round == 0 {
                    let _ = tx.send(false);
                    let st = node.state().clone();
                    wait_until(|| st.load_error().is_some(), 10).await;
                } else if outcome != "then-ok" {
                    tokio::time::sleep(Duration::from_millis(30)).await;
                } else {
                    break;
                }
            }
            if outcome == "then-ok" {
                let _ = tx.send(true);
                let st = node.state().clone();
                if !wait_until(|| st.tables_loaded(), 20).await {
                    cx.viol(&scenario, json!("load"), "tables never loaded".into());
                } else {
                    for (stmt, ord) in &stmts {
                        check_answer(&mut cx, &scenario, &node, 1, stmt, *ord, "", "").await;
                    }
                }
            } else {
                // the reason is reported
                cx.o.evaluations += 1;
                match sql(&addr, "SELECT 1", "").await {
                    Ok(r) if r.status == 503 && r.text().contains("failed to load") => cx.o.count("load_failure_reported", 1),
                    Ok(r) => cx.viol(&scenario, json!("POST /sql"), format!("after a failed load: status {} body {:?}", r.status, r.text().chars().take(120).collect::<String>())),
                    Err(e) => cx.viol(&scenario, json!("POST /sql"), format!("request failed: {e}")),
                }
            }
            node.shutdown().await;
        }
        // ---- B. decisions and encodings: cluster sizes 1..3, every mode x format x statement --------------------
        for size in 1..=3usize {
            let mut nodes = Vec::new();
            for i in 0..size {
                nodes.push(spawn_node(10 + i as u64, data.clone(), Load::Ok).await);
            }
            for n in &nodes {
                let st = n.state().clone();
                wait_until(|| st.tables_loaded(), 30).await;
            }
            let refs: Vec<&ServerHandle> = nodes.iter().collect();
            if !connect(&refs, size).await {
                cx.viol("cluster", json!({"size": size}), "members never saw each other up".into());
            }
            let scenario = format!("cluster-of-{size}");
            for (stmt, ord) in &stmts {
                for m in modes {
                    for f in formats {
                        if quick && size == 3 && !f.is_empty() && !m.is_empty() {
                            continue;
                        }
                        check_answer(&mut cx, &scenario, &nodes[0], size, stmt, *ord, m, f).await;
                    }
                }
            }
            // invalid parameters and statements are refused, never answered
            for (p, s) in [("distributed=maybe", "SELECT 1"), ("format=xml", "SELECT 1")] {
                cx.o.evaluations += 1;
                match sql(nodes[0].address(), s, p).await {
                    Ok(r) if r.status == 400 => cx.o.count("bad_parameter_refused", 1),
                    Ok(r) => cx.viol(&scenario, json!({"params": p}), format!("status {}", r.status)),
                    Err(e) => cx.viol(&scenario, json!({"params": p}), format!("request failed: {e}")),
                }
            }
            for s in bad_statements() {
                for m in modes {
                    cx.o.evaluations += 1;
                    let p = if m.is_empty() { String::new() } else { format!("distributed={m}") };
                    match sql(nodes[0].address(), s, &p).await {
                        Ok(r) if (400..600).contains(&r.status) && r.status != 500 => cx.o.count("bad_statement_refused", 1),
                        Ok(r) => cx.viol(&scenario, json!({"sql": s, "params": p}), format!("status {} for an invalid statement", r.status)),
                        Err(e) => cx.viol(&scenario, json!({"sql": s}), format!("request failed: {e}")),
                    }
                }
            }
            for n in nodes {
                n.shutdown().await;
            }
        }
        // ---- B2. every membership view: two peers, each absent / unknown (never probed) / up / down ---------------
        {
            let a = spawn_node_manual_membership(30, data.clone()).await;
            let p1 = spawn_node(31, data.clone(), Load::Ok).await;
            let p2 = spawn_node(32, data.clone(), Load::Ok).await;
            for n in [&a, &p1, &p2] {
                let st = n.state().clone();
                wait_until(|| st.tables_loaded(), 30).await;
            }
            // let the start-up discovery pass finish before taking over the view
            tokio::time::sleep(Duration::from_millis(200)).await;
            let peers = [(p1.address().to_string(), p1.node_id()), (p2.address().to_string(), p2.node_id())];
            let states = ["absent", "unknown", "up", "down"];
            let m = a.state().membership.clone();
            for s1 in states {
                for s2 in states {
                    m.set_members(vec![]);
                    let addrs: Vec<String> = [(s1, &peers[0]), (s2, &peers[1])].iter().filter(|(s, _)| *s != "absent").map(|(_, p)| p.0.clone()).collect();
                    m.set_members(addrs);
                    let mut up = 1;
                    for (s, p) in [(s1, &peers[0]), (s2, &peers[1])] {
                        match s {
                            "up" => {
                                m.record_up(&p.0, Some(p.1), None);
                                up += 1;
                            }
                            "down" => m.record_down(&p.0, "verification harness: marked down"),
                            _ => {}
                        }
                    }
                    let scenario = format!("membership/peer1-{s1}/peer2-{s2}");
                    for (stmt, ord) in stmts.iter().filter(|s| !s.0.contains("FROM e")).take(if quick { 5 } else { 11 }) {
                        for mode in ["", "auto", "0"] {
                            check_answer(&mut cx, &scenario, &a, up, stmt, *ord, mode, "").await;
                        }
                    }
                }
            }
            a.shutdown().await;
            p1.shutdown().await;
            p2.shutdown().await;
        }
        // ---- C. a distributed execution failure is never papered over with a local answer -----------------------
        for fault in ["peer-still-loading", "peer-has-other-data", "peer-died"] {
            let a = spawn_node(20, data.clone(), Load::Ok).await;
            let (_tx, rx) = std::sync::mpsc::channel::<bool>();
            let b = match fault {
                "peer-still-loading" => spawn_node(21, data.clone(), Load::Gate(rx)).await,
                "peer-has-other-data" => spawn_node(21, other.clone(), Load::Ok).await,
                _ => spawn_node(21, data.clone(), Load::Ok).await,
            };
            let st = a.state().clone();
            wait_until(|| st.tables_loaded(), 30).await;
            connect(&[&a, &b], 2).await;
            let scenario = format!("failure/{fault}");
            let addr = a.address().to_string();
            let mergeable: Vec<&str> = {
                let ctx = a.state().context().unwrap();
                // statements over the empty table e give the peer no shard at all: nothing can fail there
                stmts.iter().map(|s| s.0).filter(|s| !s.contains("FROM e") && plan_distributed(&ctx, s).is_ok()).collect()
            };
            let mut b_opt = Some(b);
            if fault == "peer-died" {
                b_opt.take().unwrap().shutdown().await;
            }
            for stmt in &mergeable {
                for m in ["", "1"] {
                    cx.o.evaluations += 1;
                    let p = if m.is_empty() { String::new() } else { format!("distributed={m}") };
                    let what = json!({"sql": stmt, "params": p});
                    match sql(&addr, stmt, &p).await {
                        Err(e) => cx.viol(&scenario, what, format!("request failed: {e}")),
                        Ok(r) if !r.is_success() => {
                            cx.o.count("distributed_failure_reported", 1);
                            cx.o.distinct.insert(fnv(format!("{scenario}{stmt}{p}").as_bytes()));
                        }
                        Ok(r) => {
                            let dist = r.header("x-qe-distributed") == Some("true");
                            let skipped = r.header("x-qe-distributed-skipped").unwrap_or("").to_string();
                            if fault == "peer-died" && dist && r.header("x-qe-shards") == Some("1") {
                                // forced distribution over the members that are up: discovery already dropped the dead peer, this node is the only shard
                                cx.o.count("peer_loss_noticed_before_query", 1);
                            } else if fault == "peer-died" && !dist && skipped.contains("only one cluster member") && m.is_empty() {
                                // discovery already noticed: a capability reason, decided before any fan-out
                                cx.o.count("peer_loss_noticed_before_query", 1);
                            } else if fault == "peer-has-other-data" && dist {
                                // both nodes answered their shard: only acceptable if the engine detected nothing to detect
                                cx.viol(&scenario, what, "a peer holding different files took part in a distributed answer".into());
                            } else {
                                cx.viol(&scenario, what, format!("answered 200 (x-qe-distributed={:?}, skipped={skipped:?}) although the peer cannot execute its fragment", r.header("x-qe-distributed")));
                            }
                        }
                    }
                }
                // and a local answer is still available on request
                cx.o.evaluations += 1;
                match sql(&addr, stmt, "distributed=0").await {
                    Ok(r) if r.is_success() && r.header("x-qe-distributed") == Some("false") => cx.o.count("local_on_request_ok", 1),
                    Ok(r) => cx.viol(&scenario, json!({"sql": stmt, "params": "distributed=0"}), format!("status {}", r.status)),
                    Err(e) => cx.viol(&scenario, json!({"sql": stmt}), format!("request failed: {e}")),
                }
            }
            a.shutdown().await;
            if let Some(b) = b_opt {
                b.shutdown().await;
            }
        }
    });
    let _ = std::fs::remove_dir_all(&base);
    o
}
