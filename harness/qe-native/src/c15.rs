//! C15: membership view under every history (explicit-state BFS over the real Membership object).
use crate::out::Out;
use query_engine::distributed::membership::{is_self_address, Discovery, Member, Membership, PeerStatus};
use serde_json::{json, Value};
use std::collections::{BTreeMap, HashMap, VecDeque};

const SELF_ADDR: &str = "127.0.0.1:7001";
const UNIVERSE: [&str; 5] = [
    "127.0.0.1:7001",            // self, verbatim
    "localhost:7001",            // self, other spelling (resolves through /etc/hosts)
    "127.0.0.1:7002",            // port-only difference: a peer
    "127.0.0.2:7001",            // another host: a peer
    "unresolvable.invalid:7001", // cannot be resolved: a peer (visible, probed Down)
];

#[derive(Clone, Debug, PartialEq, Eq, Hash, PartialOrd, Ord)]
enum Op {
    Set(Vec<usize>), // indices into UNIVERSE, may contain a duplicate
    Up(usize, bool), // address, with (id, flight)?
    Down(usize),
    ResolveErr,
}

fn op_json(op: &Op) -> Value {
    match op {
        Op::Set(s) => json!({"set_members": s.iter().map(|i| UNIVERSE[*i]).collect::<Vec<_>>()}),
        Op::Up(x, w) => json!({"record_up": UNIVERSE[*x], "with_id_and_flight": w}),
        Op::Down(x) => json!({"record_down": UNIVERSE[*x]}),
        Op::ResolveErr => json!("record_resolve_error"),
    }
}

fn alphabet() -> Vec<Op> {
    let mut v = Vec::new();
    for mask in 0..32u32 {
        let s: Vec<usize> = (0..5).filter(|i| mask >> i & 1 == 1).collect();
        v.push(Op::Set(s));
    }
    // duplicated entries
    v.push(Op::Set(vec![2, 2]));
    v.push(Op::Set(vec![0, 2, 0, 3]));
    v.push(Op::Set(vec![1, 1, 3]));
    for x in 0..5 {
        v.push(Op::Up(x, false));
        v.push(Op::Up(x, true));
        v.push(Op::Down(x));
    }
    v.push(Op::ResolveErr);
    v
}

fn apply(m: &Membership, op: &Op) {
    match op {
        Op::Set(s) => {
            m.set_members(s.iter().map(|i| UNIVERSE[*i].to_string()).collect());
        }
        Op::Up(x, w) => m.record_up(UNIVERSE[*x], if *w { Some(7) } else { None }, if *w { Some("127.0.0.9:50051".into()) } else { None }),
        Op::Down(x) => m.record_down(UNIVERSE[*x], "probe failed"),
        Op::ResolveErr => m.record_resolve_error("dns blip"),
    }
}

/// Reference model (boring map).
#[derive(Clone, Debug, PartialEq, Eq, Hash, PartialOrd, Ord, Default)]
struct RPeer {
    status: u8, // 0 unknown 1 up 2 down
    node_id: Option<u64>,
    flight: Option<String>,
    failures: u32,
    has_error: bool,
}
#[derive(Clone, Debug, PartialEq, Eq, Default)]
struct RModel {
    peers: BTreeMap<String, RPeer>,
    resolved: bool,
    resolve_err: bool,
    generation: u64,
}
fn ref_is_self(i: usize) -> bool {
    i == 0 || i == 1
}
fn ref_apply(r: &mut RModel, op: &Op) {
    match op {
        Op::Set(s) => {
            let incoming: std::collections::BTreeSet<String> = s.iter().filter(|i| !ref_is_self(**i)).map(|i| UNIVERSE[*i].to_string()).collect();
            let before: std::collections::BTreeSet<String> = r.peers.keys().cloned().collect();
            r.peers.retain(|k, _| incoming.contains(k));
            for a in &incoming {
                r.peers.entry(a.clone()).or_default();
            }
            r.resolved = true;
            r.resolve_err = false;
            if before != incoming {
                r.generation += 1;
            }
        }
        Op::Up(x, w) => {
            if let Some(p) = r.peers.get_mut(UNIVERSE[*x]) {
                if p.status != 1 {
                    r.generation += 1;
                }
                p.status = 1;
                p.failures = 0;
                p.has_error = false;
                if *w {
                    p.node_id = Some(7);
                    p.flight = Some("127.0.0.9:50051".into());
                }
            }
        }
        Op::Down(x) => {
            if let Some(p) = r.peers.get_mut(UNIVERSE[*x]) {
                if p.status == 1 {
                    r.generation += 1;
                }
                p.status = 2;
                p.failures = p.failures.saturating_add(1);
                p.has_error = true;
            }
        }
        Op::ResolveErr => r.resolve_err = true,
    }
}

fn status_code(s: PeerStatus) -> u8 {
    match s {
        PeerStatus::Unknown => 0,
        PeerStatus::Up => 1,
        PeerStatus::Down => 2,
    }
}

/// observable state of the real object, in the reference model's vocabulary
fn observe(m: &Membership) -> (RModel, Vec<Member>) {
    let members = m.members();
    let mut r = RModel::default();
    for mem in &members {
        if !mem.is_self {
            r.peers.insert(
                mem.address.clone(),
                RPeer { status: status_code(mem.status), node_id: mem.node_id, flight: mem.flight.clone(), failures: mem.consecutive_failures, has_error: mem.last_error.is_some() },
            );
        }
    }
    r.resolved = m.resolved();
    r.resolve_err = m.last_resolve_error().is_some();
    r.generation = m.generation();
    (r, members)
}

fn invariants(m: &Membership, members: &[Member]) -> Option<String> {
    let selfs = members.iter().filter(|x| x.is_self).count();
    if selfs != 1 {
        return Some(format!("{selfs} members are marked is_self"));
    }
    let peers = m.peer_addresses();
    let mut sorted = peers.clone();
    sorted.sort();
    sorted.dedup();
    if sorted != peers {
        return Some("peer_addresses() not sorted/unique".into());
    }
    for p in &peers {
        if p == SELF_ADDR || is_self_address(p, SELF_ADDR) {
            return Some(format!("a spelling of this node ({p}) is listed as a peer"));
        }
    }
    let addrs: Vec<&String> = members.iter().map(|x| &x.address).collect();
    let mut a2 = addrs.clone();
    a2.sort();
    a2.dedup();
    if a2 != addrs {
        return Some("members() addresses are not sorted and unique".into());
    }
    if members.iter().filter(|x| !x.is_self).map(|x| x.address.clone()).collect::<Vec<_>>() != peers {
        return Some("members() and peer_addresses() disagree".into());
    }
    None
}

/// canonical key: failures capped at 2 (no method's behaviour reads the exact count beyond incrementing it);
/// generation dropped (checked per transition).
fn key(r: &RModel) -> String {
    let mut s = String::new();
    for (a, p) in &r.peers {
        s.push_str(&format!("{a}|{}|{:?}|{:?}|{}|{};", p.status, p.node_id, p.flight, p.failures.min(2), p.has_error));
    }
    s.push_str(&format!("R{}E{}", r.resolved, r.resolve_err));
    s
}

fn build(hist: &[Op]) -> (Membership, RModel) {
    let m = Membership::new(1, SELF_ADDR, Discovery::Static(vec![]));
    let mut r = RModel::default();
    for op in hist {
        apply(&m, op);
        ref_apply(&mut r, op);
    }
    (m, r)
}

pub fn run(quick: bool, seed: u64) -> Out {
    let depth = if quick { 4 } else { 6 };
    let mut alpha = alphabet();
    let rot = (seed as usize) % alpha.len();
    alpha.rotate_left(rot);
    let mut o = Out::new();
    let mut seen: HashMap<String, usize> = HashMap::new();
    let mut frontier: VecDeque<Vec<Op>> = VecDeque::new();
    seen.insert(key(&RModel::default()), 0);
    frontier.push_back(vec![]);
    let mut transitions: u64 = 0;
    let mut max_depth = 0usize;
    let mut outcomes: std::collections::HashSet<String> = std::collections::HashSet::new();
    while let Some(hist) = frontier.pop_front() {
        max_depth = max_depth.max(hist.len());
        if hist.len() >= depth {
            continue;
        }
        for op in &alpha {
            // rebuild the pre-state (Membership is not Clone), observe, apply, observe
            let (m, mut r) = build(&hist);
            let (before, members_before) = observe(&m);
            apply(&m, op);
            ref_apply(&mut r, op);
            let (after, members_after) = observe(&m);
            transitions += 1;
            o.evaluations += 1;
            let mut why: Option<String> = invariants(&m, &members_after);
            if why.is_none() && after.generation < before.generation {
                why = Some("generation decreased".into());
            }
            if why.is_none() {
                let set_changed = before.peers.keys().collect::<Vec<_>>() != after.peers.keys().collect::<Vec<_>>();
                if set_changed && after.generation <= before.generation {
                    why = Some("member set changed but generation did not advance".into());
                }
                if let Op::ResolveErr = op {
                    if before.peers != after.peers || before.resolved != after.resolved {
                        why = Some("a resolve error changed the members or the resolved flag".into());
                    }
                }
                if let Op::Set(_) = op {
                    if !set_changed {
                        // same set re-resolved: every peer record identical field by field (un-capped), timestamps included
                        for (a, b) in members_before.iter().zip(members_after.iter()) {
                            if a.is_self {
                                continue;
                            }
                            if a.address != b.address || a.status != b.status || a.node_id != b.node_id || a.flight != b.flight
                                || a.consecutive_failures != b.consecutive_failures || a.last_error != b.last_error || a.last_seen_unix_ms != b.last_seen_unix_ms
                            {
                                why = Some(format!("re-resolving the same set changed the probe state of {}", a.address));
                            }
                        }
                        if after.generation != before.generation {
                            why = Some("re-resolving the same set advanced the generation".into());
                        }
                    }
                }
            }
            if why.is_none() && after != r {
                why = Some(format!("state differs from the reference model: real {after:?} model {r:?}"));
            }
            if let Some(w) = why {
                let mut h: Vec<Value> = hist.iter().map(op_json).collect();
                h.push(op_json(op));
                o.violation(json!({"property": "C15", "kind": "native", "history": h, "why": w}));
                continue;
            }
            let k = key(&after);
            outcomes.insert(k.clone());
            if !seen.contains_key(&k) {
                let mut h2 = hist.clone();
                h2.push(op.clone());
                seen.insert(k, h2.len());
                if o.samples.len() < 4 && h2.len() == 3 {
                    o.sample(json!({"history": h2.iter().map(op_json).collect::<Vec<_>>(), "state": format!("{after:?}")}));
                }
                frontier.push_back(h2);
            }
        }
    }
    o.nontrivial = seen.len() as u64;
    o.extra.insert("states".into(), json!(seen.len()));
    o.extra.insert("transitions".into(), json!(transitions));
    o.extra.insert("max_depth".into(), json!(max_depth));
    o.extra.insert("distinct_outcomes".into(), json!(outcomes.len()));
    o.extra.insert("traces_validated_against_impl".into(), json!(transitions));
    o.extra.insert("alphabet_size".into(), json!(alpha.len()));
    o
}
