//! C17: an Iceberg snapshot reads exactly its live data files.
//!
//! The harness is an Iceberg WRITER (metadata.json, Avro manifest lists and manifests through apache-avro) driven
//! by a reference model of the table history. Breadth-first search over operation histories (append, remove a file,
//! rewrite manifests, rewrite metadata, expire a snapshot), deduplicated on the model state; every reached state is
//! materialised in every URI form and discovery mode and opened through the real reader at the current snapshot,
//! at every listed snapshot and at an unknown one; refusal variants are appended to every state.
use crate::out::{fnv, Out};
use apache_avro::types::Value as A;
use apache_avro::{Schema as AvroSchema, Writer};
use arrow::array::{Array, ArrayRef, Int64Array};
use arrow::datatypes::{DataType, Field, Schema};
use arrow::record_batch::RecordBatch;
use parquet::arrow::ArrowWriter;
use query_engine::execution::ExecutionContext;
use serde_json::json;
use std::collections::{BTreeSet, HashSet, VecDeque};
use std::path::{Path, PathBuf};
use std::sync::Arc;

// ---- model ---------------------------------------------------------------------------------------------------
#[derive(Clone, Debug, PartialEq, Eq, Hash, PartialOrd, Ord)]
struct Entry {
    status: i32, // 0 existing, 1 added, 2 deleted
    file: u32,
}

#[derive(Clone, Debug, PartialEq, Eq, Hash)]
struct Snap {
    id: i64,
    manifests: Vec<Vec<Entry>>,
}

impl Snap {
    fn live(&self) -> BTreeSet<u32> {
        self.manifests.iter().flatten().filter(|e| e.status != 2).map(|e| e.file).collect()
    }
}

#[derive(Clone, Debug, PartialEq, Eq, Hash)]
struct Table {
    snaps: Vec<Snap>,     // listed snapshots, oldest first
    current: i64,
    next_file: u32,
    next_snap: i64,
    metadata_versions: u32, // how many metadata files exist (each op writes one)
}

#[derive(Clone, Debug)]
enum Op {
    Append(u32),
    Remove(u32),
    RewriteManifests,
    RewriteMetadata,
    Expire,
}

fn apply(t: &Table, op: &Op) -> Option<Table> {
    let mut n = t.clone();
    let cur = t.snaps.iter().find(|s| s.id == t.current)?.clone();
    match op {
        Op::Append(k) => {
            let mut m = cur.manifests.clone();
            // carried-over manifests keep their entries; the new manifest holds the ADDED files
            let new: Vec<Entry> = (0..*k).map(|i| Entry { status: 1, file: t.next_file + i }).collect();
            m.push(new);
            n.next_file += k;
            n.snaps.push(Snap { id: t.next_snap, manifests: m });
            n.current = t.next_snap;
            n.next_snap += 1;
        }
        Op::Remove(f) => {
            if !cur.live().contains(f) {
                return None;
            }
            let m: Vec<Vec<Entry>> = cur
                .manifests
                .iter()
                .map(|man| {
                    if man.iter().any(|e| e.file == *f && e.status != 2) {
                        man.iter().filter(|e| e.status != 2).map(|e| Entry { status: if e.file == *f { 2 } else { 0 }, file: e.file }).collect()
                    } else {
                        man.clone()
                    }
                })
                .collect();
            n.snaps.push(Snap { id: t.next_snap, manifests: m });
            n.current = t.next_snap;
            n.next_snap += 1;
        }
        Op::RewriteManifests => {
            let live: Vec<Entry> = cur.live().into_iter().map(|f| Entry { status: 0, file: f }).collect();
            if cur.manifests.len() == 1 && cur.manifests[0] == live {
                return None;
            }
            n.snaps.push(Snap { id: t.next_snap, manifests: vec![live] });
            n.current = t.next_snap;
            n.next_snap += 1;
        }
        Op::RewriteMetadata => {}
        Op::Expire => {
            if n.snaps.len() < 2 || n.snaps[0].id == n.current {
                return None;
            }
            n.snaps.remove(0);
        }
    }
    n.metadata_versions += 1;
    Some(n)
}

/// canonical key: snapshot ids are renumbered by position, file numbers kept (they identify rows)
fn canon(t: &Table) -> String {
    format!("{:?}|cur{}|mv{}", t.snaps.iter().map(|s| &s.manifests).collect::<Vec<_>>(), t.snaps.iter().position(|s| s.id == t.current).unwrap_or(99), t.metadata_versions.min(2))
}

// ---- writer --------------------------------------------------------------------------------------------------
#[derive(Clone, Copy, Debug, PartialEq)]
enum Uri {
    FileTriple, // file:///abs
    FileSingle, // file:/abs
    Absolute,
    Relative,
}

#[derive(Clone, Copy, Debug, PartialEq)]
enum Discovery {
    HintN,    // version-hint.text = "N", files vN.metadata.json
    HintVN,   // version-hint.text = "vN"
    NewestMs, // no hint; <name>.metadata.json, newest last-updated-ms wins; the OLDER files carry lexically larger names
}

#[derive(Clone, Debug, PartialEq)]
enum Poison {
    None,
    PositionDelete,
    EqualityDelete,
    OrcFile,
    AvroFile,
    RemoteManifestList,
    RemoteManifest,
    RemoteDataFile,
    FormatV3,
}

fn uri(dir: &Path, rel: &str, form: Uri) -> String {
    let abs = dir.join(rel);
    match form {
        Uri::FileTriple => format!("file://{}", abs.display()),
        Uri::FileSingle => format!("file:{}", abs.display()),
        Uri::Absolute => abs.display().to_string(),
        Uri::Relative => rel.to_string(),
    }
}

const MANIFEST_LIST_SCHEMA: &str = r#"{"type":"record","name":"manifest_file","fields":[
 {"name":"manifest_path","type":"string"},{"name":"manifest_length","type":"long"},{"name":"partition_spec_id","type":"int"},
 {"name":"content","type":"int"},{"name":"sequence_number","type":"long"},{"name":"added_snapshot_id","type":"long"}]}"#;

const MANIFEST_SCHEMA: &str = r#"{"type":"record","name":"manifest_entry","fields":[
 {"name":"status","type":"int"},{"name":"snapshot_id","type":["null","long"]},
 {"name":"data_file","type":{"type":"record","name":"r2","fields":[
   {"name":"content","type":"int"},{"name":"file_path","type":"string"},{"name":"file_format","type":"string"},
   {"name":"partition","type":{"type":"record","name":"r102","fields":[]}},
   {"name":"record_count","type":"long"},{"name":"file_size_in_bytes","type":"long"}]}}]}"#;

fn write_avro(path: &Path, schema: &str, records: Vec<A>) {
    let schema = AvroSchema::parse_str(schema).unwrap();
    let mut w = Writer::with_codec(&schema, std::fs::File::create(path).unwrap(), apache_avro::Codec::Deflate(Default::default())).unwrap();
    for r in records {
        w.append(r).unwrap();
    }
    w.flush().unwrap();
}

fn data_file(dir: &Path, f: u32) -> String {
    let rel = format!("data/f{f:03}.parquet");
    let p = dir.join(&rel);
    if !p.exists() {
        std::fs::create_dir_all(dir.join("data")).unwrap();
        let schema = Arc::new(Schema::new(vec![Field::new("id", DataType::Int64, false)]));
        let b = RecordBatch::try_new(schema.clone(), vec![Arc::new(Int64Array::from(vec![f as i64 * 10, f as i64 * 10 + 1])) as ArrayRef]).unwrap();
        let mut w = ArrowWriter::try_new(std::fs::File::create(&p).unwrap(), schema, None).unwrap();
        w.write(&b).unwrap();
        w.close().unwrap();
    }
    rel
}

fn materialise(dir: &Path, t: &Table, form: Uri, disc: Discovery, poison: &Poison) {
    let _ = std::fs::remove_dir_all(dir);
    std::fs::create_dir_all(dir.join("metadata")).unwrap();
    let mut snaps_json = Vec::new();
    for (si, s) in t.snaps.iter().enumerate() {
        let is_cur = s.id == t.current;
        // the variant is applied to the first LIVE entry of the current snapshot (and to the manifest holding it)
        let target: Option<(usize, usize)> = s.manifests.iter().enumerate().find_map(|(mi, m)| m.iter().position(|e| e.status != 2).map(|ei| (mi, ei)));
        let mut list_records = Vec::new();
        for (mi, man) in s.manifests.iter().enumerate() {
            let mrel = format!("metadata/m-{}-{mi}.avro", s.id);
            let mut recs = Vec::new();
            for (ei, e) in man.iter().enumerate() {
                let frel = data_file(dir, e.file);
                let mut fpath = uri(dir, &frel, form);
                let mut fmt = "PARQUET".to_string();
                if is_cur && target == Some((mi, ei)) {
                    match poison {
                        Poison::OrcFile => fmt = "ORC".into(),
                        Poison::AvroFile => fmt = "avro".into(),
                        Poison::RemoteDataFile => fpath = format!("s3://bucket/{frel}"),
                        _ => {}
                    }
                }
                recs.push(A::Record(vec![
                    ("status".into(), A::Int(e.status)),
                    ("snapshot_id".into(), A::Union(1, Box::new(A::Long(s.id)))),
                    (
                        "data_file".into(),
                        A::Record(vec![
                            ("content".into(), A::Int(0)),
                            ("file_path".into(), A::String(fpath)),
                            ("file_format".into(), A::String(fmt)),
                            ("partition".into(), A::Record(vec![])),
                            ("record_count".into(), A::Long(2)),
                            ("file_size_in_bytes".into(), A::Long(400)),
                        ]),
                    ),
                ]));
            }
            if is_cur && target.map(|x| x.0) == Some(mi) && matches!(poison, Poison::PositionDelete | Poison::EqualityDelete) {
                let c = if *poison == Poison::PositionDelete { 1 } else { 2 };
                recs.push(A::Record(vec![
                    ("status".into(), A::Int(1)),
                    ("snapshot_id".into(), A::Union(1, Box::new(A::Long(s.id)))),
                    (
                        "data_file".into(),
                        A::Record(vec![
                            ("content".into(), A::Int(c)),
                            ("file_path".into(), A::String(uri(dir, "data/deletes.parquet", form))),
                            ("file_format".into(), A::String("PARQUET".into())),
                            ("partition".into(), A::Record(vec![])),
                            ("record_count".into(), A::Long(1)),
                            ("file_size_in_bytes".into(), A::Long(100)),
                        ]),
                    ),
                ]));
            }
            write_avro(&dir.join(&mrel), MANIFEST_SCHEMA, recs);
            let mut mpath = uri(dir, &mrel, form);
            if is_cur && target.map(|x| x.0) == Some(mi) && *poison == Poison::RemoteManifest {
                mpath = format!("hdfs://nn/{mrel}");
            }
            list_records.push(A::Record(vec![
                ("manifest_path".into(), A::String(mpath)),
                ("manifest_length".into(), A::Long(1000)),
                ("partition_spec_id".into(), A::Int(0)),
                ("content".into(), A::Int(0)),
                ("sequence_number".into(), A::Long(si as i64 + 1)),
                ("added_snapshot_id".into(), A::Long(s.id)),
            ]));
        }
        let lrel = format!("metadata/snap-{}.avro", s.id);
        write_avro(&dir.join(&lrel), MANIFEST_LIST_SCHEMA, list_records);
        let mut lpath = uri(dir, &lrel, form);
        if is_cur && *poison == Poison::RemoteManifestList {
            lpath = format!("s3://bucket/{lrel}");
        }
        // snapshots are written in REVERSE timestamp order on purpose: listing order must not matter
        snaps_json.push(json!({"snapshot-id": s.id, "timestamp-ms": 1_700_000_000_000i64 + s.id * 1000, "manifest-list": lpath, "summary": {"operation": "append"}}));
    }
    snaps_json.reverse();
    let version = if *poison == Poison::FormatV3 { 3 } else { 2 };
    // metadata files: the current one plus older versions (same snapshot list minus nothing, an OLDER current pointer)
    let nver = t.metadata_versions.max(1);
    for v in 1..=nver {
        let is_latest = v == nver;
        let cur = if is_latest { t.current } else { t.snaps.first().map(|s| s.id).unwrap_or(t.current) };
        let body = json!({"format-version": if is_latest { version } else { 2 }, "table-uuid": "00000000-0000-0000-0000-000000000017", "location": dir.display().to_string(),
            "last-updated-ms": 1_700_000_000_000i64 + v as i64 * 10, "current-snapshot-id": cur, "snapshots": snaps_json, "schemas": [], "partition-specs": []});
        let name = match disc {
            Discovery::HintN | Discovery::HintVN => format!("v{v}.metadata.json"),
            // older versions get lexically LARGER names: only last-updated-ms may decide
            Discovery::NewestMs => format!("{:05}-meta.metadata.json", 90000 - v),
        };
        std::fs::write(dir.join("metadata").join(name), serde_json::to_vec_pretty(&body).unwrap()).unwrap();
    }
    match disc {
        Discovery::HintN => std::fs::write(dir.join("metadata/version-hint.text"), format!("{nver}\n")).unwrap(),
        Discovery::HintVN => std::fs::write(dir.join("metadata/version-hint.text"), format!("v{nver}")).unwrap(),
        Discovery::NewestMs => {}
    }
}

fn read_ids(rt: &tokio::runtime::Runtime, dir: &Path, snap: Option<i64>) -> Result<Vec<i64>, String> {
    let mut ctx = ExecutionContext::new();
    ctx.register_iceberg("t", dir, snap).map_err(|e| e.to_string())?;
    let r = rt.block_on(ctx.sql("SELECT id FROM t")).map_err(|e| e.to_string())?;
    let mut v = Vec::new();
    for b in &r.batches {
        let a = b.column(0).as_any().downcast_ref::<Int64Array>().ok_or("id is not int64")?;
        for i in 0..a.len() {
            v.push(a.value(i));
        }
    }
    v.sort();
    Ok(v)
}

fn want_ids(live: &BTreeSet<u32>) -> Vec<i64> {
    let mut v: Vec<i64> = live.iter().flat_map(|f| [*f as i64 * 10, *f as i64 * 10 + 1]).collect();
    v.sort();
    v
}

pub fn run(quick: bool, _seed: u64, work: &str) -> Out {
    let mut o = Out::new();
    let base = PathBuf::from(work).join(format!("c17-{}", std::process::id()));
    let _ = std::fs::remove_dir_all(&base);
    std::fs::create_dir_all(&base).unwrap();
    let rt = tokio::runtime::Builder::new_current_thread().enable_all().build().unwrap();
    let depth = if quick { 4 } else { 6 };
    // initial state: one snapshot appending file 0
    let init = Table { snaps: vec![Snap { id: 1, manifests: vec![vec![Entry { status: 1, file: 0 }]] }], current: 1, next_file: 1, next_snap: 2, metadata_versions: 1 };
    let mut seen: HashSet<String> = HashSet::new();
    let mut q: VecDeque<(Table, Vec<String>)> = VecDeque::new();
    seen.insert(canon(&init));
    q.push_back((init, vec!["append(1)".into()]));
    let mut states = 0u64;
    let mut transitions = 0u64;
    let forms = [Uri::FileTriple, Uri::FileSingle, Uri::Absolute, Uri::Relative];
    let discs = [Discovery::HintN, Discovery::HintVN, Discovery::NewestMs];
    let poisons = [Poison::PositionDelete, Poison::EqualityDelete, Poison::OrcFile, Poison::AvroFile, Poison::RemoteManifestList, Poison::RemoteManifest, Poison::RemoteDataFile, Poison::FormatV3];
    while let Some((t, hist)) = q.pop_front() {
        states += 1;
        let dir = base.join("tbl");
        let cur_live = t.snaps.iter().find(|s| s.id == t.current).map(|s| s.live()).unwrap_or_default();
        for (fi, form) in forms.iter().enumerate() {
            for (di, disc) in discs.iter().enumerate() {
                // every state sees every form and every discovery mode; the full cross product on small states
                if !(fi == di % forms.len() || fi == (states as usize + di) % forms.len() || t.snaps.len() <= 2) {
                    continue;
                }
                materialise(&dir, &t, *form, *disc, &Poison::None);
                let desc = |what: &str| json!({"history": hist, "uri_form": format!("{form:?}"), "discovery": format!("{disc:?}"), "open": what,
                    "snapshots": t.snaps.iter().map(|s| json!({"id": s.id, "manifests": s.manifests.iter().map(|m| m.iter().map(|e| format!("{}:f{}", ["EXISTING", "ADDED", "DELETED"][e.status as usize], e.file)).collect::<Vec<_>>()).collect::<Vec<_>>()})).collect::<Vec<_>>(), "current": t.current});
                // current
                o.evaluations += 1;
                let got = read_ids(&rt, &dir, None);
                if cur_live.is_empty() {
                    match got {
                        Err(_) => o.count("empty_snapshot_refused", 1),
                        Ok(v) => o.violation(json!({"property": "C17", "kind": "native", "case": desc("current"), "why": format!("a snapshot without live files was served: {v:?}")})),
                    }
                } else {
                    match got {
                        Ok(v) if v == want_ids(&cur_live) => {
                            o.count("current_ok", 1);
                            o.distinct.insert(fnv(format!("{}{form:?}{disc:?}", canon(&t)).as_bytes()));
                        }
                        Ok(v) => o.violation(json!({"property": "C17", "kind": "native", "case": desc("current"), "why": format!("rows {v:?}, live files hold {:?}", want_ids(&cur_live))})),
                        Err(e) => o.violation(json!({"property": "C17", "kind": "native", "case": desc("current"), "why": format!("open failed: {e}")})),
                    }
                }
                // every listed snapshot, and one unknown
                for s in &t.snaps {
                    o.evaluations += 1;
                    let live = s.live();
                    match (read_ids(&rt, &dir, Some(s.id)), live.is_empty()) {
                        (Err(_), true) => o.count("empty_snapshot_refused", 1),
                        (Ok(v), false) if v == want_ids(&live) => o.count("snapshot_ok", 1),
                        (Ok(v), _) => o.violation(json!({"property": "C17", "kind": "native", "case": desc(&format!("snapshot {}", s.id)), "why": format!("rows {v:?}, live files hold {:?}", want_ids(&live))})),
                        (Err(e), false) => o.violation(json!({"property": "C17", "kind": "native", "case": desc(&format!("snapshot {}", s.id)), "why": format!("open failed: {e}")})),
                    }
                }
                o.evaluations += 1;
                match read_ids(&rt, &dir, Some(987654)) {
                    Err(_) => o.count("unknown_snapshot_refused", 1),
                    Ok(v) => o.violation(json!({"property": "C17", "kind": "native", "case": desc("snapshot 987654"), "why": format!("an unknown snapshot id was served: {v:?}")})),
                }
                // expired snapshots are unknown too
                for id in 1..t.next_snap {
                    if !t.snaps.iter().any(|s| s.id == id) {
                        o.evaluations += 1;
                        match read_ids(&rt, &dir, Some(id)) {
                            Err(_) => o.count("expired_snapshot_refused", 1),
                            Ok(v) => o.violation(json!({"property": "C17", "kind": "native", "case": desc(&format!("expired snapshot {id}")), "why": format!("an expired snapshot was served: {v:?}")})),
                        }
                    }
                }
            }
        }
        // refusal variants appended to this state
        if !cur_live.is_empty() {
            for (pi, p) in poisons.iter().enumerate() {
                let form = forms[(pi + states as usize) % forms.len()];
                let disc = discs[(pi + states as usize) % discs.len()];
                materialise(&dir, &t, form, disc, p);
                o.evaluations += 1;
                match read_ids(&rt, &dir, None) {
                    Err(_) => o.count("refusal_variant_refused", 1),
                    Ok(v) => o.violation(json!({"property": "C17", "kind": "native", "case": {"history": hist, "variant": format!("{p:?}"), "uri_form": format!("{form:?}")}, "why": format!("served {v:?} although the table must be refused")})),
                }
            }
        }
        if hist.len() >= depth {
            continue;
        }
        let mut ops: Vec<(Op, String)> = vec![(Op::Append(1), "append(1)".into()), (Op::Append(2), "append(2)".into()), (Op::RewriteManifests, "rewrite_manifests".into()),
            (Op::RewriteMetadata, "rewrite_metadata".into()), (Op::Expire, "expire_oldest".into())];
        for f in cur_live.iter() {
            ops.push((Op::Remove(*f), format!("remove(f{f})")));
        }
        for (op, name) in ops {
            if let Some(n) = apply(&t, &op) {
                transitions += 1;
                if seen.insert(canon(&n)) {
                    let mut h = hist.clone();
                    h.push(name);
                    q.push_back((n, h));
                }
            }
        }
    }
    o.extra.insert("states".into(), json!(states));
    o.extra.insert("transitions".into(), json!(transitions));
    o.extra.insert("depth".into(), json!(depth));
    o.sample(json!({"states": states, "transitions": transitions, "depth": depth}));
    let _ = std::fs::remove_dir_all(&base);
    o
}
