//! C06: compiled predicate == interpreter, mask and validity, for every expression of the compiled subset
//! (bounded depth) over a universal batch of special values, plus chunk-boundary lengths and slices.
use crate::out::{fnv, Out};
use arrow::array::{Array, ArrayRef, BooleanArray, Date32Array, Float64Array, Int32Array, Int64Array};
use arrow::datatypes::{DataType, Field, Schema};
use arrow::record_batch::RecordBatch;
use ordered_float::OrderedFloat;
use query_engine::physical::compiled_expr::CompiledPredicate;
use query_engine::physical::operators::evaluate_expr;
use query_engine::planner::{BinaryOp, Column, Expr, ScalarValue, UnaryOp};
use rayon::prelude::*;
use serde_json::json;
use std::sync::Arc;

fn col(n: &str) -> Expr {
    Expr::Column(Column { relation: None, name: n.to_string() })
}
fn lf(v: f64) -> Expr {
    Expr::Literal(ScalarValue::Float64(OrderedFloat(v)))
}
fn bin(l: Expr, op: BinaryOp, r: Expr) -> Expr {
    Expr::BinaryExpr { left: Box::new(l), op, right: Box::new(r) }
}
fn not(e: Expr) -> Expr {
    Expr::UnaryExpr { op: UnaryOp::Not, expr: Box::new(e) }
}

const CMPS: [BinaryOp; 6] = [BinaryOp::Eq, BinaryOp::NotEq, BinaryOp::Lt, BinaryOp::LtEq, BinaryOp::Gt, BinaryOp::GtEq];
const ARITH: [BinaryOp; 4] = [BinaryOp::Add, BinaryOp::Subtract, BinaryOp::Multiply, BinaryOp::Divide];

fn fvals() -> Vec<Option<f64>> {
    vec![None, Some(f64::NAN), Some(f64::NEG_INFINITY), Some(-0.0), Some(0.0), Some(0.5), Some(f64::INFINITY)]
}

/// universal batch: every combination of the per-column domains
fn universal() -> RecordBatch {
    let fv = fvals();
    let gv = fvals();
    let iv: Vec<Option<i64>> = vec![None, Some(-1), Some(0), Some(1)];
    let jv: Vec<Option<i64>> = vec![None, Some(0), Some(i64::MAX)];
    let kv: Vec<Option<i32>> = vec![None, Some(-1), Some(1)];
    let dv: Vec<Option<i32>> = vec![None, Some(19000), Some(19001)];
    let (mut f, mut g, mut i, mut j, mut k, mut d) = (vec![], vec![], vec![], vec![], vec![], vec![]);
    for a in &fv {
        for b in &gv {
            for c in &iv {
                for e in &jv {
                    for x in &kv {
                        for y in &dv {
                            f.push(*a);
                            g.push(*b);
                            i.push(*c);
                            j.push(*e);
                            k.push(*x);
                            d.push(*y);
                        }
                    }
                }
            }
        }
    }
    let schema = Arc::new(Schema::new(vec![
        Field::new("f", DataType::Float64, true),
        Field::new("g", DataType::Float64, true),
        Field::new("i", DataType::Int64, true),
        Field::new("j", DataType::Int64, true),
        Field::new("k", DataType::Int32, true),
        Field::new("d", DataType::Date32, true),
    ]));
    let cols: Vec<ArrayRef> = vec![
        Arc::new(Float64Array::from(f)),
        Arc::new(Float64Array::from(g)),
        Arc::new(Int64Array::from(i)),
        Arc::new(Int64Array::from(j)),
        Arc::new(Int32Array::from(k)),
        Arc::new(Date32Array::from(d)),
    ];
    RecordBatch::try_new(schema, cols).unwrap()
}

/// the same rows with every NULL removed (the no-null fast path of the compiled evaluator)
fn non_null(b: &RecordBatch) -> RecordBatch {
    let n = b.num_rows();
    let keep: Vec<bool> = (0..n).map(|r| b.columns().iter().all(|c| c.is_valid(r))).collect();
    let mask = BooleanArray::from(keep);
    let cols: Vec<ArrayRef> = b.columns().iter().map(|c| arrow::compute::filter(c.as_ref(), &mask).unwrap()).collect();
    let cols: Vec<ArrayRef> = cols
        .into_iter()
        .map(|c| {
            // rebuild without a validity buffer
            let d = c.to_data().into_builder().nulls(None).build().unwrap();
            arrow::array::make_array(d)
        })
        .collect();
    RecordBatch::try_new(b.schema(), cols).unwrap()
}

fn leaves(quick: bool) -> Vec<Expr> {
    let mut v = Vec::new();
    let flits = [0.0, -0.0, 0.5, f64::NAN, f64::INFINITY];
    for op in CMPS {
        v.push(bin(col("f"), op, col("g")));
        for l in flits {
            v.push(bin(col("f"), op, lf(l)));
            v.push(bin(lf(l), op, col("g")));
        }
        v.push(bin(col("i"), op, col("j")));
        v.push(bin(col("i"), op, Expr::Literal(ScalarValue::Int64(0))));
        v.push(bin(Expr::Literal(ScalarValue::Int64(1)), op, col("i")));
        v.push(bin(col("j"), op, Expr::Literal(ScalarValue::Int64(i64::MAX))));
        v.push(bin(col("k"), op, Expr::Literal(ScalarValue::Int32(0))));
        v.push(bin(Expr::Literal(ScalarValue::Int32(1)), op, col("k")));
        v.push(bin(col("d"), op, Expr::Literal(ScalarValue::Date32(19000))));
        v.push(bin(Expr::Literal(ScalarValue::Date32(19001)), op, col("d")));
        // f64 arithmetic inside a comparison
        for a in ARITH {
            v.push(bin(bin(col("f"), a, col("g")), op, lf(0.5)));
            v.push(bin(bin(col("f"), a, lf(0.5)), op, col("g")));
            v.push(bin(lf(0.0), op, bin(lf(1.0), a, col("f"))));
            if !quick {
                for a2 in ARITH {
                    v.push(bin(bin(bin(col("f"), a, col("g")), a2, col("f")), op, lf(0.0)));
                    v.push(bin(col("g"), op, bin(col("f"), a, bin(col("g"), a2, lf(-0.0)))));
                }
            }
        }
        v.push(bin(Expr::Cast { expr: Box::new(col("f")), data_type: DataType::Float64 }, op, lf(0.0)));
    }
    for neg in [false, true] {
        let b = |e: Expr, lo: Expr, hi: Expr| Expr::Between { expr: Box::new(e), low: Box::new(lo), high: Box::new(hi), negated: neg };
        v.push(b(col("f"), lf(-0.0), lf(0.5)));
        v.push(b(col("f"), lf(0.0), lf(f64::INFINITY)));
        v.push(b(col("f"), lf(f64::NEG_INFINITY), lf(f64::NAN)));
        v.push(b(col("f"), col("g"), lf(0.5)));
        v.push(b(col("i"), Expr::Literal(ScalarValue::Int64(0)), Expr::Literal(ScalarValue::Int64(1))));
        v.push(b(col("i"), col("j"), Expr::Literal(ScalarValue::Int64(1))));
        v.push(b(col("k"), Expr::Literal(ScalarValue::Int32(-1)), Expr::Literal(ScalarValue::Int32(0))));
        v.push(b(col("d"), Expr::Literal(ScalarValue::Date32(19000)), Expr::Literal(ScalarValue::Date32(19000))));
        v.push(b(bin(col("f"), BinaryOp::Multiply, col("g")), lf(0.0), lf(0.5)));
    }
    v
}

fn diff(c: &BooleanArray, i: &BooleanArray) -> Vec<(usize, String)> {
    if c.len() != i.len() {
        return vec![(0, format!("length {} vs {}", c.len(), i.len()))];
    }
    let mut out = Vec::new();
    for r in 0..c.len() {
        let (cv, iv) = (c.is_valid(r), i.is_valid(r));
        if cv != iv {
            out.push((r, format!("validity: compiled {} interpreted {}", cv, iv)));
        } else if cv && c.value(r) != i.value(r) {
            out.push((r, format!("value: compiled {} interpreted {}", c.value(r), i.value(r))));
        }
    }
    out
}

fn row_json(b: &RecordBatch, r: usize) -> serde_json::Value {
    let mut m = serde_json::Map::new();
    for (fi, f) in b.schema().fields().iter().enumerate() {
        let c = b.column(fi);
        let v = if c.is_null(r) { "NULL".to_string() } else { arrow::util::display::array_value_to_string(c.as_ref(), r).unwrap_or_default() };
        m.insert(f.name().clone(), json!(v));
    }
    serde_json::Value::Object(m)
}

fn arithmetic_nan_at(e: &Expr, row: &RecordBatch) -> bool {
    match e {
        Expr::BinaryExpr { left, op, right } => {
            if matches!(op, BinaryOp::Add | BinaryOp::Subtract | BinaryOp::Multiply | BinaryOp::Divide) {
                if let Ok(a) = evaluate_expr(row, e) {
                    if let Some(f) = a.as_any().downcast_ref::<Float64Array>() {
                        if f.len() == 1 && f.is_valid(0) && f.value(0).is_nan() {
                            return true;
                        }
                    }
                }
            }
            arithmetic_nan_at(left, row) || arithmetic_nan_at(right, row)
        }
        Expr::UnaryExpr { expr, .. } => arithmetic_nan_at(expr, row),
        Expr::Between { expr, low, high, .. } => arithmetic_nan_at(expr, row) || arithmetic_nan_at(low, row) || arithmetic_nan_at(high, row),
        Expr::Cast { expr, .. } => arithmetic_nan_at(expr, row),
        _ => false,
    }
}

fn check(e: &Expr, batches: &[(String, RecordBatch)], o: &mut Out) {
    let schema = batches[0].1.schema();
    let Some(cp) = CompiledPredicate::compile(e, &schema) else {
        o.count("not_compiled", 1);
        return;
    };
    o.count("compiled", 1);
    for (name, b) in batches {
        o.evaluations += 1;
        let interp = match evaluate_expr(b, e) {
            Ok(a) => a,
            Err(_) => {
                o.count("interpreter_error", 1);
                continue;
            }
        };
        let Some(interp) = interp.as_any().downcast_ref::<BooleanArray>().cloned() else {
            o.count("interpreter_not_boolean", 1);
            continue;
        };
        let Some(comp) = cp.evaluate(b) else {
            o.count("compiled_declines_batch", 1);
            continue;
        };
        let diffs = diff(&comp, &interp);
        // every differing row is classified on its own: the listed finding covers only rows where some ARITHMETIC sub-expression evaluates to
        // NaN (the sign bit of a NaN produced by an IEEE operation depends on operand order and constant folding, and totalOrder tells -NaN
        // from +NaN); NaNs read from the data are identical on both sides. Any other differing row is a violation.
        let mut real: Option<(usize, String)> = None;
        let mut known_row: Option<(usize, String)> = None;
        for (r, why) in diffs.iter() {
            if comp.len() == interp.len() && arithmetic_nan_at(e, &b.slice(*r, 1)) {
                if known_row.is_none() {
                    known_row = Some((*r, why.clone()));
                }
            } else if real.is_none() {
                real = Some((*r, why.clone()));
            }
        }
        if let Some((r, why)) = known_row {
            o.known("nan_sign_of_computed_arithmetic_differs", json!({"expr": format!("{e}"), "batch": name, "row": r, "row_values": row_json(b, r), "why": why}));
        }
        match real {
            None => {
                let t = (0..comp.len()).filter(|&r| comp.is_valid(r) && comp.value(r)).count();
                let nn = comp.null_count();
                if t > 0 && t < comp.len() {
                    o.distinct.insert(fnv(format!("{e:?}{name}").as_bytes()));
                }
                if o.samples.is_empty() && nn > 0 && t > 0 && name == "universal" {
                    o.sample(json!({"expr": format!("{e}"), "batch": name, "rows": comp.len(), "true": t, "null": nn}));
                }
            }
            Some((r, why)) => {
                o.violation(json!({"property": "C06", "kind": "native", "expr": format!("{e}"), "expr_debug": format!("{e:?}"), "batch": name, "row": r, "row_values": row_json(b, r), "why": why}));
            }
        }
    }
}

pub fn run(quick: bool, seed: u64) -> Out {
    std::env::remove_var("QE_COMPILE");
    let u = universal();
    let n = u.num_rows();
    let nn = non_null(&u);
    let mut batches: Vec<(String, RecordBatch)> = vec![("universal".into(), u.clone()), ("universal-non-null".into(), nn.clone())];
    // chunk-boundary lengths and slices of both
    for (tag, src) in [("u", &u), ("nn", &nn)] {
        for len in [0usize, 1, 2, 1023, 1024, 1025, 2049] {
            for off in [0usize, 1, 7] {
                if off + len <= src.num_rows() {
                    batches.push((format!("{tag}-slice[{off},{len}]"), src.slice(off, len)));
                }
            }
        }
    }
    let lv = leaves(quick);
    let nl = lv.len();
    // connective closure: depth 1 = leaves; depth 2 = NOT l, l AND l', l OR l'; depth 3 (thorough): NOT (a op b), (a op b) op2 c for c in a small set
    let small: Vec<usize> = (0..nl).filter(|x| x % 23 == (seed as usize) % 23).collect();
    let mut exprs: Vec<Expr> = lv.clone();
    for a in &lv {
        exprs.push(not(a.clone()));
    }
    let pair_rhs: Vec<usize> = if quick { (0..nl).filter(|x| x % 9 == (seed as usize) % 9).collect() } else { (0..nl).collect() };
    for a in 0..nl {
        for &b in &pair_rhs {
            for op in [BinaryOp::And, BinaryOp::Or] {
                exprs.push(bin(lv[a].clone(), op, lv[b].clone()));
            }
        }
    }
    let depth2_end = exprs.len();
    for a in 0..nl {
        if quick && a % 5 != 0 {
            continue;
        }
        for &b in &small {
            for op in [BinaryOp::And, BinaryOp::Or] {
                let ab = bin(lv[a].clone(), op, lv[b].clone());
                exprs.push(not(ab.clone()));
                exprs.push(bin(not(lv[a].clone()), op, lv[b].clone()));
                for &c in small.iter().take(if quick { 3 } else { small.len() }) {
                    for op2 in [BinaryOp::And, BinaryOp::Or] {
                        exprs.push(bin(ab.clone(), op2, lv[c].clone()));
                        exprs.push(bin(lv[c].clone(), op2, ab.clone()));
                    }
                }
            }
        }
    }
    // depth <= 2 expressions see every batch; deeper ones the universal batches and the 1025 slice
    let deep_batches: Vec<(String, RecordBatch)> = batches.iter().filter(|(n, _)| n == "universal" || n == "universal-non-null" || n == "u-slice[1,1025]").cloned().collect();
    let shallow_batches: Vec<(String, RecordBatch)> = batches.clone();
    let outs: Vec<Out> = exprs
        .par_iter()
        .enumerate()
        .fold(Out::new, |mut o, (idx, e)| {
            if idx < nl * 2 {
                check(e, &shallow_batches, &mut o);
            } else if idx < depth2_end {
                check(e, &deep_batches[..2.min(deep_batches.len())], &mut o);
                if idx % 7 == 0 {
                    check(e, &shallow_batches[2..], &mut o);
                }
            } else {
                check(e, &deep_batches, &mut o);
            }
            o
        })
        .collect();
    let mut o = Out::new();
    for x in outs {
        o.merge(x);
    }
    o.extra.insert("leaves".into(), json!(nl));
    o.extra.insert("expressions".into(), json!(exprs.len()));
    o.extra.insert("universal_rows".into(), json!(n));
    o.extra.insert("batches".into(), json!(batches.len()));
    o
}
