use serde_json::{json, Value};
use std::collections::{BTreeMap, HashSet};

#[derive(Default)]
pub struct Out {
    pub evaluations: u64,
    pub nontrivial: u64,
    pub distinct: HashSet<u64>,
    pub violations: Vec<Value>,
    pub nviol: u64,
    pub known: BTreeMap<String, Value>,
    pub samples: Vec<Value>,
    pub counts: BTreeMap<String, u64>,
    pub extra: BTreeMap<String, Value>,
}

impl Out {
    pub fn new() -> Self {
        Self::default()
    }
    pub fn count(&mut self, k: &str, n: u64) {
        *self.counts.entry(k.to_string()).or_insert(0) += n;
    }
    pub fn violation(&mut self, v: Value) {
        self.nviol += 1;
        if self.violations.len() < 10 {
            self.violations.push(v);
        }
    }
    pub fn known(&mut self, id: &str, example: Value) {
        self.count("known", 1);
        self.known.entry(id.to_string()).or_insert(example);
    }
    pub fn sample(&mut self, v: Value) {
        if self.samples.len() < 5 {
            self.samples.push(v);
        }
    }
    pub fn merge(&mut self, o: Out) {
        self.evaluations += o.evaluations;
        self.nontrivial += o.nontrivial;
        self.distinct.extend(o.distinct);
        self.nviol += o.nviol;
        for v in o.violations {
            if self.violations.len() < 10 {
                self.violations.push(v);
            }
        }
        for (k, v) in o.known {
            self.known.entry(k).or_insert(v);
        }
        for s in o.samples {
            self.sample(s);
        }
        for (k, n) in o.counts {
            *self.counts.entry(k).or_insert(0) += n;
        }
        for (k, v) in o.extra {
            self.extra.entry(k).or_insert(v);
        }
    }
    pub fn to_json(&self) -> String {
        json!({
            "evaluations": self.evaluations,
            "distinct_nontrivial": self.nontrivial + self.distinct.len() as u64,
            "violations": self.violations,
            "nviolations": self.nviol,
            "known": self.known,
            "samples": self.samples,
            "counts": self.counts,
            "extra": self.extra,
        })
        .to_string()
    }
}

pub fn fnv(bytes: &[u8]) -> u64 {
    let mut h: u64 = 0xcbf29ce484222325;
    for b in bytes {
        h ^= *b as u64;
        h = h.wrapping_mul(0x100000001b3);
    }
    h
}

/// all multisets (as non-decreasing index vectors) of size exactly k over n symbols
pub fn multisets(n: usize, k: usize, f: &mut dyn FnMut(&[usize])) {
    fn rec(n: usize, k: usize, start: usize, cur: &mut Vec<usize>, f: &mut dyn FnMut(&[usize])) {
        if cur.len() == k {
            f(cur);
            return;
        }
        for i in start..n {
            cur.push(i);
            rec(n, k, i, cur, f);
            cur.pop();
        }
    }
    rec(n, k, 0, &mut Vec::new(), f);
}

/// all sequences of length k over n symbols
pub fn sequences(n: usize, k: usize, f: &mut dyn FnMut(&[usize])) {
    let mut cur = vec![0usize; k];
    loop {
        f(&cur);
        let mut i = k;
        loop {
            if i == 0 {
                return;
            }
            i -= 1;
            cur[i] += 1;
            if cur[i] < n {
                break;
            }
            cur[i] = 0;
        }
        if k == 0 {
            return;
        }
    }
}
