//! C16: peer HTTP responses are framed or rejected — every prefix of every response over a real socket.
use crate::out::{fnv, Out};
use query_engine::distributed::http_client;
use serde_json::json;
use std::io::{Read, Write};
use std::net::TcpListener;
use std::sync::mpsc;
use std::time::{Duration, Instant};

#[derive(Clone)]
struct Case {
    full: Vec<u8>,
    cut: usize,       // bytes of `full` the server sends
    two_writes: bool, // split the prefix into two writes
    hold_open: bool,  // never close (timeout path)
    desc: String,
}

enum Expect {
    MustErr(&'static str),
    MustOk { status: u16, body: Vec<u8>, rows: Option<String> },
    Either { status: u16, body: Vec<u8> },
}

fn reference(p: &[u8]) -> Expect {
    let Some(split) = p.windows(4).position(|w| w == b"\r\n\r\n") else {
        return Expect::MustErr("no header terminator");
    };
    let head = &p[..split];
    let body = p[split + 4..].to_vec();
    let mut lines = head.split(|b| *b == b'\n');
    let status_line = String::from_utf8_lossy(lines.next().unwrap_or(b"")).to_string();
    let status: Option<u16> = status_line.split_whitespace().nth(1).and_then(|s| s.parse().ok());
    let Some(status) = status else {
        return Expect::MustErr("unparseable status line");
    };
    let mut cls: Vec<String> = Vec::new();
    let mut rows = None;
    for l in lines {
        let l = String::from_utf8_lossy(l).to_string();
        if let Some((k, v)) = l.split_once(':') {
            let k = k.trim().to_ascii_lowercase();
            if k == "content-length" {
                cls.push(v.trim().to_string());
            }
            if k == "x-qe-rows" && rows.is_none() {
                rows = Some(v.trim().to_string());
            }
        }
    }
    if cls.is_empty() {
        return Expect::MustOk { status, body, rows };
    }
    let parsed: Vec<Option<usize>> = cls.iter().map(|c| c.parse::<usize>().ok()).collect();
    if parsed.iter().any(|x| x.is_none()) || parsed.windows(2).any(|w| w[0] != w[1]) {
        // unreadable or contradictory lengths: the property makes no promise; Err or the reference parse are both fine
        return Expect::Either { status, body };
    }
    let n = parsed[0].unwrap();
    if body.len() < n {
        return Expect::MustErr("body shorter than the declared Content-Length");
    }
    Expect::MustOk { status, body, rows }
}

fn server(listener: TcpListener, rx: mpsc::Receiver<Option<Case>>, hold: Duration) {
    while let Ok(Some(case)) = rx.recv() {
        let Ok((mut s, _)) = listener.accept() else { continue };
        s.set_nodelay(true).ok();
        // read the request head
        let mut buf = Vec::new();
        let mut tmp = [0u8; 1024];
        s.set_read_timeout(Some(Duration::from_secs(2))).ok();
        while !buf.windows(4).any(|w| w == b"\r\n\r\n") {
            match s.read(&mut tmp) {
                Ok(0) | Err(_) => break,
                Ok(n) => buf.extend_from_slice(&tmp[..n]),
            }
        }
        let p = &case.full[..case.cut];
        if case.two_writes && p.len() >= 2 {
            let mid = p.len() / 2;
            let _ = s.write_all(&p[..mid]);
            let _ = s.flush();
            std::thread::sleep(Duration::from_micros(300));
            let _ = s.write_all(&p[mid..]);
        } else {
            let _ = s.write_all(p);
        }
        let _ = s.flush();
        if case.hold_open {
            std::thread::sleep(hold);
        }
        drop(s);
    }
}

pub fn run(quick: bool, seed: u64) -> Out {
    let status_lines: Vec<&[u8]> = vec![b"HTTP/1.1 200 OK", b"HTTP/1.0 503 x", b"HTTP/1.1 99999 x", b"garbage"];
    let bodies: Vec<Vec<u8>> = vec![b"".to_vec(), b"a".to_vec(), b"ab\r\n\r\ncd".to_vec(), (0..300u32).map(|i| b'a' + (i % 26) as u8).collect()];
    let mut fulls: Vec<(Vec<u8>, String)> = Vec::new();
    for sl in &status_lines {
        for body in &bodies {
            let exact = body.len();
            let mut header_sets: Vec<(String, Vec<String>)> = vec![
                ("none".into(), vec![]),
                ("exact".into(), vec![format!("Content-Length: {exact}")]),
                ("exact+1".into(), vec![format!("Content-Length: {}", exact + 1)]),
                ("zero".into(), vec!["Content-Length: 0".into()]),
                ("abc".into(), vec!["Content-Length: abc".into()]),
                ("2^64".into(), vec!["Content-Length: 18446744073709551616".into()]),
                ("dup-same".into(), vec![format!("Content-Length: {exact}"), format!("Content-Length: {exact}")]),
                ("dup-diff".into(), vec![format!("Content-Length: {exact}"), format!("Content-Length: {}", exact + 5)]),
                ("lower+rows".into(), vec![format!("content-length: {exact}"), "X-QE-Rows: 42".into()]),
            ];
            if exact > 0 {
                header_sets.push(("exact-1".into(), vec![format!("Content-Length: {}", exact - 1)]));
            }
            for (hname, hs) in header_sets {
                let mut full = sl.to_vec();
                full.extend_from_slice(b"\r\n");
                for h in &hs {
                    full.extend_from_slice(h.as_bytes());
                    full.extend_from_slice(b"\r\n");
                }
                full.extend_from_slice(b"\r\n");
                full.extend_from_slice(body);
                fulls.push((full, format!("{} | {} | body {}B", String::from_utf8_lossy(sl), hname, exact)));
            }
        }
    }
    let rot = (seed as usize) % fulls.len();
    fulls.rotate_left(rot);
    // every prefix; quick: long bodies are cut at every offset up to 80 and then every 7th
    let mut cases: Vec<Case> = Vec::new();
    for (full, desc) in &fulls {
        for cut in 0..=full.len() {
            if quick && cut > 90 && cut % 7 != 0 && cut != full.len() && cut + 1 != full.len() {
                continue;
            }
            cases.push(Case { full: full.clone(), cut, two_writes: false, hold_open: false, desc: desc.clone() });
            if cut == full.len() || (!quick && cut % 5 == 0) {
                cases.push(Case { full: full.clone(), cut, two_writes: true, hold_open: false, desc: desc.clone() });
            }
        }
    }
    // timeout path: a few prefixes after which the peer never closes
    let mut held: Vec<Case> = Vec::new();
    for (full, desc) in fulls.iter().take(if quick { 6 } else { 40 }) {
        for cut in [0usize, 10, full.len()] {
            held.push(Case { full: full.clone(), cut: cut.min(full.len()), two_writes: false, hold_open: true, desc: desc.clone() });
        }
    }
    let timeout = Duration::from_millis(200);
    let nthreads = 16usize;
    let rt = tokio::runtime::Builder::new_multi_thread().worker_threads(4).enable_all().build().unwrap();
    let mut o = Out::new();
    let all: Vec<Case> = cases.into_iter().chain(held).collect();
    let chunk = all.len().div_ceil(nthreads);
    let results: Vec<Out> = std::thread::scope(|sc| {
        let handles: Vec<_> = all
            .chunks(chunk)
            .map(|part| {
                let rt = rt.handle().clone();
                let part = part.to_vec();
                sc.spawn(move || {
                    let mut o = Out::new();
                    let listener = TcpListener::bind("127.0.0.1:0").unwrap();
                    let addr = listener.local_addr().unwrap().to_string();
                    let (tx, rx) = mpsc::channel::<Option<Case>>();
                    let srv = std::thread::spawn(move || server(listener, rx, Duration::from_millis(700)));
                    for case in part {
                        tx.send(Some(case.clone())).unwrap();
                        let t0 = Instant::now();
                        let a = addr.clone();
                        let res = rt.block_on(async move {
                            let h = tokio::spawn(async move { http_client::get(&a, "/healthz", timeout).await });
                            h.await
                        });
                        let el = t0.elapsed();
                        o.evaluations += 1;
                        let sent = &case.full[..case.cut];
                        let mk = |why: String| json!({"property":"C16","kind":"native","response": case.desc, "sent_bytes": case.cut, "of": case.full.len(),
                            "two_writes": case.two_writes, "hold_open": case.hold_open, "sent": String::from_utf8_lossy(sent), "why": why});
                        let res = match res {
                            Err(_) => {
                                o.violation(mk("client panicked".into()));
                                continue;
                            }
                            Ok(r) => r,
                        };
                        if el > timeout + Duration::from_millis(if case.hold_open { 150 } else { 400 }) {
                            o.violation(mk(format!("returned after {el:?}, timeout {timeout:?}")));
                            continue;
                        }
                        if case.hold_open {
                            // the peer never closes: the body cannot be known complete (read-to-EOF framing) -> must be an error
                            match res {
                                Err(_) => {
                                    o.distinct.insert(fnv(format!("hold{}{}", case.desc, case.cut).as_bytes()));
                                }
                                Ok(r) => o.violation(mk(format!("peer never closed but client returned status {} body {}B", r.status, r.body.len()))),
                            }
                            continue;
                        }
                        match (reference(sent), res) {
                            (Expect::MustErr(_), Err(_)) => {
                                o.count("rejected", 1);
                                o.distinct.insert(fnv(&[sent, b"E"].concat()));
                            }
                            (Expect::MustErr(why), Ok(r)) => {
                                o.violation(mk(format!("accepted (status {}, body {}B) although: {why}", r.status, r.body.len())));
                            }
                            (Expect::MustOk { status, body, rows }, Ok(r)) => {
                                if r.status != status || r.body != body || r.header("x-qe-rows").map(|s| s.to_string()) != rows {
                                    o.violation(mk(format!("returned status {} body {}B, expected status {status} body {}B", r.status, r.body.len(), body.len())));
                                } else {
                                    o.count("accepted", 1);
                                    o.distinct.insert(fnv(&[sent, b"K"].concat()));
                                    if case.cut == case.full.len() && body.len() == 1 {
                                        o.sample(json!({"response": case.desc, "sent": String::from_utf8_lossy(sent), "status": r.status, "body": String::from_utf8_lossy(&r.body)}));
                                    }
                                }
                            }
                            (Expect::MustOk { .. }, Err(e)) => {
                                o.violation(mk(format!("well-formed complete response rejected: {e}")));
                            }
                            (Expect::Either { status, body }, Ok(r)) => {
                                if r.status != status || r.body != body {
                                    o.violation(mk(format!("returned status {} body {}B, reference parse status {status} body {}B", r.status, r.body.len(), body.len())));
                                } else {
                                    o.count("unreadable_length_accepted", 1);
                                }
                            }
                            (Expect::Either { .. }, Err(_)) => o.count("unreadable_length_rejected", 1),
                        }
                    }
                    tx.send(None).ok();
                    srv.join().ok();
                    o
                })
            })
            .collect();
        handles.into_iter().map(|h| h.join().unwrap()).collect()
    });
    for r in results {
        o.merge(r);
    }
    o.extra.insert("responses".into(), json!(fulls.len()));
    o
}
