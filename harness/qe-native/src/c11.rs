//! C11: split enumeration covers every row exactly once, canonically.
//! Inventories are footer-only Parquet files forged with ParquetMetaDataWriter.
use crate::out::{sequences, Out};
use parquet::basic::Type as PhysicalType;
use parquet::file::metadata::{ColumnChunkMetaData, FileMetaData, ParquetMetaData, ParquetMetaDataWriter, RowGroupMetaData};
use parquet::schema::types::{SchemaDescriptor, Type};
use query_engine::distributed::splits::{enumerate_parquet, SplitSet};
use rayon::prelude::*;
use serde_json::json;
use std::collections::BTreeMap;
use std::path::{Path, PathBuf};
use std::sync::atomic::{AtomicU64, Ordering};
use std::sync::Arc;
use std::time::{Duration, SystemTime};

static MTIME: AtomicU64 = AtomicU64::new(1_000_000_000);

fn schema() -> Arc<SchemaDescriptor> {
    let col = Type::primitive_type_builder("x", PhysicalType::INT64).build().unwrap();
    let root = Type::group_type_builder("schema").with_fields(vec![Arc::new(col)]).build().unwrap();
    Arc::new(SchemaDescriptor::new(Arc::new(root)))
}

/// Write a footer-only parquet file with the given (rows, bytes) row groups.
pub fn forge(path: &Path, rgs: &[(i64, i64)]) {
    let sd = schema();
    let mut groups = Vec::new();
    for (i, (rows, bytes)) in rgs.iter().enumerate() {
        let col = ColumnChunkMetaData::builder(sd.column(0))
            .set_num_values(*rows)
            .set_total_compressed_size(*bytes)
            .set_total_uncompressed_size(*bytes)
            .set_data_page_offset(4)
            .build()
            .unwrap();
        groups.push(
            RowGroupMetaData::builder(sd.clone())
                .set_num_rows(*rows)
                .set_total_byte_size(*bytes)
                .set_column_metadata(vec![col])
                .set_ordinal(i as i16)
                .build()
                .unwrap(),
        );
    }
    let total: i64 = rgs.iter().map(|r| r.0).sum();
    let fm = FileMetaData::new(2, total, Some("qe-verif".into()), None, sd, None);
    let md = ParquetMetaData::new(fm, groups);
    let mut buf: Vec<u8> = b"PAR1".to_vec();
    {
        let w = ParquetMetaDataWriter::new(&mut buf, &md);
        w.finish().unwrap();
    }
    std::fs::write(path, &buf).unwrap();
    // the footer cache is keyed by (path, mtime): every rewrite gets a fresh mtime
    let t = MTIME.fetch_add(2, Ordering::SeqCst);
    let f = std::fs::OpenOptions::new().write(true).open(path).unwrap();
    f.set_modified(SystemTime::UNIX_EPOCH + Duration::from_secs(t)).unwrap();
}

type Inv = Vec<(String, Vec<(i64, i64)>)>; // (file name, row groups)

fn materialize(dir: &Path, inv: &Inv) -> Vec<PathBuf> {
    let _ = std::fs::remove_dir_all(dir);
    std::fs::create_dir_all(dir).unwrap();
    inv.iter()
        .map(|(name, rgs)| {
            let p = dir.join(name);
            forge(&p, rgs);
            p
        })
        .collect()
}

fn canon(set: &SplitSet) -> Vec<(String, usize, i64, i64, u64)> {
    set.splits.iter().map(|s| (s.file.clone(), s.row_group, s.row_offset, s.num_rows, s.bytes)).collect()
}

/// Reference check of one enumeration against the inventory. Returns a reason on failure.
fn check_cover(inv: &Inv, set: &SplitSet) -> Option<String> {
    let mut per: BTreeMap<(String, usize), Vec<(i64, i64, u64)>> = BTreeMap::new();
    for s in &set.splits {
        if s.num_rows <= 0 {
            return Some(format!("empty split {:?}", (&s.file, s.row_group, s.row_offset)));
        }
        per.entry((s.file.clone(), s.row_group)).or_default().push((s.row_offset, s.num_rows, s.bytes));
    }
    let mut want_bytes: u128 = 0;
    let mut want_rows: i64 = 0;
    for (name, rgs) in inv {
        for (i, (rows, bytes)) in rgs.iter().enumerate() {
            let got = per.remove(&(name.clone(), i));
            if *rows <= 0 {
                if got.is_some() {
                    return Some(format!("zero-row row group {name}#{i} produced splits"));
                }
                continue;
            }
            want_bytes += *bytes as u128;
            want_rows += *rows;
            let Some(mut pieces) = got else {
                return Some(format!("row group {name}#{i} ({rows} rows) has no split"));
            };
            pieces.sort();
            let mut off = 0i64;
            let mut b: u128 = 0;
            for (o, n, by) in &pieces {
                if *o != off {
                    return Some(format!("row group {name}#{i}: range starts at {o}, expected {off} (gap or overlap)"));
                }
                off += n;
                b += *by as u128;
            }
            if off != *rows {
                return Some(format!("row group {name}#{i}: ranges cover {off} of {rows} rows"));
            }
            if b != *bytes as u128 {
                return Some(format!("row group {name}#{i}: split bytes sum to {b}, row group has {bytes}"));
            }
        }
    }
    if !per.is_empty() {
        return Some(format!("splits for unknown row groups {:?}", per.keys().collect::<Vec<_>>()));
    }
    let sum: u128 = set.splits.iter().map(|s| s.bytes as u128).sum();
    if sum != want_bytes || set.total_bytes as u128 != want_bytes {
        return Some(format!("bytes: splits sum {sum}, total_bytes {}, table {want_bytes}", set.total_bytes));
    }
    if set.total_rows != want_rows {
        return Some(format!("total_rows {} != {want_rows}", set.total_rows));
    }
    let c = canon(set);
    let mut sorted = c.clone();
    sorted.sort();
    if c != sorted {
        return Some("splits are not in canonical order".into());
    }
    None
}

fn permutations(n: usize) -> Vec<Vec<usize>> {
    fn rec(cur: &mut Vec<usize>, used: &mut Vec<bool>, n: usize, out: &mut Vec<Vec<usize>>) {
        if cur.len() == n {
            out.push(cur.clone());
            return;
        }
        for i in 0..n {
            if !used[i] {
                used[i] = true;
                cur.push(i);
                rec(cur, used, n, out);
                cur.pop();
                used[i] = false;
            }
        }
    }
    let mut out = Vec::new();
    rec(&mut Vec::new(), &mut vec![false; n], n, &mut out);
    out
}

pub fn run(quick: bool, seed: u64, work: &str) -> Out {
    let rows_dom: Vec<i64> = vec![0, 1, 2, 3, 7, 1000];
    let mib: i64 = 1024 * 1024;
    let bytes_dom: Vec<i64> = vec![0, 1, 5, 4 * mib - 1, 4 * mib, 4 * mib + 1, 64 * mib, 64 * mib + 1, 1 << 40];
    let kinds: Vec<(i64, i64)> = rows_dom.iter().flat_map(|r| bytes_dom.iter().map(move |b| (*r, *b))).collect();
    let max_rg = if quick { 2 } else { 3 };
    let nodes: Vec<usize> = if quick { vec![1, 2, 3, 8, 64] } else { (1..=12).chain([16, 31, 32, 64]).collect() };
    // length-3 inventories use a reduced kind set (3 row counts x 5 byte sizes around the 4 MiB split threshold): 54^3 x 4 cuts x node counts does not finish
    let small_kinds: Vec<usize> = kinds.iter().enumerate().filter(|(_, (r, b))| [0, 1, 1000].contains(r) && [0, 4 * mib - 1, 4 * mib, 4 * mib + 1, 1 << 40].contains(b)).map(|(i, _)| i).collect();
    // inventories: every sequence of <= max_rg row groups, cut into files at every set of cut points (<= 3 files),
    // plus one variant with an extra file that has no row group at all.
    let mut invs: Vec<Inv> = Vec::new();
    let names = ["b.parquet", "a.parquet", "c.parquet"]; // deliberately not in sorted order
    for len in 0..=max_rg {
        let dom: Vec<usize> = if len >= 3 { small_kinds.clone() } else { (0..kinds.len()).collect() };
        sequences(dom.len(), len, &mut |seq| {
            let rgs: Vec<(i64, i64)> = seq.iter().map(|i| kinds[dom[*i]]).collect();
            let cuts = if len == 0 { 1 } else { 1usize << (len - 1) };
            for cut in 0..cuts {
                let mut files: Vec<Vec<(i64, i64)>> = vec![vec![]];
                for (i, rg) in rgs.iter().enumerate() {
                    if i > 0 && (cut >> (i - 1)) & 1 == 1 {
                        files.push(vec![]);
                    }
                    files.last_mut().unwrap().push(*rg);
                }
                if files.len() > 3 {
                    continue;
                }
                let inv: Inv = files.into_iter().enumerate().map(|(i, f)| (names[i].to_string(), f)).collect();
                invs.push(inv);
            }
        });
    }
    let n_inv = invs.len();
    let rot = (seed as usize) % n_inv.max(1);
    invs.rotate_left(rot);
    let base = PathBuf::from(work).join(format!("c11-{}", std::process::id()));
    let _ = std::fs::remove_dir_all(&base);
    let nthreads = rayon::current_num_threads().max(1);
    let chunk = invs.len().div_ceil(nthreads).max(1);
    let outs: Vec<Out> = invs
        .par_chunks(chunk)
        .enumerate()
        .map(|(ti, part)| {
            let mut o = Out::new();
            let d1 = base.join(format!("t{ti}")).join("mnt1");
            let d2 = base.join(format!("t{ti}")).join("other").join("mnt2");
            for inv in part {
                let f1 = materialize(&d1, inv);
                let f2 = materialize(&d2, inv);
                let perms = permutations(f1.len());
                let mut digest_by_nodes: Vec<(usize, u64)> = Vec::new();
                for &n in &nodes {
                    o.evaluations += 1;
                    let set = match enumerate_parquet("t", &f1, n) {
                        Ok(s) => s,
                        Err(e) => {
                            o.violation(json!({"property":"C11","kind":"native","inventory":inv,"nodes":n,"why":format!("enumerate failed: {e}")}));
                            continue;
                        }
                    };
                    if let Some(why) = check_cover(inv, &set) {
                        o.violation(json!({"property":"C11","kind":"native","inventory":inv,"nodes":n,"why":why,"splits":canon(&set)}));
                        continue;
                    }
                    let c0 = canon(&set);
                    let d0 = set.digest();
                    digest_by_nodes.push((n, d0));
                    // permutation + mount-path invariance
                    for p in &perms {
                        for files in [&f1, &f2] {
                            let pf: Vec<PathBuf> = p.iter().map(|i| files[*i].clone()).collect();
                            match enumerate_parquet("t", &pf, n) {
                                Ok(s2) => {
                                    if canon(&s2) != c0 || s2.digest() != d0 {
                                        o.violation(json!({"property":"C11","kind":"native","inventory":inv,"nodes":n,
                                            "why":"splits or digest depend on file order / mount path","order":p}));
                                    }
                                }
                                Err(e) => o.violation(json!({"property":"C11","kind":"native","inventory":inv,"nodes":n,"why":format!("enumerate failed: {e}")})),
                            }
                            o.count("invariance_checks", 1);
                        }
                    }
                    if set.splits.len() >= 2 {
                        o.nontrivial += 1;
                    }
                    if set.splits.len() >= 3 && inv.len() >= 2 {
                        o.sample(json!({"inventory": inv, "nodes": n, "splits": c0, "digest": d0}));
                    }
                }
                // digest sensitivity: single-attribute edits of the inventory (first node count and 3)
                for &n in nodes.iter().filter(|n| **n == 1 || **n == 3) {
                    let Some((_, d0)) = digest_by_nodes.iter().find(|(m, _)| *m == n) else { continue };
                    let mut edits: Vec<(String, Inv)> = Vec::new();
                    for (fi, (_, rgs)) in inv.iter().enumerate() {
                        if rgs.iter().any(|r| r.0 > 0) {
                            let mut e = inv.clone();
                            e[fi].0 = "z.parquet".into();
                            edits.push((format!("rename file {fi}"), e));
                        }
                        for (ri, (rows, bytes)) in rgs.iter().enumerate() {
                            if *rows > 0 {
                                let mut e = inv.clone();
                                e[fi].1[ri].0 = rows + 1;
                                edits.push((format!("rows+1 {fi}#{ri}"), e));
                                let mut e = inv.clone();
                                e[fi].1[ri].1 = bytes + 1;
                                edits.push((format!("bytes+1 {fi}#{ri}"), e));
                                // shift the row-group index by inserting an empty group before it
                                let mut e = inv.clone();
                                e[fi].1.insert(ri, (0, 0));
                                edits.push((format!("index shift {fi}#{ri}"), e));
                            }
                        }
                    }
                    for (what, e) in edits {
                        let fe = materialize(&d2, &e);
                        o.count("digest_edits", 1);
                        match enumerate_parquet("t", &fe, n) {
                            Ok(s2) => {
                                if s2.digest() == *d0 {
                                    o.violation(json!({"property":"C11","kind":"native","inventory":inv,"nodes":n,
                                        "why":format!("digest unchanged after edit: {what}"),"edited":e}));
                                }
                            }
                            Err(err) => o.violation(json!({"property":"C11","kind":"native","inventory":e,"nodes":n,"why":format!("enumerate failed: {err}")})),
                        }
                    }
                }
            }
            // two different files with the SAME name under two directories: result must not depend on input order
            let same: Vec<((i64, i64), (i64, i64))> = vec![((3, 5), (7, 5)), ((2, 1), (2, 9)), ((1000, 64 * mib + 1), (3, 1))];
            if ti == 0 {
                for (a, b) in same {
                    let ia: Inv = vec![("a.parquet".into(), vec![a])];
                    let ib: Inv = vec![("a.parquet".into(), vec![b])];
                    let fa = materialize(&d1, &ia);
                    let fb = materialize(&d2, &ib);
                    for &n in &[1usize, 2, 3] {
                        o.evaluations += 1;
                        let x = enumerate_parquet("t", &[fa[0].clone(), fb[0].clone()], n);
                        let y = enumerate_parquet("t", &[fb[0].clone(), fa[0].clone()], n);
                        if let (Ok(x), Ok(y)) = (x, y) {
                            if canon(&x) != canon(&y) || x.digest() != y.digest() {
                                o.known("same_file_name_in_two_dirs", json!({"files": ["mnt1/a.parquet", "other/mnt2/a.parquet"], "row_groups": [a, b], "nodes": n,
                                    "order1": canon(&x), "order2": canon(&y)}));
                            } else {
                                o.nontrivial += 1;
                            }
                        }
                    }
                }
            }
            o
        })
        .collect();
    let _ = std::fs::remove_dir_all(&base);
    let mut o = Out::new();
    for x in outs {
        o.merge(x);
    }
    o.extra.insert("inventories".into(), json!(n_inv));
    o.extra.insert("node_counts".into(), json!(nodes));
    o.extra.insert("max_row_groups".into(), json!(max_rg));
    o
}
