//! C39: the TPC-H generator is deterministic and self-consistent.
use crate::out::Out;
use arrow::array::{Array, Int32Array, Int64Array};
use arrow::record_batch::RecordBatch;
use query_engine::execution::ExecutionContext;
use query_engine::tpch::TpchGenerator;
use query_engine::tpch::TpchRowCounts;
use serde_json::json;
use std::collections::{BTreeMap, HashSet};
use std::path::PathBuf;

const TABLES: [&str; 8] = ["nation", "region", "part", "supplier", "partsupp", "customer", "orders", "lineitem"];

fn tables_of(ctx: &ExecutionContext) -> BTreeMap<String, RecordBatch> {
    let mut m = BTreeMap::new();
    for t in TABLES {
        if let Some(p) = ctx.table_provider(t) {
            let batches = p.scan(None).unwrap_or_default();
            if let Some(first) = batches.first() {
                let b = arrow::compute::concat_batches(&first.schema(), &batches).unwrap();
                m.insert(t.to_string(), b);
            } else {
                m.insert(t.to_string(), RecordBatch::new_empty(p.schema()));
            }
        }
    }
    m
}

fn generate(sf: f64, seed: u64) -> BTreeMap<String, RecordBatch> {
    let mut ctx = ExecutionContext::new();
    let mut g = TpchGenerator::with_seed(sf, seed);
    g.generate_all(&mut ctx);
    tables_of(&ctx)
}

fn ints(b: &RecordBatch, col: &str) -> Option<Vec<i64>> {
    let idx = b.schema().index_of(col).ok()?;
    let a = b.column(idx);
    if let Some(x) = a.as_any().downcast_ref::<Int64Array>() {
        return Some((0..x.len()).map(|i| x.value(i)).collect());
    }
    if let Some(x) = a.as_any().downcast_ref::<Int32Array>() {
        return Some((0..x.len()).map(|i| x.value(i) as i64).collect());
    }
    None
}

fn same_table(a: &RecordBatch, b: &RecordBatch) -> bool {
    if a.num_rows() != b.num_rows() || a.num_columns() != b.num_columns() {
        return false;
    }
    for (x, y) in a.columns().iter().zip(b.columns().iter()) {
        // compare logically (a Parquet round trip may change the physical string/dictionary layout)
        let y2 = if x.data_type() != y.data_type() { arrow::compute::cast(y, x.data_type()).unwrap_or_else(|_| y.clone()) } else { y.clone() };
        if x.to_data() != y2.to_data() && x.as_ref() != y2.as_ref() {
            return false;
        }
    }
    true
}

pub fn run(quick: bool, _seed: u64, work: &str) -> Out {
    let mut o = Out::new();
    let sfs: Vec<f64> = if quick { vec![0.001, 0.002, 0.003, 0.005, 0.01] } else { vec![0.001, 0.002, 0.005, 0.01, 0.02, 0.05] };
    let seeds = [0u64, 1, 42];
    let base = PathBuf::from(work).join(format!("c39-{}", std::process::id()));
    // source hygiene: no hidden global state in the generator
    if let Ok(src) = std::fs::read_to_string("/repo/src/tpch/generator.rs") {
        for needle in ["static ", "thread_rng", "lazy_static", "OnceLock", "SystemTime"] {
            if src.lines().any(|l| !l.trim_start().starts_with("//") && l.contains(needle)) {
                o.violation(json!({"property":"C39","kind":"native","why":format!("src/tpch/generator.rs now contains `{needle}`: determinism across threads is no longer guaranteed by construction")}));
            }
        }
    }
    for &sf in &sfs {
        for &seed in &seeds {
            o.evaluations += 1;
            let a = generate(sf, seed);
            let b = generate(sf, seed);
            let mut bad = None;
            for t in TABLES {
                match (a.get(t), b.get(t)) {
                    (Some(x), Some(y)) => {
                        if x != y {
                            bad = Some(format!("table {t} differs between two runs with the same scale factor and seed"));
                        }
                    }
                    _ => bad = Some(format!("table {t} missing")),
                }
            }
            // row counts
            let rc = TpchRowCounts::for_scale_factor(sf);
            let want = [("nation", rc.nation), ("region", rc.region), ("part", rc.part), ("supplier", rc.supplier), ("partsupp", rc.partsupp), ("customer", rc.customer), ("orders", rc.orders), ("lineitem", rc.lineitem)];
            for (t, n) in want {
                if let Some(x) = a.get(t) {
                    if x.num_rows() != n {
                        bad = Some(format!("table {t} has {} rows, TpchRowCounts says {n}", x.num_rows()));
                    }
                }
            }
            // the TPC-H ratios themselves (independent of TpchRowCounts): 5 regions, 25 nations, 4 partsupp rows per part,
            // 10 orders per customer, 1..7 lineitems per order, SF x (10,000 suppliers, 200,000 parts, 150,000 customers)
            {
                let n = |t: &str| a.get(t).map(|b| b.num_rows()).unwrap_or(0) as f64;
                let near = |got: f64, want: f64| (got - want).abs() <= (want * 0.02).max(1.0);
                let checks = [
                    ("region", n("region") == 5.0), ("nation", n("nation") == 25.0), ("partsupp = 4 x part", n("partsupp") == 4.0 * n("part")),
                    ("orders = 10 x customer", n("orders") == 10.0 * n("customer")), ("lineitem within 1..7 per order", n("lineitem") >= n("orders") && n("lineitem") <= 7.0 * n("orders")),
                    ("supplier = 10000 x SF", near(n("supplier"), 10000.0 * sf)), ("part = 200000 x SF", near(n("part"), 200000.0 * sf)), ("customer = 150000 x SF", near(n("customer"), 150000.0 * sf)),
                ];
                for (what, ok) in checks {
                    if !ok {
                        bad = Some(format!("row counts do not follow the TPC-H ratio: {what} (rows: {:?})", a.iter().map(|(k, v)| (k.clone(), v.num_rows())).collect::<BTreeMap<_, _>>()));
                    }
                }
            }
            // foreign keys
            let key = |t: &str, c: &str| -> HashSet<i64> { a.get(t).and_then(|b| ints(b, c)).unwrap_or_default().into_iter().collect() };
            let fks = [
                ("lineitem", "l_orderkey", "orders", "o_orderkey"), ("lineitem", "l_partkey", "part", "p_partkey"), ("lineitem", "l_suppkey", "supplier", "s_suppkey"),
                ("orders", "o_custkey", "customer", "c_custkey"), ("partsupp", "ps_partkey", "part", "p_partkey"), ("partsupp", "ps_suppkey", "supplier", "s_suppkey"),
                ("customer", "c_nationkey", "nation", "n_nationkey"), ("supplier", "s_nationkey", "nation", "n_nationkey"), ("nation", "n_regionkey", "region", "r_regionkey"),
            ];
            for (ct, cc, pt, pc) in fks {
                let parent = key(pt, pc);
                let child = a.get(ct).and_then(|b| ints(b, cc));
                match child {
                    None => bad = Some(format!("{ct}.{cc} is not an integer column")),
                    Some(vals) => {
                        if let Some(v) = vals.iter().find(|v| !parent.contains(v)) {
                            let cust_range = (rc.customer as f64 * 1.5) as i64;
                            if ct == "orders" && cc == "o_custkey" && vals.iter().all(|x| *x >= 1 && *x <= cust_range) {
                                // known finding: deliberate 1.5x key range (see generate_orders)
                                o.known("orders_custkey_drawn_from_1_5x_customer_range", json!({"scale_factor": sf, "seed": seed, "o_custkey": v, "customers": rc.customer}));
                            } else {
                                bad = Some(format!("{ct}.{cc} = {v} refers to no row of {pt}.{pc}"));
                            }
                        }
                    }
                }
            }
            // composite: (l_partkey, l_suppkey) -> partsupp
            if let (Some(li), Some(ps)) = (a.get("lineitem"), a.get("partsupp")) {
                if let (Some(lp), Some(ls), Some(pp), Some(psk)) = (ints(li, "l_partkey"), ints(li, "l_suppkey"), ints(ps, "ps_partkey"), ints(ps, "ps_suppkey")) {
                    let pairs: HashSet<(i64, i64)> = pp.into_iter().zip(psk).collect();
                    if let Some(p) = lp.iter().zip(ls.iter()).find(|(x, y)| !pairs.contains(&(**x, **y))) {
                        bad = Some(format!("lineitem (l_partkey, l_suppkey) = {p:?} is not a partsupp row"));
                    }
                }
            }
            // Parquet round trip
            if bad.is_none() && (sf <= 0.002 || !quick) {
                let dir = base.join(format!("sf{sf}-{seed}"));
                let mut g = TpchGenerator::with_seed(sf, seed);
                if let Err(e) = g.generate_to_parquet(&dir) {
                    bad = Some(format!("generate_to_parquet failed: {e}"));
                } else {
                    let mut ctx = ExecutionContext::new();
                    for t in TABLES {
                        let f = dir.join(format!("{t}.parquet"));
                        if let Err(e) = ctx.register_parquet(t, &f) {
                            bad = Some(format!("cannot read back {t}: {e}"));
                        }
                    }
                    if bad.is_none() {
                        let p = tables_of(&ctx);
                        for t in TABLES {
                            if let (Some(x), Some(y)) = (a.get(t), p.get(t)) {
                                if !same_table(x, y) {
                                    bad = Some(format!("table {t} written to Parquet and read back differs from the in-memory generation"));
                                }
                            }
                        }
                    }
                }
                let _ = std::fs::remove_dir_all(&dir);
            }
            match bad {
                Some(w) => o.violation(json!({"property":"C39","kind":"native","scale_factor":sf,"seed":seed,"why":w})),
                None => {
                    o.nontrivial += 1;
                    if o.samples.is_empty() {
                        o.sample(json!({"scale_factor":sf,"seed":seed,"rows": a.iter().map(|(k,v)| (k.clone(), v.num_rows())).collect::<BTreeMap<_,_>>() }));
                    }
                }
            }
        }
    }
    // different seeds give different data (the seed is really used)
    o.evaluations += 1;
    if generate(0.001, 0).get("lineitem") == generate(0.001, 1).get("lineitem") {
        o.violation(json!({"property":"C39","kind":"native","why":"seeds 0 and 1 generate identical lineitem tables"}));
    } else {
        o.nontrivial += 1;
    }
    // four generators on four threads at once
    let reference = generate(0.002, 42);
    let hs: Vec<_> = (0..4).map(|_| std::thread::spawn(|| generate(0.002, 42))).collect();
    for h in hs {
        o.evaluations += 1;
        match h.join() {
            Ok(t) if t == reference => o.nontrivial += 1,
            _ => o.violation(json!({"property":"C39","kind":"native","why":"a generator run on a concurrent thread produced different data"})),
        }
    }
    let _ = std::fs::remove_dir_all(&base);
    o.extra.insert("scale_factors".into(), json!(sfs));
    o
}
