//! C40: CLI CSV / JSON output round-trips (function level on the real src/cli/output.rs).
#[allow(dead_code)]
#[path = "/repo/src/cli/output.rs"]
mod cli_output;

use crate::out::{sequences, Out};
use arrow::array::*;
use arrow::datatypes::{DataType, Field, Schema};
use arrow::record_batch::RecordBatch;
use cli_output::{OutputFormat, OutputFormatter};
use serde_json::{json, Value};
use std::sync::Arc;

/// strict RFC 4180 reader (record separator CRLF or LF; a bare CR outside quotes is an error)
fn parse_csv(s: &str) -> Result<Vec<Vec<String>>, String> {
    let b: Vec<char> = s.chars().collect();
    let mut recs = Vec::new();
    let mut rec: Vec<String> = Vec::new();
    let mut i = 0;
    let n = b.len();
    loop {
        // parse one field
        let mut field = String::new();
        if i < n && b[i] == '"' {
            i += 1;
            loop {
                if i >= n {
                    return Err("unterminated quoted field".into());
                }
                if b[i] == '"' {
                    if i + 1 < n && b[i + 1] == '"' {
                        field.push('"');
                        i += 2;
                    } else {
                        i += 1;
                        break;
                    }
                } else {
                    field.push(b[i]);
                    i += 1;
                }
            }
            if i < n && b[i] != ',' && b[i] != '\n' && !(b[i] == '\r' && i + 1 < n && b[i + 1] == '\n') {
                return Err(format!("garbage after closing quote at {i}"));
            }
        } else {
            while i < n && b[i] != ',' && b[i] != '\n' && b[i] != '\r' {
                if b[i] == '"' {
                    return Err(format!("quote inside unquoted field at {i}"));
                }
                field.push(b[i]);
                i += 1;
            }
            if i < n && b[i] == '\r' && !(i + 1 < n && b[i + 1] == '\n') {
                return Err(format!("bare CR in unquoted field at {i}"));
            }
        }
        rec.push(field);
        if i >= n {
            if !(rec.len() == 1 && rec[0].is_empty()) {
                recs.push(rec);
            }
            return Ok(recs);
        }
        if b[i] == ',' {
            i += 1;
            if i >= n {
                rec.push(String::new());
                recs.push(rec);
                return Ok(recs);
            }
            continue;
        }
        // end of record
        if b[i] == '\r' {
            i += 2;
        } else {
            i += 1;
        }
        recs.push(std::mem::take(&mut rec));
        if i >= n {
            return Ok(recs);
        }
    }
}

#[derive(Clone, Debug)]
enum Cell {
    Null,
    S(String),
    I(i64),
    F(f64),
    B(bool),
}

fn display(c: &Cell) -> String {
    match c {
        Cell::Null => String::new(),
        Cell::S(s) => s.clone(),
        Cell::I(i) => i.to_string(),
        Cell::F(f) => f.to_string(),
        Cell::B(b) => b.to_string(),
    }
}

fn column(cells: &[Cell]) -> (DataType, ArrayRef) {
    let first = cells.iter().find(|c| !matches!(c, Cell::Null)).cloned().unwrap_or(Cell::S(String::new()));
    match first {
        Cell::S(_) | Cell::Null => (
            DataType::Utf8,
            Arc::new(StringArray::from(cells.iter().map(|c| if let Cell::S(s) = c { Some(s.clone()) } else { None }).collect::<Vec<_>>())) as ArrayRef,
        ),
        Cell::I(_) => (DataType::Int64, Arc::new(Int64Array::from(cells.iter().map(|c| if let Cell::I(s) = c { Some(*s) } else { None }).collect::<Vec<_>>()))),
        Cell::F(_) => (DataType::Float64, Arc::new(Float64Array::from(cells.iter().map(|c| if let Cell::F(s) = c { Some(*s) } else { None }).collect::<Vec<_>>()))),
        Cell::B(_) => (DataType::Boolean, Arc::new(BooleanArray::from(cells.iter().map(|c| if let Cell::B(s) = c { Some(*s) } else { None }).collect::<Vec<_>>()))),
    }
}

fn check(o: &mut Out, names: &[&str], cols: &[Vec<Cell>], what: &str) {
    let mut fields = Vec::new();
    let mut arrays = Vec::new();
    for (n, c) in names.iter().zip(cols) {
        let (dt, a) = column(c);
        fields.push(Field::new(*n, dt, true));
        arrays.push(a);
    }
    let batch = RecordBatch::try_new(Arc::new(Schema::new(fields)), arrays).unwrap();
    let nrows = batch.num_rows();
    // ---- CSV
    o.evaluations += 1;
    let csv = OutputFormatter::new(OutputFormat::Csv).format_to_string(&[batch.clone()]);
    let mut bad: Option<String> = None;
    match parse_csv(&csv) {
        Err(e) => bad = Some(format!("CSV does not parse under RFC 4180: {e}")),
        Ok(recs) => {
            if recs.len() != nrows + 1 {
                bad = Some(format!("CSV has {} records, expected header + {nrows}", recs.len()));
            } else if recs[0] != names.iter().map(|s| s.to_string()).collect::<Vec<_>>() {
                bad = Some(format!("CSV header {:?} != column names {:?}", recs[0], names));
            } else {
                for r in 0..nrows {
                    let want: Vec<String> = cols.iter().map(|c| display(&c[r])).collect();
                    if recs[r + 1] != want {
                        bad = Some(format!("CSV row {r} parses to {:?}, displayed cells are {:?}", recs[r + 1], want));
                        break;
                    }
                }
            }
        }
    }
    if let Some(w) = bad {
        o.violation(json!({"property":"C40","kind":"native","format":"csv","case":what,"columns":names,"rows": nrows, "why": w, "output": csv.chars().take(300).collect::<String>()}));
    } else {
        o.nontrivial += 1;
    }
    // ---- JSON
    o.evaluations += 1;
    let js = OutputFormatter::new(OutputFormat::Json).format_to_string(&[batch]);
    let mut bad: Option<String> = None;
    match serde_json::from_str::<Value>(&js) {
        Err(e) => bad = Some(format!("JSON does not parse: {e}")),
        Ok(Value::Array(rows)) => {
            if rows.len() != nrows {
                bad = Some(format!("JSON has {} rows, expected {nrows}", rows.len()));
            } else {
                'outer: for r in 0..nrows {
                    let Some(obj) = rows[r].as_object() else {
                        bad = Some("row is not an object".into());
                        break;
                    };
                    let distinct_names: std::collections::BTreeSet<&str> = names.iter().cloned().collect();
                    if obj.len() != distinct_names.len() {
                        bad = Some(format!("row {r} has {} keys, expected {}", obj.len(), distinct_names.len()));
                        break;
                    }
                    for (n, c) in names.iter().zip(cols) {
                        let got = obj.get(*n);
                        let ok = match (&c[r], got) {
                            (Cell::Null, Some(Value::Null)) => true,
                            (Cell::S(s), Some(Value::String(g))) => s == g,
                            (Cell::I(i), Some(Value::Number(g))) => g.as_i64() == Some(*i),
                            (Cell::F(f), Some(Value::Number(g))) => f.is_finite() && g.as_f64() == Some(*f),
                            (Cell::F(f), Some(Value::String(g))) => !f.is_finite() && *g == f.to_string(),
                            (Cell::B(b), Some(Value::Bool(g))) => b == g,
                            _ => false,
                        };
                        if !ok {
                            bad = Some(format!("row {r} column {n:?}: value {:?} came back as {:?}", c[r], got));
                            break 'outer;
                        }
                    }
                }
            }
        }
        Ok(_) => bad = Some("JSON output is not an array".into()),
    }
    if let Some(w) = bad {
        o.violation(json!({"property":"C40","kind":"native","format":"json","case":what,"columns":names,"rows": nrows, "why": w, "output": js.chars().take(300).collect::<String>()}));
    } else {
        o.nontrivial += 1;
    }
}

pub fn run(quick: bool, _seed: u64) -> Out {
    let mut o = Out::new();
    let alpha: Vec<char> = vec!['a', ',', '"', '\n', '\r', '\t', '\\', ' ', 'é', '\u{1}'];
    let maxlen = if quick { 3 } else { 4 };
    let mut strings: Vec<String> = Vec::new();
    for len in 0..=maxlen {
        sequences(alpha.len(), len, &mut |seq| strings.push(seq.iter().map(|i| alpha[*i]).collect()));
    }
    let others: Vec<Cell> = vec![
        Cell::Null, Cell::I(0), Cell::I(-7), Cell::I(i64::MAX), Cell::F(0.5), Cell::F(-0.0), Cell::F(1e300), Cell::F(f64::NAN), Cell::F(f64::INFINITY),
        Cell::F(f64::NEG_INFINITY), Cell::B(true), Cell::B(false),
    ];
    let names_pool: Vec<&str> = vec!["x", "a,b", "q\"", "n\nl", "k\\"];
    // (1) every string alone: 1 row x 1 column, under every column name
    for s in &strings {
        for n in &names_pool[..if quick { 3 } else { 5 }] {
            check(&mut o, &[n], &[vec![Cell::S(s.clone())]], "1x1 string");
        }
    }
    // (2) every string next to every other-typed cell / NULL: 1 row x 2 columns, both orders
    for s in strings.iter().filter(|s| s.chars().count() <= 2) {
        for oc in &others {
            check(&mut o, &["x", "y"], &[vec![Cell::S(s.clone())], vec![oc.clone()]], "1x2 string,other");
            check(&mut o, &["a,b", "q\""], &[vec![oc.clone()], vec![Cell::S(s.clone())]], "1x2 other,string");
        }
    }
    // (3) pairs of strings (length <= 1) in a 2 x 2 grid: record and field separators next to every special character
    let short: Vec<&String> = strings.iter().filter(|s| s.chars().count() <= 1).collect();
    for a in &short {
        for b in &short {
            for c in &short {
                check(&mut o, &["x", "y"], &[vec![Cell::S((*a).clone()), Cell::S((*c).clone())], vec![Cell::S((*b).clone()), Cell::Null]], "2x2 strings");
            }
        }
    }
    // (4) one big result set with every string as a row
    let all: Vec<Cell> = strings.iter().map(|s| Cell::S(s.clone())).collect();
    let ids: Vec<Cell> = (0..all.len() as i64).map(Cell::I).collect();
    check(&mut o, &["s", "id"], &[all, ids], "all strings as rows");
    // (5) typed columns with NULLs
    for oc in &others {
        check(&mut o, &["v"], &[vec![oc.clone(), Cell::Null, oc.clone()]], "typed column");
    }
    o.sample(json!({"cell": "a,\"\n", "csv_expected": "\"a,\"\"\n\"", "json_expected": "\"a,\\\"\\n\""}));
    o.extra.insert("strings".into(), json!(strings.len()));
    o.extra.insert("max_string_len".into(), json!(maxlen));
    o
}
