//! C12: assign_lpt is a deterministic partition within the LPT bound.
use crate::out::{multisets, Out};
use query_engine::distributed::splits::{assign_lpt, Split, SplitSet};
use rayon::prelude::*;
use serde_json::json;
use std::path::PathBuf;

fn make_set(sizes: &[u64], rows: &[i64]) -> SplitSet {
    let splits: Vec<Split> = sizes
        .iter()
        .enumerate()
        .map(|(i, b)| Split {
            table: "t".into(),
            path: PathBuf::from(format!("/x/f{}.parquet", i / 3)),
            file: format!("f{}.parquet", i / 3),
            row_group: i % 3,
            row_offset: 0,
            num_rows: rows[i],
            bytes: *b,
        })
        .collect();
    SplitSet {
        table: "t".into(),
        total_bytes: sizes.iter().sum(),
        total_rows: rows.iter().sum(),
        target_split_bytes: 1,
        splits,
    }
}

/// optimal makespan by branch and bound (items sorted descending, symmetry breaking on empty bins)
fn opt(sizes: &[u64], n: usize) -> u64 {
    let mut s: Vec<u64> = sizes.to_vec();
    s.sort_unstable_by(|a, b| b.cmp(a));
    let total: u64 = s.iter().sum();
    let lb = (total.div_ceil(n as u64)).max(s.first().copied().unwrap_or(0));
    let mut best = u64::MAX;
    fn rec(s: &[u64], i: usize, bins: &mut Vec<u64>, best: &mut u64, lb: u64) {
        if *best == lb {
            return;
        }
        let cur = bins.iter().copied().max().unwrap_or(0);
        if cur >= *best {
            return;
        }
        if i == s.len() {
            *best = cur;
            return;
        }
        let mut seen_empty = false;
        for b in 0..bins.len() {
            if bins[b] == 0 {
                if seen_empty {
                    continue;
                }
                seen_empty = true;
            }
            bins[b] += s[i];
            rec(s, i + 1, bins, best, lb);
            bins[b] -= s[i];
        }
    }
    rec(&s, 0, &mut vec![0; n], &mut best, lb);
    best
}

pub fn run(quick: bool, seed: u64) -> Out {
    let dom: Vec<u64> = vec![0, 1, 2, 3, 5, 8, 13];
    let (kmax, nmax) = if quick { (6, 4) } else { (9, 6) };
    let struct_kmax = if quick { 8 } else { 12 };
    let mut cases: Vec<Vec<u64>> = Vec::new();
    for k in 0..=struct_kmax {
        multisets(dom.len(), k, &mut |m| cases.push(m.iter().map(|i| dom[*i]).collect()));
    }
    let rot = (seed as usize) % cases.len().max(1);
    cases.rotate_left(rot);
    let outs: Vec<Out> = cases
        .par_iter()
        .map(|sizes| {
            let mut o = Out::new();
            let k = sizes.len();
            // present the multiset in a scrambled but deterministic order (ties and zero sizes interleaved)
            let mut order: Vec<usize> = (0..k).collect();
            order.rotate_left(if k > 0 { (sizes.iter().sum::<u64>() as usize) % k } else { 0 });
            let sz: Vec<u64> = order.iter().map(|i| sizes[*i]).collect();
            let rows: Vec<i64> = sz.iter().enumerate().map(|(i, b)| (*b as i64) * 10 + i as i64 + 1).collect();
            let set = make_set(&sz, &rows);
            let node_counts: Vec<usize> = if k <= kmax { (1..=nmax).chain([8, 64]).collect() } else { vec![1, 2, 3, 7, 64] };
            for n in node_counts {
                o.evaluations += 1;
                let a = assign_lpt(&set, n);
                let b = assign_lpt(&set, n);
                let mut bad: Option<String> = None;
                // partition
                let mut owner = vec![usize::MAX; k];
                if a.per_node.len() != n || a.nodes != n {
                    bad = Some("wrong node count".into());
                }
                for (ni, owned) in a.per_node.iter().enumerate() {
                    for &i in owned {
                        if i >= k || owner[i] != usize::MAX {
                            bad = Some(format!("split {i} owned twice or out of range"));
                        } else {
                            owner[i] = ni;
                        }
                    }
                }
                if owner.iter().any(|x| *x == usize::MAX) {
                    bad = Some("a split is owned by no node".into());
                }
                // totals
                if bad.is_none() {
                    for ni in 0..n {
                        let bytes: u64 = a.per_node[ni].iter().map(|i| set.splits[*i].bytes).sum();
                        let rws: i64 = a.per_node[ni].iter().map(|i| set.splits[*i].num_rows).sum();
                        if a.node_bytes[ni] != bytes || a.node_rows[ni] != rws || a.node_splits[ni] != a.per_node[ni].len() {
                            bad = Some(format!("node {ni} totals are not the sums of what it owns"));
                        }
                    }
                    if a.total_bytes != set.total_bytes {
                        bad = Some("total_bytes differs".into());
                    }
                }
                // determinism
                if a.per_node != b.per_node || a.node_bytes != b.node_bytes || a.node_rows != b.node_rows {
                    bad = Some("two calls on identical input differ".into());
                }
                // LPT bound on the exhaustively solved instances
                if bad.is_none() && k <= kmax && n <= nmax {
                    let best = opt(&sz, n);
                    let mx = a.node_bytes.iter().copied().max().unwrap_or(0);
                    if (mx as u128) * 3 * (n as u128) > (best as u128) * (4 * n as u128 - 1) {
                        bad = Some(format!("makespan {mx} exceeds (4/3 - 1/(3N)) x optimum {best}"));
                    }
                    o.count("bound_checked", 1);
                }
                if let Some(why) = bad {
                    o.violation(json!({"property": "C12", "kind": "native", "sizes": sz, "nodes": n, "why": why,
                        "per_node": a.per_node, "node_bytes": a.node_bytes}));
                } else if k >= 2 && n >= 2 {
                    o.nontrivial += 1;
                    if k == 5 && n == 2 {
                        o.sample(json!({"sizes": sz, "nodes": n, "per_node": a.per_node, "node_bytes": a.node_bytes}));
                    }
                }
            }
            o
        })
        .collect();
    let mut o = Out::new();
    for x in outs {
        o.merge(x);
    }
    o.extra.insert("multisets".into(), json!(cases.len()));
    o.extra.insert("bound_instances_k_max".into(), json!(kmax));
    o.extra.insert("bound_instances_nodes_max".into(), json!(nmax));
    o
}
