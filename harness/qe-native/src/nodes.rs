//! Shared helpers for C34 / C35: real `serve` nodes spawned in-process on ephemeral ports over generated Parquet tables.
use arrow::array::{Array, ArrayRef, Float64Array, Int64Array, StringArray};
use arrow::datatypes::{DataType, Field, Schema};
use arrow::record_batch::RecordBatch;
use parquet::arrow::ArrowWriter;
use parquet::file::properties::WriterProperties;
use query_engine::distributed::{spawn, ServeOptions, ServerHandle, TableLoader};
use query_engine::ExecutionContext;
use std::path::{Path, PathBuf};
use std::sync::Arc;
use std::time::{Duration, Instant};

pub fn fact_schema() -> Arc<Schema> {
    Arc::new(Schema::new(vec![
        Field::new("k", DataType::Int64, true),
        Field::new("g", DataType::Int64, true),
        Field::new("v", DataType::Float64, true),
        Field::new("s", DataType::Utf8, true),
    ]))
}

pub const STRS: [Option<&str>; 8] = [Some("plain"), Some("with,comma"), Some("with \"quote\""), None, Some(""), Some("line\nbreak"), Some("üñí 日本"), Some("plain")];

/// n rows: k = 0..n, g = k % 5 (NULL when k % 11 == 7), v = k/4 (NULL when k % 13 == 5), s cycles through STRS
pub fn fact_rows(n: usize, variant: i64) -> RecordBatch {
    let k: Vec<Option<i64>> = (0..n as i64).map(|i| Some(i + variant * 1_000_000)).collect();
    let g: Vec<Option<i64>> = (0..n as i64).map(|i| if i % 11 == 7 { None } else { Some(i % 5) }).collect();
    let v: Vec<Option<f64>> = (0..n as i64).map(|i| if i % 13 == 5 { None } else { Some(i as f64 / 4.0) }).collect();
    let s: Vec<Option<&str>> = (0..n).map(|i| STRS[i % STRS.len()]).collect();
    RecordBatch::try_new(
        fact_schema(),
        vec![Arc::new(Int64Array::from(k)) as ArrayRef, Arc::new(Int64Array::from(g)), Arc::new(Float64Array::from(v)), Arc::new(StringArray::from(s))],
    )
    .unwrap()
}

pub fn write_table(dir: &Path, name: &str, batch: &RecordBatch, files: usize, rg: usize) {
    let d = dir.join(name);
    let _ = std::fs::remove_dir_all(&d);
    std::fs::create_dir_all(&d).unwrap();
    let n = batch.num_rows();
    let per = n.div_ceil(files.max(1)).max(1);
    for f in 0..files.max(1) {
        let lo = (f * per).min(n);
        let hi = ((f + 1) * per).min(n);
        if lo >= hi && f > 0 {
            continue;
        }
        let props = WriterProperties::builder().set_max_row_group_row_count(Some(rg.max(1))).build();
        let file = std::fs::File::create(d.join(format!("part-{f:02}.parquet"))).unwrap();
        let mut w = ArrowWriter::try_new(file, batch.schema(), Some(props)).unwrap();
        w.write(&batch.slice(lo, hi - lo)).unwrap();
        w.close().unwrap();
    }
}

pub fn dim_batch() -> RecordBatch {
    let schema = Arc::new(Schema::new(vec![Field::new("g", DataType::Int64, true), Field::new("name", DataType::Utf8, true)]));
    RecordBatch::try_new(
        schema,
        vec![Arc::new(Int64Array::from(vec![Some(0), Some(1), Some(2), Some(3), None])) as ArrayRef, Arc::new(StringArray::from(vec![Some("zero"), Some("one"), Some("two"), None, Some("nil")]))],
    )
    .unwrap()
}

/// data directory with f (fact, `n` rows in 2 files, row groups of `rg`), d (dimension) and e (empty fact)
pub fn make_data(dir: &Path, n: usize, rg: usize, variant: i64) {
    write_table(dir, "f", &fact_rows(n, variant), 2, rg);
    write_table(dir, "d", &dim_batch(), 1, 100);
    write_table(dir, "e", &fact_rows(0, 0), 1, 100);
}

pub enum Load {
    Ok,
    Fail,
    /// blocks until the sender fires (true = then succeed, false = then fail)
    Gate(std::sync::mpsc::Receiver<bool>),
}

pub fn loader(dir: PathBuf, load: Load) -> TableLoader {
    Box::new(move || {
        let go = match load {
            Load::Ok => true,
            Load::Fail => false,
            Load::Gate(rx) => rx.recv().unwrap_or(false),
        };
        if !go {
            return Err(query_engine::QueryError::Execution("verification harness: table load failed on purpose".into()));
        }
        let mut ctx = ExecutionContext::new();
        for t in ["f", "d", "e"] {
            ctx.register_parquet(t, dir.join(t))?;
        }
        Ok(ctx)
    })
}

pub fn opts(node_id: u64) -> ServeOptions {
    ServeOptions {
        bind: "127.0.0.1:0".into(),
        node_id: Some(node_id),
        discovery_interval: Duration::from_millis(40),
        probe_timeout: Duration::from_millis(1500),
        ..Default::default()
    }
}

pub async fn spawn_node(node_id: u64, dir: PathBuf, load: Load) -> ServerHandle {
    std::env::remove_var("QE_ADVERTISE_ADDR");
    std::env::remove_var("QE_NODE_ID");
    std::env::remove_var("POD_IP");
    spawn(opts(node_id), loader(dir, load)).await.expect("spawn node")
}

/// a node whose discovery loop sleeps for an hour after its first pass: the harness decides the membership view
pub async fn spawn_node_manual_membership(node_id: u64, dir: PathBuf) -> ServerHandle {
    std::env::remove_var("QE_ADVERTISE_ADDR");
    std::env::remove_var("QE_NODE_ID");
    std::env::remove_var("POD_IP");
    let mut o = opts(node_id);
    o.discovery_interval = Duration::from_secs(3600);
    spawn(o, loader(dir, Load::Ok)).await.expect("spawn node")
}

pub async fn wait_until(mut f: impl FnMut() -> bool, secs: u64) -> bool {
    let deadline = Instant::now() + Duration::from_secs(secs);
    while Instant::now() < deadline {
        if f() {
            return true;
        }
        tokio::time::sleep(Duration::from_millis(15)).await;
    }
    f()
}

/// point every node at every other and wait until each sees the expected number of members up (self included)
pub async fn connect(nodes: &[&ServerHandle], expect_up: usize) -> bool {
    let addrs: Vec<String> = nodes.iter().map(|n| n.address().to_string()).collect();
    for n in nodes {
        n.set_peers(addrs.clone());
    }
    let mut ok = true;
    for n in nodes {
        let st = n.state().clone();
        ok &= wait_until(
            || st.membership.members().iter().filter(|m| m.is_self || m.status == query_engine::distributed::PeerStatus::Up).count() >= expect_up,
            20,
        )
        .await;
    }
    ok
}

/// canonical text of a cell
pub fn cell(c: &ArrayRef, r: usize) -> String {
    if c.is_null(r) {
        return "NULL".into();
    }
    if let Some(a) = c.as_any().downcast_ref::<Float64Array>() {
        let v = a.value(r);
        return format!("{:.9e}", v);
    }
    let c2 = if let DataType::Dictionary(_, _) = c.data_type() { arrow::compute::cast(c, &DataType::Utf8).unwrap() } else { c.clone() };
    arrow::util::display::array_value_to_string(c2.as_ref(), r).unwrap_or_default()
}

pub fn rows_text(batches: &[RecordBatch]) -> Vec<Vec<String>> {
    let mut out = Vec::new();
    for b in batches {
        for r in 0..b.num_rows() {
            out.push(b.columns().iter().map(|c| cell(c, r)).collect());
        }
    }
    out
}

pub fn decode_ipc_stream(body: &[u8]) -> Result<(Arc<Schema>, Vec<RecordBatch>), String> {
    let rd = arrow::ipc::reader::StreamReader::try_new(std::io::Cursor::new(body), None).map_err(|e| e.to_string())?;
    let schema = rd.schema();
    let mut v = Vec::new();
    for b in rd {
        v.push(b.map_err(|e| e.to_string())?);
    }
    Ok((schema, v))
}
