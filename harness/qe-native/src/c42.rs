//! C42: cpulist parsing and workers_for.
use crate::out::{fnv, Out};
use query_engine::execution::topology::{verif_parse_cpulist, workers_for};
use rayon::prelude::*;
use serde_json::json;
use std::collections::BTreeSet;

const IDS: [usize; 13] = [0, 1, 2, 3, 4, 5, 6, 7, 8, 9, 63, 64, 255];

/// every way to cut a sorted run-decomposed set into range/singleton tokens
fn groupings(sorted: &[usize]) -> Vec<Vec<(usize, usize)>> {
    // maximal runs first; each run of length L can be cut at any subset of its L-1 internal boundaries
    let mut runs: Vec<Vec<usize>> = Vec::new();
    for &v in sorted {
        match runs.last_mut() {
            Some(r) if *r.last().unwrap() + 1 == v => r.push(v),
            _ => runs.push(vec![v]),
        }
    }
    let mut out: Vec<Vec<(usize, usize)>> = vec![vec![]];
    for r in runs {
        let l = r.len();
        let mut next = Vec::new();
        for cut in 0..(1usize << (l - 1)) {
            let mut toks = Vec::new();
            let mut start = 0;
            for i in 0..l {
                if i + 1 == l || (cut >> i) & 1 == 1 {
                    toks.push((r[start], r[i]));
                    start = i + 1;
                }
            }
            for prefix in &out {
                let mut p = prefix.clone();
                p.extend(toks.iter().cloned());
                next.push(p);
            }
        }
        out = next;
    }
    out
}

fn permutations<T: Clone>(v: &[T]) -> Vec<Vec<T>> {
    if v.len() <= 1 {
        return vec![v.to_vec()];
    }
    let mut out = Vec::new();
    for i in 0..v.len() {
        let mut rest = v.to_vec();
        let x = rest.remove(i);
        for mut p in permutations(&rest) {
            p.insert(0, x.clone());
            out.push(p);
        }
    }
    out
}

fn render(tok: &(usize, usize), style: usize) -> String {
    let (a, b) = *tok;
    if a == b {
        match style {
            1 => format!(" {a} "),
            _ => format!("{a}"),
        }
    } else {
        match style {
            1 => format!(" {a} - {b} "),
            2 => format!("{a}- {b}"),
            _ => format!("{a}-{b}"),
        }
    }
}

pub fn run(quick: bool, seed: u64) -> Out {
    let max_set = if quick { 4 } else { 5 };
    // all subsets of IDS of size <= max_set
    let mut sets: Vec<Vec<usize>> = Vec::new();
    for mask in 0u32..(1 << IDS.len()) {
        if (mask.count_ones() as usize) <= max_set {
            sets.push((0..IDS.len()).filter(|i| mask >> i & 1 == 1).map(|i| IDS[i]).collect());
        }
    }
    let rot = (seed as usize) % sets.len();
    sets.rotate_left(rot);
    let junk = ["", "x", "3-", "-3", "5-2", " ", "1-x"];
    let outs: Vec<Out> = sets
        .par_iter()
        .map(|set| {
            let mut o = Out::new();
            let want: Vec<usize> = set.clone();
            let mut check = |text: String, want: &Vec<usize>, o: &mut Out| {
                o.evaluations += 1;
                let got = std::panic::catch_unwind(|| verif_parse_cpulist(&text));
                match got {
                    Ok(g) if &g == want => {
                        if want.len() >= 2 {
                            o.distinct.insert(fnv(text.as_bytes()));
                        }
                    }
                    Ok(g) => o.violation(json!({"property":"C42","kind":"native","text":text,"got":g,"want":want})),
                    Err(_) => o.violation(json!({"property":"C42","kind":"native","text":text,"why":"panic"})),
                }
            };
            for g in groupings(set) {
                let orders = if g.len() <= 4 { permutations(&g) } else { vec![g.clone(), g.iter().rev().cloned().collect()] };
                for ord in orders {
                    for style in 0..3 {
                        let body: Vec<String> = ord.iter().map(|t| render(t, style)).collect();
                        let text = body.join(",");
                        check(text.clone(), &want, &mut o);
                        check(format!("{text}\n"), &want, &mut o);
                        if style == 0 {
                            // duplicates and an overlapping range
                            if let Some(first) = ord.first() {
                                check(format!("{text},{}", render(first, 0)), &want, &mut o);
                                if first.0 != first.1 {
                                    let mut w2: BTreeSet<usize> = want.iter().cloned().collect();
                                    w2.extend(first.0..=first.1);
                                    check(format!("{text},{}-{}", first.0, first.1), &w2.into_iter().collect(), &mut o);
                                }
                            }
                            // junk tokens at every position are ignored ("5-2" denotes nothing)
                            for j in junk {
                                for pos in 0..=body.len() {
                                    let mut b2 = body.clone();
                                    b2.insert(pos, j.to_string());
                                    check(b2.join(","), &want, &mut o);
                                }
                            }
                        }
                    }
                }
            }
            if set.len() == 3 {
                o.sample(json!({"set": set, "one_rendering": groupings(set)[0].iter().map(|t| render(t, 0)).collect::<Vec<_>>().join(",")}));
            }
            o
        })
        .collect();
    let mut o = Out::new();
    for x in outs {
        o.merge(x);
    }
    // overlapping ranges across tokens
    for (text, want) in [("0-5,3-8", (0..=8).collect::<Vec<usize>>()), ("3-8,0-5,4", (0..=8).collect()), ("0-0", vec![0]), ("255-255,63-64", vec![63, 64, 255])] {
        o.evaluations += 1;
        let g = verif_parse_cpulist(text);
        if g != want {
            o.violation(json!({"property":"C42","kind":"native","text":text,"got":g,"want":want}));
        }
    }
    // workers_for over all (w, m) in 0..70
    for w in 0..70usize {
        for m in 0..70usize {
            o.evaluations += 1;
            let r = workers_for(w, m);
            if r < 1 || r > m.max(1) || r > w.max(1) {
                o.violation(json!({"property":"C42","kind":"native","workers_for":[w,m],"got":r}));
            } else if w >= 2 && m >= 2 {
                o.nontrivial += 1;
            }
        }
    }
    o.extra.insert("cpu_sets".into(), json!(sets.len()));
    o
}
