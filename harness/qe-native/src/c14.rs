//! C14: nodes that disagree about the data refuse to answer (digest interlock in execute_fragment).
use crate::out::Out;
use arrow::array::{ArrayRef, Int64Array, StringArray};
use arrow::datatypes::{DataType, Field, Schema};
use arrow::record_batch::RecordBatch;
use parquet::arrow::ArrowWriter;
use parquet::file::properties::WriterProperties;
use query_engine::distributed::coordinator::{execute_fragment, splits_of, FragmentRequest};
use query_engine::execution::ExecutionContext;
use serde_json::json;
use std::path::PathBuf;
use std::sync::Arc;

#[derive(Clone, Debug)]
struct FileSpec {
    name: String,
    ids: Vec<i64>,
    rg: usize,
    wide: bool,
}

fn schema() -> Arc<Schema> {
    Arc::new(Schema::new(vec![Field::new("id", DataType::Int64, false), Field::new("s", DataType::Utf8, true)]))
}

fn write(dir: &PathBuf, files: &[FileSpec]) {
    let _ = std::fs::remove_dir_all(dir);
    std::fs::create_dir_all(dir).unwrap();
    for f in files {
        let strs: Vec<String> = f.ids.iter().map(|i| if f.wide { format!("row-{i}-padded-with-more-bytes-{}", "x".repeat(40)) } else { format!("r{i}") }).collect();
        let batch = RecordBatch::try_new(
            schema(),
            vec![Arc::new(Int64Array::from(f.ids.clone())) as ArrayRef, Arc::new(StringArray::from(strs.iter().map(|s| Some(s.as_str())).collect::<Vec<_>>()))],
        )
        .unwrap();
        let props = WriterProperties::builder().set_max_row_group_row_count(Some(f.rg.max(1))).build();
        let file = std::fs::File::create(dir.join(&f.name)).unwrap();
        let mut w = ArrowWriter::try_new(file, schema(), Some(props)).unwrap();
        if !f.ids.is_empty() {
            w.write(&batch).unwrap();
        }
        w.close().unwrap();
    }
}

fn bases() -> Vec<Vec<FileSpec>> {
    vec![
        vec![FileSpec { name: "a.parquet".into(), ids: (0..6).collect(), rg: 3, wide: false }],
        vec![
            FileSpec { name: "a.parquet".into(), ids: (0..4).collect(), rg: 2, wide: false },
            FileSpec { name: "b.parquet".into(), ids: (4..7).collect(), rg: 2, wide: false },
        ],
        vec![
            FileSpec { name: "b.parquet".into(), ids: (0..2).collect(), rg: 100, wide: false },
            FileSpec { name: "a.parquet".into(), ids: (2..3).collect(), rg: 100, wide: false },
            FileSpec { name: "c.parquet".into(), ids: (3..9).collect(), rg: 4, wide: false },
        ],
    ]
}

/// (name, worker copy, must the digests differ?)
fn variants(base: &[FileSpec]) -> Vec<(&'static str, Vec<FileSpec>, bool)> {
    let mut v: Vec<(&'static str, Vec<FileSpec>, bool)> = Vec::new();
    v.push(("identical copy under another directory", base.to_vec(), false));
    let mut r = base.to_vec();
    r.reverse();
    v.push(("files written in the reverse order", r, false));
    let mut x = base.to_vec();
    x[0].name = "z.parquet".into();
    v.push(("one file renamed", x, true));
    let mut x = base.to_vec();
    x[0].rg = if x[0].rg == 1 { 2 } else { 1 };
    v.push(("row-group size changed", x, true));
    let mut x = base.to_vec();
    let last = x.len() - 1;
    let extra = *x[last].ids.last().unwrap() + 100;
    x[last].ids.push(extra);
    v.push(("one row more", x, true));
    let mut x = base.to_vec();
    x[0].ids.pop();
    v.push(("one row fewer", x, true));
    let mut x = base.to_vec();
    x[0].wide = true;
    v.push(("same rows, wider strings (byte size)", x, true));
    let mut x = base.to_vec();
    x.push(FileSpec { name: "extra.parquet".into(), ids: vec![1000], rg: 10, wide: false });
    v.push(("an extra file", x, true));
    // copies that exist under the right names but hold nothing (a copy that died before its first flush)
    let mut x = base.to_vec();
    for f in x.iter_mut() {
        f.ids.clear();
    }
    v.push(("every file present but without a row group", x, true));
    let mut x = base.to_vec();
    x[0].ids.clear();
    v.push(("the first file without a row group", x, base.len() > 1 || !base[0].ids.is_empty()));
    if base.len() > 1 {
        let mut x = base.to_vec();
        x.pop();
        v.push(("the last file missing", x, true));
    }
    v
}

pub fn run(quick: bool, _seed: u64, work: &str) -> Out {
    let mut o = Out::new();
    let rt = tokio::runtime::Builder::new_current_thread().enable_all().build().unwrap();
    let root = PathBuf::from(work).join(format!("c14-{}", std::process::id()));
    let max_count = if quick { 3 } else { 4 };
    for (bi, base) in bases().iter().enumerate() {
        let dir_a = root.join(format!("init{bi}"));
        write(&dir_a, base);
        let mut init = ExecutionContext::new();
        init.register_parquet("t", &dir_a).unwrap();
        for (vi, (vname, files, must_differ)) in variants(base).into_iter().enumerate() {
            let dir_b = root.join(format!("worker{bi}_{vi}"));
            write(&dir_b, &files);
            let mut worker = ExecutionContext::new();
            worker.register_parquet("t", &dir_b).unwrap();
            let worker_ids: std::collections::BTreeSet<i64> = files.iter().flat_map(|f| f.ids.iter().cloned()).collect();
            for count in 1..=max_count {
                let di = splits_of(&init, "t", count).map(|s| s.digest());
                let dw = splits_of(&worker, "t", count).map(|s| s.digest());
                let (Ok(di), Ok(dw)) = (di, dw) else {
                    o.violation(json!({"property":"C14","kind":"native","base":bi,"variant":vname,"why":"splits_of failed"}));
                    continue;
                };
                o.evaluations += 1;
                if must_differ && di == dw {
                    o.violation(json!({"property":"C14","kind":"native","base":bi,"variant":vname,"shard_count":count,
                        "why":"the copies differ in a split-relevant attribute but their digests are equal"}));
                }
                if !must_differ && di != dw {
                    o.violation(json!({"property":"C14","kind":"native","base":bi,"variant":vname,"shard_count":count,
                        "why":"the copies are split-identical but their digests differ"}));
                }
                let mut seen_ok: std::collections::BTreeSet<i64> = Default::default();
                for index in 0..=(count + 1) {
                    for (dname, digest) in [("initiator's", di), ("worker's own", dw), ("zero", 0u64)] {
                        o.evaluations += 1;
                        let req = FragmentRequest { sql: "SELECT id FROM t".into(), table: "t".into(), shard_index: index, shard_count: count, splits_digest: digest };
                        let res = std::panic::catch_unwind(std::panic::AssertUnwindSafe(|| rt.block_on(execute_fragment(&worker, &req))));
                        let expect_ok = index < count && digest == dw;
                        match res {
                            Err(_) => o.violation(json!({"property":"C14","kind":"native","base":bi,"variant":vname,"shard_count":count,"shard_index":index,"digest":dname,"why":"panic"})),
                            Ok(Ok((r, _))) => {
                                if !expect_ok {
                                    o.violation(json!({"property":"C14","kind":"native","base":bi,"variant":vname,"shard_count":count,"shard_index":index,"digest":dname,
                                        "why": format!("the fragment ran ({} rows) although {}", r.row_count,
                                            if index >= count { "the shard index is out of range" } else { "the digest is not the one this worker computes" })}));
                                } else {
                                    o.count("ran", 1);
                                    for b in &r.batches {
                                        let a = b.column(0).as_any().downcast_ref::<Int64Array>().unwrap();
                                        for i in 0..a.len() {
                                            if !worker_ids.contains(&a.value(i)) {
                                                o.violation(json!({"property":"C14","kind":"native","variant":vname,"why":"a fragment returned a row that is not in the worker's table"}));
                                            }
                                            if digest == dw && dname == "worker's own" {
                                                seen_ok.insert(a.value(i));
                                            }
                                        }
                                    }
                                }
                            }
                            Ok(Err(_)) => {
                                if expect_ok {
                                    o.violation(json!({"property":"C14","kind":"native","base":bi,"variant":vname,"shard_count":count,"shard_index":index,"digest":dname,
                                        "why":"a fragment with the worker's own digest and an in-range index was refused"}));
                                } else {
                                    o.count("refused", 1);
                                    o.nontrivial += 1;
                                }
                            }
                        }
                    }
                }
                if seen_ok != worker_ids {
                    o.violation(json!({"property":"C14","kind":"native","base":bi,"variant":vname,"shard_count":count,"why":"the in-range shards with the worker's digest do not cover the worker's table"}));
                }
            }
            if vi == 2 && bi == 1 {
                o.sample(json!({"initiator_files": base.iter().map(|f| (f.name.clone(), f.ids.len(), f.rg)).collect::<Vec<_>>(), "worker_variant": vname}));
            }
        }
    }
    let _ = std::fs::remove_dir_all(&root);
    o
}
