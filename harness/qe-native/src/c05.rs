//! C05: statistics-based row-group skipping is sound (the property's own oracle: decode the row group and evaluate the predicate).
use crate::out::{multisets, Out};
use arrow::array::{Array, ArrayRef, BooleanArray, Date32Array, Float64Array, Int32Array, Int64Array, StringArray};
use arrow::datatypes::{DataType, Field, Schema, SchemaRef};
use arrow::record_batch::RecordBatch;
use ordered_float::OrderedFloat;
use parquet::arrow::arrow_reader::ParquetRecordBatchReaderBuilder;
use parquet::arrow::ArrowWriter;
use parquet::file::properties::{EnabledStatistics, WriterProperties};
use query_engine::physical::evaluate_expr;
use query_engine::planner::{BinaryOp, Column, Expr, ScalarValue, UnaryOp};
use query_engine::storage::row_group_pruning::{row_group_definitely_matches, row_group_might_match};
use serde_json::json;
use std::path::PathBuf;
use std::sync::Arc;

#[derive(Clone, Debug)]
enum V {
    N,
    I32(i32),
    I64(i64),
    F64(f64),
    S(&'static str),
    D(i32),
}

fn domain(t: &str) -> Vec<V> {
    match t {
        "int64" => vec![V::N, V::I64(-1), V::I64(0), V::I64(1), V::I64(1 << 53), V::I64((1 << 53) + 1), V::I64(i64::MAX), V::I64(i64::MIN)],
        "int32" => vec![V::N, V::I32(i32::MIN), V::I32(-1), V::I32(0), V::I32(1), V::I32(i32::MAX)],
        "date32" => vec![V::N, V::D(i32::MIN), V::D(-1), V::D(0), V::D(1), V::D(i32::MAX)],
        "float64" => vec![V::N, V::F64(f64::NAN), V::F64(f64::NEG_INFINITY), V::F64(-0.0), V::F64(0.0), V::F64(1.5), V::F64(f64::INFINITY)],
        _ => vec![V::N, V::S(""), V::S("a"), V::S("ab"), V::S("b"), V::S("é"), V::S("\u{10000}")],
    }
}

fn column(t: &str, vals: &[V]) -> (DataType, ArrayRef) {
    match t {
        "int64" => (DataType::Int64, Arc::new(Int64Array::from(vals.iter().map(|v| if let V::I64(x) = v { Some(*x) } else { None }).collect::<Vec<_>>()))),
        "int32" => (DataType::Int32, Arc::new(Int32Array::from(vals.iter().map(|v| if let V::I32(x) = v { Some(*x) } else { None }).collect::<Vec<_>>()))),
        "date32" => (DataType::Date32, Arc::new(Date32Array::from(vals.iter().map(|v| if let V::D(x) = v { Some(*x) } else { None }).collect::<Vec<_>>()))),
        "float64" => (DataType::Float64, Arc::new(Float64Array::from(vals.iter().map(|v| if let V::F64(x) = v { Some(*x) } else { None }).collect::<Vec<_>>()))),
        _ => (DataType::Utf8, Arc::new(StringArray::from(vals.iter().map(|v| if let V::S(x) = v { Some(*x) } else { None }).collect::<Vec<_>>()))),
    }
}

fn literals() -> Vec<ScalarValue> {
    let mut l = Vec::new();
    for x in [i32::MIN, -1, 0, 1, i32::MAX] {
        l.push(ScalarValue::Int32(x));
        l.push(ScalarValue::Date32(x));
    }
    for x in [i64::MIN, -1, 0, 1, 1 << 53, (1 << 53) + 1, i64::MAX, i32::MAX as i64 + 1] {
        l.push(ScalarValue::Int64(x));
    }
    for x in [-1.5f32, 0.0, 0.5, f32::NAN, f32::INFINITY] {
        l.push(ScalarValue::Float32(OrderedFloat(x)));
    }
    for x in [f64::NAN, f64::NEG_INFINITY, -0.0, 0.0, 0.5, 1.5, f64::INFINITY, 9007199254740993.0, -0.5] {
        l.push(ScalarValue::Float64(OrderedFloat(x)));
    }
    for x in ["", "a", "aa", "ab", "b", "é", "\u{10000}", "0"] {
        l.push(ScalarValue::Utf8(x.to_string()));
    }
    for x in [0i64, 1, 86_400_000_000, -1] {
        l.push(ScalarValue::Timestamp(x));
    }
    l.push(ScalarValue::Null);
    l
}

fn col() -> Expr {
    Expr::Column(Column::new("x"))
}
fn lit(v: &ScalarValue) -> Expr {
    Expr::Literal(v.clone())
}
fn bin(l: Expr, op: BinaryOp, r: Expr) -> Expr {
    Expr::BinaryExpr { left: Box::new(l), op, right: Box::new(r) }
}

fn leaves() -> Vec<Expr> {
    let ops = [BinaryOp::Eq, BinaryOp::NotEq, BinaryOp::Lt, BinaryOp::LtEq, BinaryOp::Gt, BinaryOp::GtEq];
    let mut out = Vec::new();
    for v in literals() {
        for op in ops {
            out.push(bin(col(), op, lit(&v)));
            out.push(bin(lit(&v), op, col()));
        }
    }
    out
}

fn compound(quick: bool) -> Vec<Expr> {
    let lits = literals();
    let pick: Vec<&ScalarValue> = lits.iter().filter(|v| matches!(v, ScalarValue::Int64(-1 | 0 | 1) | ScalarValue::Int32(0 | 1) | ScalarValue::Float64(_) | ScalarValue::Utf8(_) | ScalarValue::Date32(0 | 1))).collect();
    let mut out = Vec::new();
    for a in &pick {
        for b in &pick {
            if std::mem::discriminant(*a) != std::mem::discriminant(*b) {
                continue;
            }
            for negated in [false, true] {
                out.push(Expr::Between { expr: Box::new(col()), low: Box::new(lit(a)), high: Box::new(lit(b)), negated });
                out.push(Expr::InList { expr: Box::new(col()), list: vec![lit(a), lit(b)], negated });
            }
        }
        out.push(Expr::UnaryExpr { op: UnaryOp::Not, expr: Box::new(bin(col(), BinaryOp::Lt, lit(a))) });
        out.push(Expr::UnaryExpr { op: UnaryOp::Not, expr: Box::new(bin(col(), BinaryOp::Eq, lit(a))) });
        out.push(Expr::UnaryExpr { op: UnaryOp::IsNull, expr: Box::new(col()) });
        out.push(Expr::UnaryExpr { op: UnaryOp::IsNotNull, expr: Box::new(col()) });
    }
    if !quick {
        let ops = [BinaryOp::Eq, BinaryOp::Lt, BinaryOp::GtEq, BinaryOp::NotEq];
        for a in &pick {
            for b in &pick {
                if std::mem::discriminant(*a) != std::mem::discriminant(*b) {
                    continue;
                }
                for o1 in ops {
                    for o2 in ops {
                        for conn in [BinaryOp::And, BinaryOp::Or] {
                            out.push(bin(bin(col(), o1, lit(a)), conn, bin(col(), o2, lit(b))));
                        }
                    }
                }
            }
        }
    }
    out
}

pub fn run(quick: bool, seed: u64, work: &str) -> Out {
    let types = ["int64", "int32", "float64", "utf8", "date32"];
    let maxn = if quick { 2 } else { 3 };
    let preds: Vec<Expr> = leaves().into_iter().chain(compound(quick)).collect();
    let base = PathBuf::from(work).join(format!("c05-{}", std::process::id()));
    let _ = std::fs::create_dir_all(&base);
    let mut o = Out::new();
    let mut file_no = 0usize;
    for t in types {
        let dom = domain(t);
        let mut sets: Vec<Vec<usize>> = Vec::new();
        for n in 1..=maxn {
            multisets(dom.len(), n, &mut |m| sets.push(m.to_vec()));
        }
        let rot = (seed as usize) % sets.len();
        sets.rotate_left(rot);
        for m in sets {
            let vals: Vec<V> = m.iter().map(|i| dom[*i].clone()).collect();
            let (dt, arr) = column(t, &vals);
            let schema: SchemaRef = Arc::new(Schema::new(vec![Field::new("x", dt, true)]));
            let batch = RecordBatch::try_new(schema.clone(), vec![arr]).unwrap();
            let path = base.join(format!("f{file_no}.parquet"));
            file_no += 1;
            {
                let props = WriterProperties::builder().set_statistics_enabled(EnabledStatistics::Chunk).build();
                let f = std::fs::File::create(&path).unwrap();
                let mut w = ArrowWriter::try_new(f, schema.clone(), Some(props)).unwrap();
                w.write(&batch).unwrap();
                w.close().unwrap();
            }
            let f = std::fs::File::open(&path).unwrap();
            let builder = ParquetRecordBatchReaderBuilder::try_new(f).unwrap();
            let md = builder.metadata().clone();
            let file_schema = builder.schema().clone();
            let decoded: Vec<RecordBatch> = builder.build().unwrap().map(|b| b.unwrap()).collect();
            let rg = md.row_group(0);
            let whole = arrow::compute::concat_batches(&file_schema, &decoded).unwrap();
            for p in &preds {
                let truth = match std::panic::catch_unwind(std::panic::AssertUnwindSafe(|| evaluate_expr(&whole, p))) {
                    Ok(Ok(a)) => a,
                    Ok(Err(_)) => {
                        o.count("predicate_not_evaluable_on_this_type", 1);
                        continue;
                    }
                    Err(_) => {
                        o.count("interpreter_panicked", 1);
                        continue;
                    }
                };
                let Some(mask) = truth.as_any().downcast_ref::<BooleanArray>() else {
                    o.count("predicate_not_boolean", 1);
                    continue;
                };
                o.evaluations += 1;
                let any_true = (0..mask.len()).any(|i| mask.is_valid(i) && mask.value(i));
                let all_true = (0..mask.len()).all(|i| mask.is_valid(i) && mask.value(i));
                let r = std::panic::catch_unwind(std::panic::AssertUnwindSafe(|| {
                    (row_group_might_match(p, rg, &file_schema), row_group_definitely_matches(p, rg, &file_schema))
                }));
                let (might, definitely) = match r {
                    Ok(x) => x,
                    Err(_) => {
                        o.violation(json!({"property":"C05","kind":"native","type":t,"values":format!("{vals:?}"),"predicate":p.to_string(),"why":"the pruner panicked"}));
                        continue;
                    }
                };
                if ((!might && any_true) || (definitely && !all_true)) && vals.iter().any(|v| matches!(v, V::F64(x) if x.is_nan())) {
                    // known finding: Parquet double statistics leave NaN rows out of min/max, the row-level comparison orders NaN above everything
                    o.known("double_statistics_ignore_nan_rows", json!({"type":t,"values":format!("{vals:?}"),"predicate":p.to_string(),"might_match":might,"definitely_matches":definitely}));
                    continue;
                }
                if !might && any_true {
                    o.violation(json!({"property":"C05","kind":"native","type":t,"values":format!("{vals:?}"),"predicate":p.to_string(),
                        "why":"row_group_might_match is false but a row of the group satisfies the predicate (the group would be skipped)"}));
                } else if definitely && !all_true {
                    o.violation(json!({"property":"C05","kind":"native","type":t,"values":format!("{vals:?}"),"predicate":p.to_string(),
                        "why":"row_group_definitely_matches is true but a row of the group does not satisfy the predicate (the filter would be dropped)"}));
                } else if !might || definitely {
                    o.nontrivial += 1;
                    if o.samples.len() < 4 && vals.len() == 2 {
                        o.sample(json!({"type":t,"values":format!("{vals:?}"),"predicate":p.to_string(),"might_match":might,"definitely_matches":definitely}));
                    }
                } else {
                    o.count("no_decision", 1);
                }
            }
            let _ = std::fs::remove_file(&path);
        }
    }
    let _ = std::fs::remove_dir_all(&base);
    o.extra.insert("predicates".into(), json!(preds.len()));
    o.extra.insert("files".into(), json!(file_no));
    o
}
