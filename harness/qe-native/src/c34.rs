//! C34: Flight and HTTP return the same answer — real nodes, every statement x result size x mode x cluster size
//! through GetFlightInfo + DoGet and through POST /sql; every malformed / oversized / unknown-version ticket refused.
use crate::nodes::*;
use crate::out::{fnv, Out};
use arrow_flight::client::FlightClient;
use arrow_flight::decode::DecodedPayload;
use arrow_flight::{FlightDescriptor, Ticket};
use futures::TryStreamExt;
use query_engine::distributed::http_client::post_text;
use query_engine::distributed::ServerHandle;
use serde_json::{json, Value};
use std::path::PathBuf;
use std::time::Duration;

const T: Duration = Duration::from_secs(30);

async fn client(h: &ServerHandle) -> Result<FlightClient, String> {
    let addr = h.flight_addr().ok_or("flight disabled")?;
    let ch = tonic::transport::Endpoint::from_shared(format!("http://{addr}")).map_err(|e| e.to_string())?.connect().await.map_err(|e| e.to_string())?;
    Ok(FlightClient::new(ch))
}

struct FlightAnswer {
    schema: Vec<(String, String)>,
    info_schema: Vec<(String, String)>,
    rows: Vec<Vec<String>>,
    meta: Option<Value>,
    max_batch_rows: usize,
    trailer_is_last: bool,
}

fn fields(s: &arrow::datatypes::Schema) -> Vec<(String, String)> {
    s.fields().iter().map(|f| (f.name().clone(), format!("{}", f.data_type()))).collect()
}

async fn flight_sql(c: &mut FlightClient, cmd: Vec<u8>) -> Result<FlightAnswer, String> {
    let info = c.get_flight_info(FlightDescriptor::new_cmd(cmd)).await.map_err(|e| format!("get_flight_info: {e}"))?;
    let info_schema = info.clone().try_decode_schema().map(|s| fields(&s)).map_err(|e| format!("info schema: {e}"))?;
    let ticket = info.endpoint.first().and_then(|e| e.ticket.clone()).ok_or("no ticket")?;
    do_get(c, ticket, info_schema).await
}

async fn do_get(c: &mut FlightClient, ticket: Ticket, info_schema: Vec<(String, String)>) -> Result<FlightAnswer, String> {
    let mut st = c.do_get(ticket).await.map_err(|e| format!("do_get: {e}"))?.into_inner();
    let mut batches = Vec::new();
    let mut meta = None;
    let mut schema = Vec::new();
    let mut max_rows = 0;
    let mut trailer_is_last = false;
    while let Some(d) = st.try_next().await.map_err(|e| format!("stream: {e}"))? {
        trailer_is_last = false;
        if !d.inner.app_metadata.is_empty() {
            meta = serde_json::from_slice::<Value>(&d.inner.app_metadata).ok();
            trailer_is_last = true;
        }
        match d.payload {
            DecodedPayload::Schema(s) => schema = fields(&s),
            DecodedPayload::RecordBatch(b) => {
                max_rows = max_rows.max(b.num_rows());
                batches.push(b);
            }
            DecodedPayload::None => {}
        }
    }
    Ok(FlightAnswer { schema, info_schema, rows: rows_text(&batches), meta, max_batch_rows: max_rows, trailer_is_last })
}

fn multiset_eq(a: &[Vec<String>], b: &[Vec<String>]) -> bool {
    let mut x = a.to_vec();
    let mut y = b.to_vec();
    x.sort();
    y.sort();
    x == y
}

fn statements(n: usize) -> Vec<(String, bool)> {
    let mut v: Vec<(String, bool)> = vec![
        ("SELECT k, g, v, s FROM f".into(), false),
        ("SELECT k, s FROM f WHERE k < 0".into(), false),
        ("SELECT COUNT(*) AS c, SUM(k) AS sk FROM f".into(), false),
        ("SELECT g, COUNT(*) AS c, SUM(v) AS sv FROM f GROUP BY g".into(), false),
        ("SELECT s, MIN(k) AS mk FROM f GROUP BY s".into(), false),
        ("SELECT COUNT(*) AS c FROM e".into(), false),
        ("SELECT k, v FROM f ORDER BY k DESC LIMIT 9".into(), true),
        ("SELECT d.name, COUNT(*) AS c FROM f JOIN d ON f.g = d.g GROUP BY d.name".into(), false),
        ("SELECT k + 1 AS k1, CASE WHEN g IS NULL THEN 'n' ELSE s END AS t FROM f WHERE k % 7 = 3".into(), false),
    ];
    // result sizes around the 4096-row slicing boundary
    for lim in [1usize, 4095, 4096, 4097, 8192, 8193] {
        if lim <= n {
            v.push((format!("SELECT k, s FROM f ORDER BY k LIMIT {lim}"), true));
        }
    }
    v
}

pub fn run(quick: bool, _seed: u64, work: &str) -> Out {
    let mut o = Out::new();
    let base = PathBuf::from(work).join(format!("c34-{}", std::process::id()));
    let _ = std::fs::remove_dir_all(&base);
    std::fs::create_dir_all(&base).unwrap();
    let data = base.join("data");
    let n = if quick { 9000 } else { 20000 };
    make_data(&data, n, 3000, 0);
    let rt = tokio::runtime::Builder::new_multi_thread().worker_threads(4).enable_all().build().unwrap();
    rt.block_on(async {
        let modes: [(&str, &str); 4] = [("", ""), ("auto", "auto"), ("off", "0"), ("force", "1")];
        for size in 1..=(if quick { 2usize } else { 3 }) {
            let mut nodes = Vec::new();
            for i in 0..size {
                nodes.push(spawn_node(40 + i as u64, data.clone(), Load::Ok).await);
            }
            for nd in &nodes {
                let st = nd.state().clone();
                wait_until(|| st.tables_loaded(), 60).await;
            }
            let refs: Vec<&ServerHandle> = nodes.iter().collect();
            connect(&refs, size).await;
            let node = &nodes[0];
            let addr = node.address().to_string();
            let mut c = match client(node).await {
                Ok(c) => c,
                Err(e) => {
                    o.violation(json!({"property": "C34", "kind": "native", "why": format!("cannot connect to the Flight endpoint: {e}")}));
                    continue;
                }
            };
            for (sql, ordered) in statements(n) {
                for (fmode, hmode) in modes {
                    o.evaluations += 1;
                    let what = json!({"sql": sql, "mode": fmode, "cluster": size});
                    let mk = |why: String| json!({"property": "C34", "kind": "native", "request": what.clone(), "why": why});
                    let cmd = if fmode.is_empty() { sql.as_bytes().to_vec() } else { json!({"sql": sql, "mode": fmode}).to_string().into_bytes() };
                    let path = if hmode.is_empty() { "/sql".to_string() } else { format!("/sql?distributed={hmode}") };
                    let http = match post_text(&addr, &path, &sql, T).await {
                        Ok(r) => r,
                        Err(e) => {
                            o.violation(mk(format!("HTTP request failed: {e}")));
                            continue;
                        }
                    };
                    let fl = flight_sql(&mut c, cmd).await;
                    match (http.is_success(), fl) {
                        (false, Err(_)) => o.count("both_refuse", 1),
                        (false, Ok(_)) => o.violation(mk(format!("HTTP refuses ({}) but Flight answers", http.status))),
                        (true, Err(e)) => o.violation(mk(format!("HTTP answers but Flight fails: {e}"))),
                        (true, Ok(f)) => {
                            let (hs, hb) = match decode_ipc_stream(&http.body) {
                                Ok(x) => x,
                                Err(e) => {
                                    o.violation(mk(format!("HTTP body does not decode: {e}")));
                                    continue;
                                }
                            };
                            let hrows = rows_text(&hb);
                            let hschema = fields(&hs);
                            let names = |v: &Vec<(String, String)>| v.iter().map(|x| x.0.clone()).collect::<Vec<_>>();
                            let mut bad = None;
                            if f.schema != hschema {
                                bad = Some(format!("DoGet schema {:?}, HTTP schema {:?}", f.schema, hschema));
                            } else if names(&f.info_schema) != names(&f.schema) || f.info_schema.iter().zip(f.schema.iter()).any(|(a, b)| a.1 != b.1 && !hrows.is_empty()) {
                                bad = Some(format!("GetFlightInfo schema {:?}, DoGet schema {:?}", f.info_schema, f.schema));
                            } else if ordered && f.rows != hrows {
                                bad = Some(format!("row sequence differs ({} vs {} rows)", f.rows.len(), hrows.len()));
                            } else if !ordered && !multiset_eq(&f.rows, &hrows) {
                                bad = Some(format!("rows differ ({} vs {} rows)", f.rows.len(), hrows.len()));
                            } else if f.max_batch_rows > 4096 {
                                bad = Some(format!("a Flight message carries {} rows (limit 4096)", f.max_batch_rows));
                            } else if !f.trailer_is_last {
                                bad = Some("the metadata trailer is not the last message".into());
                            } else {
                                match &f.meta {
                                    None => bad = Some("no metadata trailer".into()),
                                    Some(m) => {
                                        let hdist = http.header("x-qe-distributed") == Some("true");
                                        if m["rows"].as_u64() != Some(f.rows.len() as u64) {
                                            bad = Some(format!("trailer says {} rows, the stream carried {}", m["rows"], f.rows.len()));
                                        } else if http.header("x-qe-rows").and_then(|s| s.parse::<usize>().ok()) != Some(hrows.len()) {
                                            bad = Some("x-qe-rows differs from the HTTP body".into());
                                        } else if m["distributed"].as_bool() != Some(hdist) {
                                            bad = Some(format!("distribution decision differs: Flight {} HTTP {}", m["distributed"], hdist));
                                        } else if hdist && m["shards"].as_u64().map(|x| x.to_string()) != http.header("x-qe-shards").map(|s| s.to_string()) {
                                            bad = Some(format!("shard count differs: Flight {} HTTP {:?}", m["shards"], http.header("x-qe-shards")));
                                        } else if !hdist && m["skipped_reason"].as_str().map(|s| s.to_string()) != http.header("x-qe-distributed-skipped").map(|s| s.to_string()) {
                                            bad = Some(format!("skip reason differs: Flight {} HTTP {:?}", m["skipped_reason"], http.header("x-qe-distributed-skipped")));
                                        }
                                    }
                                }
                            }
                            match bad {
                                Some(w) => o.violation(mk(w)),
                                None => {
                                    o.count(if http.header("x-qe-distributed") == Some("true") { "agree_distributed" } else { "agree_local" }, 1);
                                    o.distinct.insert(fnv(format!("{sql}{fmode}{size}").as_bytes()));
                                    if o.samples.is_empty() && f.rows.len() > 4096 {
                                        o.sample(json!({"sql": sql, "rows": f.rows.len(), "max_rows_per_message": f.max_batch_rows, "trailer": f.meta}));
                                    }
                                }
                            }
                        }
                    }
                }
            }
            // errors: both doors refuse
            for bad in ["SELECT nope FROM f", "SELEC 1", "SELECT k FROM missing", "SELECT k FROM f WHERE"] {
                o.evaluations += 1;
                let h = post_text(&addr, "/sql", bad, T).await;
                let f = flight_sql(&mut c, bad.as_bytes().to_vec()).await;
                match (h.map(|r| r.is_success()).unwrap_or(false), f.is_ok()) {
                    (false, false) => o.count("both_refuse", 1),
                    (a, b) => o.violation(json!({"property": "C34", "kind": "native", "request": bad, "why": format!("invalid statement: HTTP answers={a} Flight answers={b}")})),
                }
            }
            // tickets: the minted one works verbatim; every mutation of it is refused or means the same statement
            let sql = "SELECT COUNT(*) AS c FROM f";
            let info = c.get_flight_info(FlightDescriptor::new_cmd(sql.as_bytes().to_vec())).await;
            if let Ok(info) = info {
                let good = info.endpoint[0].ticket.clone().unwrap().ticket.to_vec();
                let want = n.to_string();
                let mut tickets: Vec<(String, Vec<u8>, bool)> = Vec::new(); // (description, bytes, must_refuse)
                for cut in 0..good.len() {
                    tickets.push((format!("truncated to {cut} bytes"), good[..cut].to_vec(), true));
                }
                for v in ["0", "2", "-1", "1.5", "\"1\"", "null", "4294967296"] {
                    tickets.push((format!("version {v}"), format!("{{\"v\":{v},\"sql\":\"{sql}\",\"mode\":\"auto\"}}").into_bytes(), true));
                }
                tickets.push(("no version".into(), format!("{{\"sql\":\"{sql}\"}}").into_bytes(), true));
                tickets.push(("no sql".into(), b"{\"v\":1,\"mode\":\"auto\"}".to_vec(), true));
                tickets.push(("unknown mode".into(), format!("{{\"v\":1,\"sql\":\"{sql}\",\"mode\":\"maybe\"}}").into_bytes(), true));
                tickets.push(("not JSON".into(), sql.as_bytes().to_vec(), true));
                tickets.push(("invalid UTF-8".into(), vec![0xff, 0xfe, b'{'], true));
                tickets.push(("empty".into(), vec![], true));
                tickets.push(("JSON array".into(), b"[1]".to_vec(), true));
                let mut big = format!("{{\"v\":1,\"sql\":\"{sql} -- ").into_bytes();
                big.extend(std::iter::repeat(b'x').take(1024 * 1024 + 16));
                big.extend(b"\",\"mode\":\"auto\"}");
                tickets.push(("oversized (> 1 MiB)".into(), big, true));
                tickets.push(("minted ticket verbatim".into(), good.clone(), false));
                tickets.push(("extra unknown field".into(), format!("{{\"v\":1,\"sql\":\"{sql}\",\"mode\":\"auto\",\"x\":1}}").into_bytes(), false));
                for (desc, bytes, must_refuse) in tickets {
                    o.evaluations += 1;
                    let r = do_get(&mut c, Ticket::new(bytes), vec![]).await;
                    match (must_refuse, r) {
                        (true, Err(_)) => {
                            o.count("ticket_refused", 1);
                            o.distinct.insert(fnv(format!("ticket{desc}{size}").as_bytes()));
                        }
                        (true, Ok(a)) => o.violation(json!({"property": "C34", "kind": "native", "request": {"ticket": desc}, "why": format!("a malformed ticket was served ({} rows)", a.rows.len())})),
                        (false, Ok(a)) if a.rows.len() == 1 && a.rows[0][0] == want => o.count("ticket_served", 1),
                        (false, Ok(a)) => o.violation(json!({"property": "C34", "kind": "native", "request": {"ticket": desc}, "why": format!("a well-formed ticket returned {:?}", a.rows)})),
                        (false, Err(e)) => {
                            if desc == "extra unknown field" {
                                o.count("ticket_with_unknown_field_refused", 1);
                            } else {
                                o.violation(json!({"property": "C34", "kind": "native", "request": {"ticket": desc}, "why": format!("the minted ticket was refused: {e}")}));
                            }
                        }
                    }
                }
            } else {
                o.violation(json!({"property": "C34", "kind": "native", "why": "get_flight_info failed for a plain aggregate"}));
            }
            drop(c);
            for nd in nodes {
                nd.shutdown().await;
            }
        }
    });
    let _ = std::fs::remove_dir_all(&base);
    o
}
