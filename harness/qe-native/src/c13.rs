//! C13: shard scans reassemble the table exactly (through the shard context the coordinator builds).
use crate::out::Out;
use arrow::array::{Array, ArrayRef, Int64Array, StringArray};
use arrow::datatypes::{DataType, Field, Schema};
use arrow::record_batch::RecordBatch;
use parquet::arrow::ArrowWriter;
use parquet::file::properties::WriterProperties;
use query_engine::distributed::coordinator::{shard_context, splits_of};
use query_engine::distributed::splits::assign_lpt;
use query_engine::execution::ExecutionContext;
use serde_json::json;
use std::collections::BTreeMap;
use std::path::PathBuf;
use std::sync::Arc;

fn schema() -> Arc<Schema> {
    Arc::new(Schema::new(vec![
        Field::new("id", DataType::Int64, false),
        Field::new("v", DataType::Int64, true),
        Field::new("s", DataType::Utf8, true),
    ]))
}

fn rows(n: usize) -> Vec<(i64, Option<i64>, Option<&'static str>)> {
    (0..n as i64)
        .map(|i| (i, if i % 3 == 1 { None } else { Some(i % 4) }, match i % 4 { 0 => Some("a"), 1 => Some("b"), 2 => None, _ => Some("a") }))
        .collect()
}

fn write_table(dir: &PathBuf, n: usize, files: usize, rg: usize) {
    let _ = std::fs::remove_dir_all(dir);
    std::fs::create_dir_all(dir).unwrap();
    let all = rows(n);
    let files = files.max(1);
    let per = n.div_ceil(files).max(1);
    for f in 0..files {
        let lo = (f * per).min(n);
        let hi = ((f + 1) * per).min(n);
        if lo >= hi && !(n == 0 && f == 0) {
            continue;
        }
        let part = &all[lo..hi];
        let batch = RecordBatch::try_new(
            schema(),
            vec![
                Arc::new(Int64Array::from(part.iter().map(|r| r.0).collect::<Vec<_>>())) as ArrayRef,
                Arc::new(Int64Array::from(part.iter().map(|r| r.1).collect::<Vec<_>>())),
                Arc::new(StringArray::from(part.iter().map(|r| r.2).collect::<Vec<_>>())),
            ],
        )
        .unwrap();
        let props = WriterProperties::builder().set_max_row_group_row_count(Some(rg.max(1))).build();
        let file = std::fs::File::create(dir.join(format!("part-{f:02}.parquet"))).unwrap();
        let mut w = ArrowWriter::try_new(file, schema(), Some(props)).unwrap();
        w.write(&batch).unwrap();
        w.close().unwrap();
    }
}

fn cellkey(b: &RecordBatch, r: usize) -> String {
    let mut s = String::new();
    for c in b.columns() {
        if c.is_null(r) {
            s.push_str("N|");
        } else if let Some(a) = c.as_any().downcast_ref::<Int64Array>() {
            s.push_str(&format!("{}|", a.value(r)));
        } else if let Some(a) = c.as_any().downcast_ref::<StringArray>() {
            s.push_str(&format!("'{}'|", a.value(r)));
        } else {
            s.push_str(&arrow::util::display::array_value_to_string(c.as_ref(), r).unwrap_or_default());
            s.push('|');
        }
    }
    s
}

fn multiset(batches: &[RecordBatch]) -> BTreeMap<String, usize> {
    let mut m = BTreeMap::new();
    for b in batches {
        for r in 0..b.num_rows() {
            *m.entry(cellkey(b, r)).or_insert(0) += 1;
        }
    }
    m
}

pub fn run(quick: bool, seed: u64, work: &str) -> Out {
    let sizes: Vec<usize> = if quick { vec![1, 5, 12] } else { vec![0, 1, 2, 5, 12, 13] };
    let mut configs: Vec<(usize, usize, usize)> = Vec::new();
    for &n in &sizes {
        for files in 1..=3usize {
            for rg in [1usize, 2, 5, 1000] {
                configs.push((n, files, rg));
            }
        }
    }
    let rot = (seed as usize) % configs.len();
    configs.rotate_left(rot);
    let projections = ["id", "id, v", "id, s", "v", "s, v", "id, v, s", "s"];
    let filters = ["", "id < 3", "id = 4", "v IS NULL", "s = 'a'", "id >= 100", "id >= 0", "v = 2 AND id > 1"];
    let base = PathBuf::from(work).join(format!("c13-{}", std::process::id()));
    // plain OS threads (not rayon): the engine itself runs rayon jobs under block_on, and a rayon worker that
    // steals another outer task while blocked would start a runtime inside a runtime
    let indexed: Vec<(usize, (usize, usize, usize))> = configs.iter().cloned().enumerate().collect();
    let nthreads = 8usize;
    let chunk = indexed.len().div_ceil(nthreads).max(1);
    let outs: Vec<Out> = std::thread::scope(|sc| {
        let hs: Vec<_> = indexed.chunks(chunk).map(|part| { let base = base.clone(); let part = part.to_vec(); sc.spawn(move || {
        let rt = tokio::runtime::Builder::new_current_thread().enable_all().build().unwrap();
        let mut acc = Out::new();
        for (ci, (n, files, rg)) in part {
          let one = (|| {
            let mut o = Out::new();
            let dir = base.join(format!("t{ci}"));
            write_table(&dir, n, files, rg);
            let mut ctx = ExecutionContext::new();
            if let Err(e) = ctx.register_parquet("t", &dir) {
                o.violation(json!({"property":"C13","kind":"native","table":[n,files,rg],"why":format!("register failed: {e}")}));
                return o;
            }
            let max_nodes = if quick { 6 } else { 8 };
            for nodes in 1..=max_nodes {
                let set = match splits_of(&ctx, "t", nodes) {
                    Ok(s) => s,
                    Err(e) => {
                        o.violation(json!({"property":"C13","kind":"native","table":[n,files,rg],"nodes":nodes,"why":format!("splits_of failed: {e}")}));
                        continue;
                    }
                };
                let assignment = assign_lpt(&set, nodes);
                let mut shards = Vec::new();
                let mut bad = false;
                for i in 0..nodes {
                    match shard_context(&ctx, "t", &set, &assignment, i) {
                        Ok((c, _)) => {
                            // a shard must not expose whole files to whole-file fast paths
                            if let Some(p) = c.table_provider("t") {
                                if p.parquet_files().is_some() {
                                    o.violation(json!({"property":"C13","kind":"native","table":[n,files,rg],"nodes":nodes,"shard":i,"why":"shard provider exposes parquet_files()"}));
                                    bad = true;
                                }
                            }
                            shards.push(c);
                        }
                        Err(e) => {
                            o.violation(json!({"property":"C13","kind":"native","table":[n,files,rg],"nodes":nodes,"shard":i,"why":format!("shard_context failed: {e}")}));
                            bad = true;
                        }
                    }
                }
                if bad {
                    continue;
                }
                let sub_rg = set.splits.iter().any(|s| s.row_offset > 0);
                if sub_rg {
                    o.count("assignments_with_sub_row_group_ranges", 1);
                }
                for proj in projections {
                    for f in filters {
                        let sql = if f.is_empty() { format!("SELECT {proj} FROM t") } else { format!("SELECT {proj} FROM t WHERE {f}") };
                        o.evaluations += 1;
                        let whole = match rt.block_on(ctx.sql(&sql)) {
                            Ok(r) => multiset(&r.batches),
                            Err(e) => {
                                o.violation(json!({"property":"C13","kind":"native","table":[n,files,rg],"sql":sql,"why":format!("whole-table query failed: {e}")}));
                                continue;
                            }
                        };
                        let mut union: BTreeMap<String, usize> = BTreeMap::new();
                        let mut failed = None;
                        for (i, sc) in shards.iter().enumerate() {
                            match rt.block_on(sc.sql(&sql)) {
                                Ok(r) => {
                                    for (k, c) in multiset(&r.batches) {
                                        *union.entry(k).or_insert(0) += c;
                                    }
                                }
                                Err(e) => failed = Some(format!("shard {i} failed: {e}")),
                            }
                        }
                        if let Some(w) = failed {
                            o.violation(json!({"property":"C13","kind":"native","table":[n,files,rg],"nodes":nodes,"sql":sql,"why":w}));
                        } else if union != whole {
                            o.violation(json!({"property":"C13","kind":"native","table":{"rows":n,"files":files,"row_group_size":rg},"nodes":nodes,"sql":sql,
                                "why":"the union of the shard scans differs from the whole table (rows lost or duplicated)",
                                "union": union, "whole": whole,
                                "splits": set.splits.iter().map(|s| (s.file.clone(), s.row_group, s.row_offset, s.num_rows)).collect::<Vec<_>>(),
                                "per_node": assignment.per_node}));
                        } else if !whole.is_empty() && nodes > 1 {
                            o.nontrivial += 1;
                            if sub_rg && n == 12 && nodes == 5 && proj == "id, v" && f.is_empty() {
                                o.sample(json!({"table":{"rows":n,"files":files,"row_group_size":rg},"nodes":nodes,"sql":sql,
                                    "splits": set.splits.iter().map(|s| (s.file.clone(), s.row_group, s.row_offset, s.num_rows)).collect::<Vec<_>>(),"per_node": assignment.per_node}));
                            }
                        }
                    }
                }
                // aggregates through each shard sum to the whole
                o.evaluations += 1;
                let mut total = 0i64;
                for sc in &shards {
                    if let Ok(r) = rt.block_on(sc.sql("SELECT COUNT(*) FROM t")) {
                        if let Some(b) = r.batches.first() {
                            if let Some(a) = b.column(0).as_any().downcast_ref::<Int64Array>() {
                                if a.len() > 0 {
                                    total += a.value(0);
                                }
                            }
                        }
                    }
                }
                if total != n as i64 {
                    o.violation(json!({"property":"C13","kind":"native","table":[n,files,rg],"nodes":nodes,"why":format!("COUNT(*) over the shards sums to {total}, table has {n} rows")}));
                }
            }
            let _ = std::fs::remove_dir_all(&dir);
            o
          })();
          acc.merge(one);
        }
        acc
        }) }).collect();
        hs.into_iter().map(|h| h.join().unwrap()).collect()
    });
    let _ = std::fs::remove_dir_all(&base);
    let mut o = Out::new();
    for x in outs {
        o.merge(x);
    }
    o.extra.insert("tables".into(), json!(configs.len()));
    o
}
