//! C37: vector encodings round-trip; SIMD helpers match the Arrow kernels.
use crate::out::{sequences, Out};
use arrow::array::*;
use arrow::datatypes::DataType;
use query_engine::arrow_ffi::array::encode_optimal;
use query_engine::arrow_ffi::codec::{add_simd, compare_simd, count_simd, filter_simd, multiply_simd, sum_simd, CompareOp, ScalarValue as CV};
use serde_json::json;
use std::sync::Arc;

fn make(t: &str, cells: &[usize]) -> ArrayRef {
    // cell 0 = NULL, 1..=2 = two values of the type
    match t {
        "int64" => Arc::new(Int64Array::from(cells.iter().map(|c| match c { 0 => None, 1 => Some(0i64), _ => Some(1) }).collect::<Vec<_>>())),
        "int32" => Arc::new(Int32Array::from(cells.iter().map(|c| match c { 0 => None, 1 => Some(0i32), _ => Some(1) }).collect::<Vec<_>>())),
        "float64" => Arc::new(Float64Array::from(cells.iter().map(|c| match c { 0 => None, 1 => Some(0.5f64), _ => Some(-0.0) }).collect::<Vec<_>>())),
        "utf8" => Arc::new(StringArray::from(cells.iter().map(|c| match c { 0 => None, 1 => Some(""), _ => Some("a") }).collect::<Vec<_>>())),
        _ => Arc::new(BooleanArray::from(cells.iter().map(|c| match c { 0 => None, 1 => Some(false), _ => Some(true) }).collect::<Vec<_>>())),
    }
}

fn logical(a: &ArrayRef) -> ArrayRef {
    match a.data_type() {
        DataType::Dictionary(_, v) => arrow::compute::cast(a, v).unwrap_or_else(|_| a.clone()),
        _ => a.clone(),
    }
}

fn same(a: &ArrayRef, b: &ArrayRef) -> bool {
    let (a, b) = (logical(a), logical(b));
    a.data_type() == b.data_type() && a.len() == b.len() && a.to_data() == b.to_data()
}

fn desc(a: &ArrayRef) -> String {
    format!("{:?}", a).chars().filter(|c| !c.is_whitespace()).take(160).collect()
}

fn check_roundtrip(o: &mut Out, t: &str, a: &ArrayRef, what: &str) {
    o.evaluations += 1;
    let r = std::panic::catch_unwind(std::panic::AssertUnwindSafe(|| encode_optimal(a.clone()).map(|e| (e.encoding(), e.decode()))));
    match r {
        Err(_) => o.violation(json!({"property":"C37","kind":"native","part":"encode","type":t,"case":what,"array":desc(a),"why":"panic"})),
        Ok(Err(e)) => o.violation(json!({"property":"C37","kind":"native","part":"encode","type":t,"case":what,"array":desc(a),"why":format!("error: {e}")})),
        Ok(Ok((enc, d))) => {
            if !same(a, &d) {
                o.violation(json!({"property":"C37","kind":"native","part":"encode","type":t,"case":what,"array":desc(a),"encoding":format!("{enc:?}"),"decoded":desc(&d),
                    "why":"decode(encode(a)) differs from a"}));
            } else {
                o.count(&format!("roundtrip_ok:{enc:?}"), 1);
                if a.len() >= 2 {
                    o.nontrivial += 1;
                }
            }
        }
    }
}

fn check_kernels(o: &mut Out, t: &str, a: &ArrayRef, b: &ArrayRef) {
    // filter with b's non-null-ness pattern as the predicate
    let pred: Vec<bool> = (0..a.len()).map(|i| i % 2 == 0 || b.is_valid(i)).collect();
    let mut cmp = |name: &str, got: Result<ArrayRef, String>, want: Result<ArrayRef, String>, o: &mut Out| {
        o.evaluations += 1;
        match (got, want) {
            (Ok(g), Ok(w)) => {
                if !same(&g, &w) {
                    o.violation(json!({"property":"C37","kind":"native","part":name,"type":t,"left":desc(a),"right":desc(b),"got":desc(&g),"arrow":desc(&w),"why":"differs from the Arrow kernel"}));
                } else {
                    o.nontrivial += 1;
                }
            }
            (Err(_), _) => o.count(&format!("{name}:unsupported_type"), 1),
            (Ok(g), Err(e)) => o.violation(json!({"property":"C37","kind":"native","part":name,"type":t,"left":desc(a),"got":desc(&g),"why":format!("Arrow kernel fails ({e}) but the helper answers")})),
        }
    };
    let guard = |f: &dyn Fn() -> Result<ArrayRef, String>| -> Result<ArrayRef, String> {
        match std::panic::catch_unwind(std::panic::AssertUnwindSafe(f)) {
            Ok(r) => r,
            Err(_) => Err("panic".into()),
        }
    };
    cmp("filter_simd", guard(&|| filter_simd(a.as_ref(), &pred).map_err(|e| e.to_string())),
        arrow::compute::filter(a.as_ref(), &BooleanArray::from(pred.clone())).map_err(|e| e.to_string()), o);
    if a.len() == b.len() {
        for (op, name) in [(CompareOp::Eq, "eq"), (CompareOp::Ne, "ne"), (CompareOp::Lt, "lt"), (CompareOp::Le, "le"), (CompareOp::Gt, "gt"), (CompareOp::Ge, "ge")] {
            let want = match name {
                "eq" => arrow::compute::kernels::cmp::eq(a, b),
                "ne" => arrow::compute::kernels::cmp::neq(a, b),
                "lt" => arrow::compute::kernels::cmp::lt(a, b),
                "le" => arrow::compute::kernels::cmp::lt_eq(a, b),
                "gt" => arrow::compute::kernels::cmp::gt(a, b),
                _ => arrow::compute::kernels::cmp::gt_eq(a, b),
            };
            cmp(&format!("compare_simd:{name}"), guard(&|| compare_simd(a.as_ref(), b.as_ref(), op).map(|x| Arc::new(x) as ArrayRef).map_err(|e| e.to_string())),
                want.map(|x| Arc::new(x) as ArrayRef).map_err(|e| e.to_string()), o);
        }
        if matches!(a.data_type(), DataType::Int64 | DataType::Float64) {
            cmp("add_simd", guard(&|| add_simd(a.as_ref(), b.as_ref()).map_err(|e| e.to_string())), arrow::compute::kernels::numeric::add_wrapping(a, b).map_err(|e| e.to_string()), o);
            cmp("multiply_simd", guard(&|| multiply_simd(a.as_ref(), b.as_ref()).map_err(|e| e.to_string())), arrow::compute::kernels::numeric::mul_wrapping(a, b).map_err(|e| e.to_string()), o);
        }
    }
    // sum / count
    o.evaluations += 1;
    let want_count = (a.len() - a.null_count()) as i64;
    match std::panic::catch_unwind(std::panic::AssertUnwindSafe(|| count_simd(a.as_ref()))) {
        Ok(Ok(c)) if c == want_count => o.nontrivial += 1,
        other => o.violation(json!({"property":"C37","kind":"native","part":"count_simd","type":t,"array":desc(a),"got":format!("{other:?}"),"want":want_count})),
    }
    if matches!(a.data_type(), DataType::Int64 | DataType::Float64) {
        o.evaluations += 1;
        let got = std::panic::catch_unwind(std::panic::AssertUnwindSafe(|| sum_simd(a.as_ref())));
        let ok = match (a.data_type(), &got) {
            (DataType::Int64, Ok(Ok(CV::Int64(g)))) => *g == arrow::compute::sum(a.as_any().downcast_ref::<Int64Array>().unwrap()),
            (DataType::Float64, Ok(Ok(CV::Float64(g)))) => {
                let w = arrow::compute::sum(a.as_any().downcast_ref::<Float64Array>().unwrap());
                match (g, w) {
                    (Some(x), Some(y)) => x.to_bits() == y.to_bits() || x == &y,
                    (None, None) => true,
                    _ => false,
                }
            }
            (_, Ok(Ok(CV::Null))) => a.len() == a.null_count(),
            _ => false,
        };
        if ok {
            o.nontrivial += 1;
        } else {
            o.violation(json!({"property":"C37","kind":"native","part":"sum_simd","type":t,"array":desc(a),"got":format!("{got:?}"),"why":"differs from arrow::compute::sum (None when no non-NULL value)"}));
        }
    }
}

pub fn run(quick: bool, _seed: u64) -> Out {
    let mut o = Out::new();
    let types = ["int64", "int32", "float64", "utf8", "bool"];
    let maxlen = if quick { 5 } else { 6 };
    for t in types {
        let mut smalls: Vec<ArrayRef> = Vec::new();
        for len in 0..=maxlen {
            sequences(3, len, &mut |cells| {
                let a = make(t, cells);
                check_roundtrip(&mut o, t, &a, "all arrays over {NULL,v1,v2}");
                if len >= 2 {
                    let s = a.slice(1, len - 1);
                    check_roundtrip(&mut o, t, &s, "sliced at offset 1");
                }
                if len <= 4 {
                    smalls.push(a);
                }
            });
        }
        // structured families for every length 1..130
        for n in 1..=130usize {
            let fam: Vec<(String, Vec<usize>)> = vec![
                ("constant".into(), vec![1; n]),
                ("all NULL".into(), vec![0; n]),
                ("alternating".into(), (0..n).map(|i| 1 + i % 2).collect()),
                ("runs of period 3".into(), (0..n).map(|i| 1 + (i / 3) % 2).collect()),
                ("runs of period 7".into(), (0..n).map(|i| 1 + (i / 7) % 2).collect()),
                ("single NULL at the end".into(), (0..n).map(|i| if i + 1 == n { 0 } else { 1 }).collect()),
                ("single NULL at the start".into(), (0..n).map(|i| if i == 0 { 0 } else { 1 }).collect()),
                ("single NULL in the middle".into(), (0..n).map(|i| if i == n / 2 { 0 } else { 2 }).collect()),
                ("last run of length 1".into(), (0..n).map(|i| if i + 1 == n { 2 } else { 1 }).collect()),
            ];
            for (name, cells) in fam {
                let a = make(t, &cells);
                check_roundtrip(&mut o, t, &a, &name);
                if n % 9 == 0 || n < 20 {
                    let b = make(t, &cells.iter().rev().cloned().collect::<Vec<_>>());
                    check_kernels(&mut o, t, &a, &b);
                }
            }
        }
        // binary helpers over all pairs of the <= 4-length arrays of equal length
        for a in &smalls {
            for b in &smalls {
                if a.len() == b.len() && (a.len() <= 3 || !quick) {
                    check_kernels(&mut o, t, a, b);
                }
            }
        }
    }
    o.sample(json!({"array": "Int64[NULL, 0]", "expect": "encode_optimal(..).decode() == Int64[NULL, 0]; filter_simd keeps the NULL like arrow::compute::filter"}));
    o
}
